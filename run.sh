#!/bin/bash
# ./run.sh <Cnn> <quick|thorough>   instrument /repo's working tree, build the harness with the overlay, run the check
# ./run.sh replay <file>            re-execute a recorded violation
# ./run.sh transparency             run the repository's own tests on the instrumented build
set -u
cd "$(dirname "$0")"
ROOT=$(pwd)
export GOFLAGS=-mod=mod GOPROXY=off GOSUMDB=off GOTOOLCHAIN=local VERIF_ROOT=$ROOT
export GOCACHE=${GOCACHE:-$ROOT/.cache/go-build}
REPO=${VERIF_REPO:-/repo/v4}   # the tree under test (default: /repo's working tree)
WORK=$(mktemp -d "$ROOT/.work.XXXXXX")
trap 'rm -rf "$WORK"' EXIT
# Every scratch tree checked leaves a full set of objects in the build cache (the directory of the
# tree is part of the cache key), so the cache is emptied when it has grown past a limit - only while no other run
# is building (builds hold the lock shared, the cleaner takes it exclusively without waiting).
mkdir -p "$ROOT/.cache"
exec 9>"$ROOT/.cache/lock"
if [ -d "$GOCACHE" ] && flock -xn 9; then
  [ "$(du -sm "$GOCACHE" 2>/dev/null | cut -f1)" -gt "${VERIF_CACHE_MB:-8000}" ] && go clean -cache
fi
flock -s 9
[ -x bin/vinstr ] || go build -o bin/vinstr ./cmd/vinstr || { echo "verif: cannot build vinstr" >&2; exit 2; }
bin/vinstr -repo "$REPO" -rt "$ROOT/_rt" -out "$WORK" || { echo "verif: instrumentation failed (exit 2: machinery, not a verdict)" >&2; exit 2; }
case "${1:-}" in
transparency)
  (cd "$REPO" && go test -overlay "$WORK/overlay.json" -vet=off -count=1 ./... ) ; exit $? ;;
esac
MODFLAG=""
if [ "$REPO" != "/repo/v4" ]; then
  sed "s|=> /repo/v4|=> $REPO|" go.mod > "$WORK/go.mod"; cp go.sum "$WORK/go.sum"; MODFLAG="-modfile=$WORK/go.mod"
fi
export VERIF_WORKDIR=$WORK VERIF_OVERLAY=$WORK/overlay.json VERIF_MODFILE=${MODFLAG#-modfile=}   # for the auxiliary -race build (engine/racepass.go)
go build $MODFLAG -overlay "$WORK/overlay.json" -o "$WORK/vcheck" ./cmd/vcheck || { echo "verif: harness build failed (machinery, not a verdict)" >&2; exit 2; }
flock -u 9
case "${1:-}" in
replay) "$WORK/vcheck" replay "$2"; exit $? ;;
list) "$WORK/vcheck" list; exit $? ;;
*) TIER=${2:-${VERIF_TIER:-quick}}; "$WORK/vcheck" run "$1" "$TIER"; exit $? ;;
esac
