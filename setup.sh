#!/bin/bash
# Offline setup: build the instrumenter, warm the build cache with one overlay
# build of the harness, and run the repository's own tests on the instrumented
# build (transparency check: the rewrites preserve behaviour).
set -u
cd "$(dirname "$0")"
export GOFLAGS=-mod=mod GOPROXY=off GOSUMDB=off GOTOOLCHAIN=local
export GOCACHE=$(pwd)/.cache/go-build
mkdir -p bin .cache
go build -o bin/vinstr ./cmd/vinstr || exit 2
./run.sh list >/dev/null || exit 2
./run.sh transparency || { echo "setup: repository tests fail on the instrumented build" >&2; exit 2; }
echo "setup ok"
