#!/bin/bash
# Offline setup: build the instrumenter, warm the build cache with one overlay
# build of the harness, and run the repository's own tests on the instrumented
# build (transparency check: the rewrites preserve behaviour).
set -u
cd "$(dirname "$0")"
export GOFLAGS=-mod=mod GOPROXY=off GOSUMDB=off GOTOOLCHAIN=local
export GOCACHE=$(pwd)/.cache/go-build
mkdir -p bin .cache
go build -o bin/vinstr ./cmd/vinstr || exit 2
# self-test of the explorers (sleep sets and DPOR must reach the same outcomes as plain enumeration) and of the runtime model (spawn edge, RWMutex writer preference)
(cd _rt && go test -count=1 -short -run 'TestReductions|TestRandomPrograms|TestSpawnEdge|TestRWMutexWriterPreference|TestCondModel|TestMapAndOnceModel|TestSelectRendezvousModel' . >/dev/null) || { echo "setup: explorer self-test failed" >&2; exit 2; }
./run.sh list >/dev/null || exit 2
./run.sh transparency || { echo "setup: repository tests fail on the instrumented build" >&2; exit 2; }
echo "setup ok"
