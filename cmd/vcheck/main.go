// vcheck is the harness binary; it is always built with the instrumentation
// overlay (see run.sh).
package main

import (
	"fmt"
	"os"
	"strconv"
	"time"

	_ "verif/checks/c01"
	_ "verif/checks/c02"
	_ "verif/checks/c03"
	_ "verif/checks/c06"
	_ "verif/checks/c07"
	_ "verif/checks/c09"
	_ "verif/checks/c10"
	_ "verif/checks/c11"
	_ "verif/checks/c12"
	_ "verif/checks/c13"
	_ "verif/checks/c14"
	_ "verif/checks/c15"
	_ "verif/checks/c16"
	_ "verif/checks/c17"
	_ "verif/checks/c18"
	_ "verif/checks/c19"
	_ "verif/checks/c20"
	_ "verif/checks/queue"
	"verif/engine"
)

func main() {
	if len(os.Args) < 2 {
		fmt.Fprintln(os.Stderr, "usage: vcheck run <id> <tier> | worker <id> <tier> <deadline> | replay <file> | list")
		os.Exit(2)
	}
	root := os.Getenv("VERIF_ROOT")
	if root == "" {
		root = "/verif"
	}
	switch os.Args[1] {
	case "list":
		for _, id := range engine.IDs() {
			fmt.Println(id)
		}
	case "run":
		id, tier := os.Args[2], os.Args[3]
		seed, _ := strconv.ParseInt(os.Getenv("VERIF_SEED"), 10, 64)
		workers := 16
		if w, err := strconv.Atoi(os.Getenv("VERIF_WORKERS")); err == nil && w > 0 {
			workers = w
		}
		self, _ := os.Executable()
		os.Exit(engine.Main(root, self, id, tier, workers, seed))
	case "worker":
		ns, _ := strconv.ParseInt(os.Args[4], 10, 64)
		engine.WorkerMain(os.Args[2], os.Args[3], time.Unix(0, ns))
	case "replay":
		os.Exit(engine.ReplayMain(os.Args[2]))
	case "racepass":
		// only meaningful in the binary built with -race (engine.RacePassUnit builds and runs it)
		reps, _ := strconv.Atoi(os.Args[4])
		engine.RacePassMain(os.Args[2], os.Args[3], reps)
	default:
		fmt.Fprintln(os.Stderr, "unknown command")
		os.Exit(2)
	}
}
