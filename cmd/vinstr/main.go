// vinstr instruments the working tree of the repository for the /verif model
// checker. It never writes inside the repository: it emits rewritten copies of
// every non-test Go file into an output directory together with an overlay
// file for `go build -overlay`, which also mounts the runtime (/verif/_rt) as a
// virtual package inside the repository's module path.
//
// Rewrites (DESIGN.md §2.1):
//  1. control of nondeterminism: sync -> vsync, crypto/rand -> vrand,
//     go statements, channel send/receive/close -> scheduler helpers;
//  2. fuel: Tick() at the top of every function and loop body;
//  3. shared-access log: Acc()/AccMap() before statements that touch struct
//     fields, package-level variables and maps.
//
// Exit status 2 (and no overlay) when the tree uses a construct the scheduler
// does not model.
package main

import (
	"bytes"
	"encoding/json"
	"flag"
	"fmt"
	"go/ast"
	"go/printer"
	"go/token"
	"go/types"
	"os"
	"path/filepath"
	"sort"
	"strconv"
	"strings"

	"golang.org/x/tools/go/packages"
)

const modPath = "github.com/craterdog/go-collection-framework/v4"
const rtPath = modPath + "/verifrt"

var (
	repoDir = flag.String("repo", "/repo/v4", "module root of the repository")
	rtDir   = flag.String("rt", "/verif/_rt", "runtime sources")
	outDir  = flag.String("out", "", "output directory")
	extra   = flag.String("extra", "", "comma separated list of src=dst extra overlay entries")
	noLog   = flag.Bool("nolog", false, "omit the shared-access log")
)

type stats struct {
	Files, Funcs, Loops, Ticks    int
	GoStmts, Sends, Recvs, Closes int
	Selects                       int
	AccField, AccGlobal, AccMap   int
	AccDeref, AccElem             int
	Opaque                        int
	OpaqueSites                   []string
	GlobalMutexes                 []string
	Registries                    []string
}

var st stats

func fatal(code int, format string, args ...any) {
	fmt.Fprintf(os.Stderr, "vinstr: "+format+"\n", args...)
	os.Exit(code)
}

func refuse(fset *token.FileSet, pos token.Pos, what string) {
	fatal(2, "%s: unsupported construct: %s (the scheduler does not model it; refusing rather than guessing)", fset.Position(pos), what)
}

func main() {
	flag.Parse()
	if *outDir == "" {
		fatal(2, "-out required")
	}
	cfg := &packages.Config{
		Mode: packages.NeedName | packages.NeedFiles | packages.NeedCompiledGoFiles | packages.NeedSyntax |
			packages.NeedTypes | packages.NeedTypesInfo | packages.NeedImports | packages.NeedDeps,
		Dir: *repoDir,
		Env: append(os.Environ(), "GOFLAGS=-mod=mod", "GOPROXY=off", "GOSUMDB=off", "GOTOOLCHAIN=local"),
	}
	pkgs, err := packages.Load(cfg, "./...")
	if err != nil {
		fatal(2, "load: %v", err)
	}
	overlay := map[string]string{}
	nerr := 0
	for _, p := range pkgs {
		for _, e := range p.Errors {
			fmt.Fprintf(os.Stderr, "vinstr: %v\n", e)
			nerr++
		}
	}
	if nerr > 0 {
		fatal(2, "the repository does not type-check")
	}
	sort.Slice(pkgs, func(i, j int) bool { return pkgs[i].PkgPath < pkgs[j].PkgPath })
	for _, p := range pkgs {
		if strings.HasPrefix(p.PkgPath, rtPath) {
			continue
		}
		instrumentPackage(p, overlay)
	}
	// mount the runtime
	mount := func(sub string) {
		ents, err := os.ReadDir(filepath.Join(*rtDir, sub))
		if err != nil {
			fatal(2, "runtime: %v", err)
		}
		for _, e := range ents {
			if strings.HasSuffix(e.Name(), ".go") && !strings.HasSuffix(e.Name(), "_test.go") {
				overlay[filepath.Join(*repoDir, "verifrt", sub, e.Name())] = filepath.Join(*rtDir, sub, e.Name())
			}
		}
	}
	mount("")
	mount("vsync")
	mount("vrand")
	mount("vatomic")
	if *extra != "" {
		for _, kv := range strings.Split(*extra, ",") {
			parts := strings.SplitN(kv, "=", 2)
			if len(parts) == 2 {
				overlay[parts[0]] = parts[1]
			}
		}
	}
	data, _ := json.MarshalIndent(map[string]any{"Replace": overlay}, "", " ")
	if err := os.WriteFile(filepath.Join(*outDir, "overlay.json"), data, 0o644); err != nil {
		fatal(2, "%v", err)
	}
	sdata, _ := json.MarshalIndent(st, "", " ")
	os.WriteFile(filepath.Join(*outDir, "instr_stats.json"), sdata, 0o644)
}

type ctx struct {
	pkg      *packages.Package
	fset     *token.FileSet
	info     *types.Info
	file     *ast.File
	fname    string
	nrange   int
	captured map[*types.Var]bool // local variables referenced from a function literal (shared between goroutines when the literal is started with go)
}

func instrumentPackage(p *packages.Package, overlay map[string]string) {
	var globMutex, globRW []string
	var registries, syncMaps []string
	var reinits []string
	reinitOf := map[*types.Var]string{}
	for i, f := range p.Syntax {
		path := p.CompiledGoFiles[i]
		if strings.HasSuffix(path, "_test.go") {
			continue
		}
		c := &ctx{pkg: p, fset: p.Fset, info: p.TypesInfo, file: f, fname: filepath.Base(path)}
		c.checkDirectives()
		c.rewriteFile()
		// package-level mutexes and class registries
		for _, d := range f.Decls {
			gd, ok := d.(*ast.GenDecl)
			if !ok || gd.Tok != token.VAR {
				continue
			}
			for _, s := range gd.Specs {
				vs := s.(*ast.ValueSpec)
				for _, n := range vs.Names {
					obj := p.TypesInfo.Defs[n]
					if obj == nil {
						continue
					}
					ts := obj.Type().String()
					if ts == "sync.Mutex" {
						globMutex = append(globMutex, n.Name)
					}
					if ts == "sync.RWMutex" {
						globRW = append(globRW, n.Name)
					}
					// class registries: package-level maps (or sync.Map) named ...Class, whatever their key type
					if strings.HasSuffix(n.Name, "Class") {
						if mt, isMap := obj.Type().Underlying().(*types.Map); isMap && types.IsInterface(mt.Elem()) {
							registries = append(registries, n.Name)
						} else if ts == "sync.Map" {
							syncMaps = append(syncMaps, n.Name)
						}
					}
				}
			}
		}
		var buf bytes.Buffer
		f.Comments = nil
		if err := (&printer.Config{Mode: printer.UseSpaces | printer.TabIndent, Tabwidth: 8}).Fprint(&buf, p.Fset, f); err != nil {
			fatal(2, "print %s: %v", path, err)
		}
		// one re-initialisation function per package-level var specification, appended to the file that
		// declares it (its imports are in scope there); VerifResetAll calls them in initialization order
		for _, d := range f.Decls {
			gd, ok := d.(*ast.GenDecl)
			if !ok || gd.Tok != token.VAR {
				continue
			}
			for _, sp := range gd.Specs {
				vs := sp.(*ast.ValueSpec)
				var names []string
				skip := true
				for _, n := range vs.Names {
					names = append(names, n.Name)
					if n.Name != "_" {
						skip = false
					}
					if obj := p.TypesInfo.Defs[n]; obj != nil {
						if ts := obj.Type().String(); ts == "sync.Mutex" || ts == "sync.RWMutex" {
							skip = true // their model state is reset by the runtime; the global marking must survive
						}
						// the class registries stay warm (VerifReset empties them for the first-use programs): with cold
						// registries every execution would consist mostly of class registrations
						if strings.HasSuffix(n.Name, "Class") {
							if mt, isMap := obj.Type().Underlying().(*types.Map); isMap && types.IsInterface(mt.Elem()) {
								skip = true
							} else if obj.Type().String() == "sync.Map" {
								skip = true
							}
						}
					}
				}
				if skip {
					continue
				}
				fn := fmt.Sprintf("verifReinit%d", len(reinits))
				var body bytes.Buffer
				pr := func(n ast.Node) string {
					var bb bytes.Buffer
					(&printer.Config{Mode: printer.UseSpaces | printer.TabIndent, Tabwidth: 8}).Fprint(&bb, p.Fset, n)
					return bb.String()
				}
				switch {
				case len(vs.Values) == 0:
					for _, n := range names {
						if n != "_" {
							fmt.Fprintf(&body, "\t{\n\t\tvar zero %s\n\t\t%s = zero\n\t}\n", pr(vs.Type), n)
						}
					}
				default:
					var vals []string
					for _, v := range vs.Values {
						vals = append(vals, pr(v))
					}
					fmt.Fprintf(&body, "\t%s = %s\n", strings.Join(names, ", "), strings.Join(vals, ", "))
				}
				fmt.Fprintf(&buf, "\nfunc %s() {\n%s}\n", fn, body.String())
				for _, n := range vs.Names {
					if obj, ok := p.TypesInfo.Defs[n].(*types.Var); ok {
						reinitOf[obj] = fn
					}
				}
				reinits = append(reinits, fn)
			}
		}
		rel, _ := filepath.Rel(*repoDir, path)
		out := filepath.Join(*outDir, "instr", rel)
		os.MkdirAll(filepath.Dir(out), 0o755)
		if err := os.WriteFile(out, buf.Bytes(), 0o644); err != nil {
			fatal(2, "%v", err)
		}
		overlay[path] = out
		st.Files++
	}
	if len(p.CompiledGoFiles) == 0 {
		return
	}
	// generated support file: marks package-level mutexes, resets registries
	var b strings.Builder
	fmt.Fprintf(&b, "package %s\n\nimport _vrt %q\n\nfunc init() {\n", p.Name, rtPath)
	for _, m := range globMutex {
		fmt.Fprintf(&b, "\t_vrt.MarkGlobal(&%s, %q)\n", m, p.Name+"."+m)
		st.GlobalMutexes = append(st.GlobalMutexes, p.Name+"."+m)
	}
	for _, m := range globRW {
		fmt.Fprintf(&b, "\t_vrt.MarkGlobalRW(&%s, %q)\n", m, p.Name+"."+m)
		st.GlobalMutexes = append(st.GlobalMutexes, p.Name+"."+m)
	}
	fmt.Fprintf(&b, "\t_vrt.RegisterReset(VerifReset)\n}\n\n// VerifReset empties the class registries of this package (first-use scenarios).\nfunc VerifReset() {\n")
	for _, r := range registries {
		fmt.Fprintf(&b, "\tclear(%s)\n", r)
		st.Registries = append(st.Registries, p.Name+"."+r)
	}
	for _, r := range syncMaps {
		fmt.Fprintf(&b, "\t%s.Clear()\n", r)
		st.Registries = append(st.Registries, p.Name+"."+r)
	}
	fmt.Fprintf(&b, "}\n")
	// VerifResetAll: every package-level variable gets its initial value again - variables without an
	// initializer first, then the initializers in the package's initialization order
	fmt.Fprintf(&b, "\nfunc init() { _vrt.RegisterFullResetOf(%q, VerifResetAll) }\n\n// VerifResetAll puts the package-level state of this package back to what it is when the process starts.\nfunc VerifResetAll() {\n", p.Name)
	called := map[string]bool{}
	inOrder := map[string]bool{}
	for _, in := range p.TypesInfo.InitOrder {
		for _, v := range in.Lhs {
			if fn := reinitOf[v]; fn != "" {
				inOrder[fn] = true
			}
		}
	}
	for _, fn := range reinits {
		if !inOrder[fn] {
			fmt.Fprintf(&b, "\t%s()\n", fn)
			called[fn] = true
		}
	}
	for _, in := range p.TypesInfo.InitOrder {
		for _, v := range in.Lhs {
			if fn := reinitOf[v]; fn != "" && !called[fn] {
				fmt.Fprintf(&b, "\t%s()\n", fn)
				called[fn] = true
			}
		}
	}
	fmt.Fprintf(&b, "}\n")
	dir := filepath.Dir(p.CompiledGoFiles[0])
	rel, _ := filepath.Rel(*repoDir, dir)
	out := filepath.Join(*outDir, "instr", rel, "zz_verif_support.go")
	os.MkdirAll(filepath.Dir(out), 0o755)
	os.WriteFile(out, []byte(b.String()), 0o644)
	overlay[filepath.Join(dir, "zz_verif_support.go")] = out
}

func (c *ctx) checkDirectives() {
	for _, cg := range c.file.Comments {
		for _, cm := range cg.List {
			t := cm.Text
			if strings.HasPrefix(t, "//go:") || strings.HasPrefix(t, "// +build") {
				refuse(c.fset, cm.Pos(), "compiler directive "+strings.Fields(t)[0])
			}
		}
	}
}

func (c *ctx) site(pos token.Pos) string {
	p := c.fset.Position(pos)
	return fmt.Sprintf("%s:%d", filepath.Base(p.Filename), p.Line)
}

// findCaptured marks the local variables that a function literal uses from an enclosing function.
func (c *ctx) findCaptured() {
	c.captured = map[*types.Var]bool{}
	ast.Inspect(c.file, func(n ast.Node) bool {
		lit, ok := n.(*ast.FuncLit)
		if !ok {
			return true
		}
		ast.Inspect(lit.Body, func(m ast.Node) bool {
			id, ok := m.(*ast.Ident)
			if !ok {
				return true
			}
			v, ok := c.info.Uses[id].(*types.Var)
			if !ok || v.IsField() || v.Pkg() == nil || v.Parent() == v.Pkg().Scope() {
				return true
			}
			// declared outside the literal?
			if v.Pos() < lit.Pos() || v.Pos() > lit.End() {
				c.captured[v] = true
			}
			return true
		})
		return true
	})
}

func (c *ctx) rewriteFile() {
	f := c.file
	c.findCaptured()
	// imports
	for _, imp := range f.Imports {
		path, _ := strconv.Unquote(imp.Path.Value)
		switch path {
		case "sync":
			if imp.Name == nil {
				imp.Name = ast.NewIdent("sync")
			}
			imp.Path.Value = strconv.Quote(rtPath + "/vsync")
		case "crypto/rand":
			if imp.Name == nil {
				imp.Name = ast.NewIdent("rand")
			}
			imp.Path.Value = strconv.Quote(rtPath + "/vrand")
		case "sync/atomic":
			if imp.Name == nil {
				imp.Name = ast.NewIdent("atomic")
			}
			imp.Path.Value = strconv.Quote(rtPath + "/vatomic")
		case "time", "math/rand", "math/rand/v2", "os/signal", "unsafe", "C", "runtime", "context":
			refuse(c.fset, imp.Pos(), "import of "+path)
		}
	}
	// add our imports
	addImport(f, "_vrt", rtPath)
	addImport(f, "_vunsafe", "unsafe")
	for _, d := range f.Decls {
		fd, ok := d.(*ast.FuncDecl)
		if !ok || fd.Body == nil {
			continue
		}
		st.Funcs++
		c.funcBody(fd.Body)
	}
	// package-level var initialisers may contain func literals
	for _, d := range f.Decls {
		if gd, ok := d.(*ast.GenDecl); ok && gd.Tok == token.VAR {
			for _, s := range gd.Specs {
				for _, v := range s.(*ast.ValueSpec).Values {
					c.exprFuncLits(v)
				}
			}
		}
	}
	// keep the imports used
	f.Decls = append(f.Decls,
		&ast.GenDecl{Tok: token.VAR, Specs: []ast.Spec{&ast.ValueSpec{Names: []*ast.Ident{ast.NewIdent("_")}, Type: sel("_vunsafe", "Pointer")}}},
		&ast.GenDecl{Tok: token.VAR, Specs: []ast.Spec{&ast.ValueSpec{Names: []*ast.Ident{ast.NewIdent("_")}, Values: []ast.Expr{sel("_vrt", "Tick")}}}},
	)
}

func addImport(f *ast.File, name, path string) {
	spec := &ast.ImportSpec{Name: ast.NewIdent(name), Path: &ast.BasicLit{Kind: token.STRING, Value: strconv.Quote(path)}}
	for _, d := range f.Decls {
		if gd, ok := d.(*ast.GenDecl); ok && gd.Tok == token.IMPORT {
			gd.Specs = append(gd.Specs, spec)
			if !gd.Lparen.IsValid() {
				gd.Lparen = gd.Pos()
				gd.Rparen = gd.End()
			}
			f.Imports = append(f.Imports, spec)
			return
		}
	}
	gd := &ast.GenDecl{Tok: token.IMPORT, Specs: []ast.Spec{spec}}
	f.Decls = append([]ast.Decl{gd}, f.Decls...)
	f.Imports = append(f.Imports, spec)
}

func sel(x, s string) *ast.SelectorExpr {
	return &ast.SelectorExpr{X: ast.NewIdent(x), Sel: ast.NewIdent(s)}
}

func call(fun ast.Expr, args ...ast.Expr) *ast.CallExpr { return &ast.CallExpr{Fun: fun, Args: args} }

func strLit(s string) *ast.BasicLit {
	return &ast.BasicLit{Kind: token.STRING, Value: strconv.Quote(s)}
}

func tickStmt() ast.Stmt { st.Ticks++; return &ast.ExprStmt{X: call(sel("_vrt", "Tick"))} }

func (c *ctx) funcBody(b *ast.BlockStmt) {
	b.List = append([]ast.Stmt{tickStmt()}, c.stmts(b.List)...)
}

// ---- statements ----

func (c *ctx) stmts(list []ast.Stmt) []ast.Stmt {
	var out []ast.Stmt
	for _, s := range list {
		out = append(out, c.stmt(s)...)
	}
	return out
}

func (c *ctx) block(b *ast.BlockStmt) {
	if b != nil {
		b.List = c.stmts(b.List)
	}
}

// stmt returns the replacement of s: logging statements followed by the
// rewritten statement.
func (c *ctx) stmt(s ast.Stmt) []ast.Stmt {
	var pre []ast.Stmt
	lg := &logger{c: c}
	switch n := s.(type) {
	case nil:
		return nil
	case *ast.ExprStmt:
		lg.expr(n.X, false)
		n.X = c.expr(n.X)
	case *ast.SendStmt:
		lg.expr(n.Chan, false)
		lg.expr(n.Value, false)
		st.Sends++
		x := call(sel("_vrt", "Send"), c.chanArg(n.Chan), c.expr(n.Value), strLit(c.site(n.Pos())))
		pre = lg.emit(n.Pos())
		return append(pre, &ast.ExprStmt{X: x})
	case *ast.IncDecStmt:
		lg.expr(n.X, true)
		n.X = c.expr(n.X)
	case *ast.AssignStmt:
		for _, r := range n.Rhs {
			lg.expr(r, false)
		}
		for _, l := range n.Lhs {
			if id, ok := l.(*ast.Ident); ok {
				if id.Name == "_" {
					continue
				}
				if n.Tok == token.DEFINE && c.info.Defs[id] != nil {
					continue
				}
			}
			lg.expr(l, true)
		}
		// v, ok := <-ch
		if len(n.Lhs) == 2 && len(n.Rhs) == 1 {
			if u, ok := unparen(n.Rhs[0]).(*ast.UnaryExpr); ok && u.Op == token.ARROW {
				st.Recvs++
				n.Rhs[0] = call(sel("_vrt", "Recv2"), c.chanArg(u.X), strLit(c.site(u.Pos())))
				for i := range n.Lhs {
					n.Lhs[i] = c.expr(n.Lhs[i])
				}
				pre = lg.emit(n.Pos())
				return append(pre, n)
			}
		}
		for i := range n.Rhs {
			n.Rhs[i] = c.expr(n.Rhs[i])
		}
		for i := range n.Lhs {
			n.Lhs[i] = c.expr(n.Lhs[i])
		}
	case *ast.GoStmt:
		st.GoStmts++
		lg.expr(n.Call.Fun, false)
		for _, a := range n.Call.Args {
			lg.expr(a, false)
		}
		pre = lg.emit(n.Pos())
		return append(pre, c.goStmt(n)...)
	case *ast.DeferStmt:
		if _, isLit := n.Call.Fun.(*ast.FuncLit); !isLit {
			lg.expr(n.Call.Fun, false)
		}
		for _, a := range n.Call.Args {
			lg.expr(a, false)
		}
		n.Call = c.expr(n.Call).(*ast.CallExpr)
	case *ast.ReturnStmt:
		for i, r := range n.Results {
			lg.expr(r, false)
			n.Results[i] = c.expr(r)
		}
	case *ast.DeclStmt:
		if gd, ok := n.Decl.(*ast.GenDecl); ok && gd.Tok == token.VAR {
			for _, sp := range gd.Specs {
				vs := sp.(*ast.ValueSpec)
				// var v, ok = <-ch
				if len(vs.Names) == 2 && len(vs.Values) == 1 {
					if u, ok := unparen(vs.Values[0]).(*ast.UnaryExpr); ok && u.Op == token.ARROW {
						st.Recvs++
						lg.expr(u.X, false)
						vs.Values[0] = call(sel("_vrt", "Recv2"), c.chanArg(u.X), strLit(c.site(u.Pos())))
						continue
					}
				}
				for i, v := range vs.Values {
					lg.expr(v, false)
					vs.Values[i] = c.expr(v)
				}
			}
		}
	case *ast.BlockStmt:
		c.block(n)
	case *ast.LabeledStmt:
		inner := c.stmt(n.Stmt)
		// logging statements go before the label
		n.Stmt = inner[len(inner)-1]
		return append(inner[:len(inner)-1], n)
	case *ast.IfStmt:
		return c.ifStmt(n)
	case *ast.ForStmt:
		return c.forStmt(n)
	case *ast.RangeStmt:
		st.Loops++
		if t := c.info.TypeOf(n.X); t != nil {
			if _, isChan := t.Underlying().(*types.Chan); isChan {
				return c.rangeChan(n, lg)
			}
			if _, isFunc := t.Underlying().(*types.Signature); isFunc {
				refuse(c.fset, n.Pos(), "range over a function")
			}
		}
		lg.expr(n.X, false)
		if t := c.info.TypeOf(n.X); t != nil {
			if _, isMap := t.Underlying().(*types.Map); isMap {
				lg.mapAccess(n.X, false)
			}
		}
		if n.Tok == token.ASSIGN {
			if (n.Key != nil && lg.hasAccess(n.Key)) || (n.Value != nil && lg.hasAccess(n.Value)) {
				lg.opaque = true
			}
		}
		n.X = c.expr(n.X)
		c.block(n.Body)
		n.Body.List = append([]ast.Stmt{tickStmt()}, n.Body.List...)
	case *ast.SwitchStmt:
		if n.Init != nil {
			// keep scoping: { init; switch tag {...} } is equivalent
			init := n.Init
			n.Init = nil
			inner := c.stmt(n)
			return []ast.Stmt{&ast.BlockStmt{List: append(c.stmt(init), inner...)}}
		}
		if n.Tag != nil {
			lg.expr(n.Tag, false)
			n.Tag = c.expr(n.Tag)
		}
		for _, cc := range n.Body.List {
			cl := cc.(*ast.CaseClause)
			for i, e := range cl.List {
				if lg.hasAccess(e) {
					lg.opaque = true // conditionally evaluated: not logged
				}
				cl.List[i] = c.expr(e)
			}
			cl.Body = c.stmts(cl.Body)
		}
	case *ast.TypeSwitchStmt:
		if n.Init != nil {
			init := n.Init
			n.Init = nil
			inner := c.stmt(n)
			return []ast.Stmt{&ast.BlockStmt{List: append(c.stmt(init), inner...)}}
		}
		switch a := n.Assign.(type) {
		case *ast.ExprStmt:
			lg.expr(a.X, false)
			a.X = c.expr(a.X)
		case *ast.AssignStmt:
			lg.expr(a.Rhs[0], false)
			a.Rhs[0] = c.expr(a.Rhs[0])
		}
		for _, cc := range n.Body.List {
			cl := cc.(*ast.CaseClause)
			cl.Body = c.stmts(cl.Body)
		}
	case *ast.SelectStmt:
		return c.selectStmt(n)
	case *ast.BranchStmt, *ast.EmptyStmt:
	default:
		refuse(c.fset, s.Pos(), fmt.Sprintf("statement %T", s))
	}
	pre = lg.emit(s.Pos())
	return append(pre, s)
}

func (c *ctx) ifStmt(n *ast.IfStmt) []ast.Stmt {
	if n.Init != nil {
		init := n.Init
		n.Init = nil
		inner := c.ifStmt(n)
		return []ast.Stmt{&ast.BlockStmt{List: append(c.stmt(init), inner...)}}
	}
	lg := &logger{c: c}
	lg.expr(n.Cond, false)
	n.Cond = c.expr(n.Cond)
	c.block(n.Body)
	switch e := n.Else.(type) {
	case *ast.IfStmt:
		repl := c.ifStmt(e)
		if len(repl) == 1 {
			if is, ok := repl[0].(*ast.IfStmt); ok {
				n.Else = is
				break
			}
		}
		n.Else = &ast.BlockStmt{List: repl}
	case *ast.BlockStmt:
		c.block(e)
	}
	return append(lg.emit(n.Pos()), n)
}

func (c *ctx) forStmt(n *ast.ForStmt) []ast.Stmt {
	st.Loops++
	var pre []ast.Stmt
	if n.Init != nil {
		init := c.stmt(n.Init)
		pre = append(pre, init[:len(init)-1]...)
		n.Init = init[len(init)-1]
	}
	if n.Post != nil {
		lg := &logger{c: c}
		switch p := n.Post.(type) {
		case *ast.IncDecStmt:
			lg.expr(p.X, true)
		case *ast.AssignStmt:
			for _, l := range p.Lhs {
				lg.expr(l, true)
			}
			for _, r := range p.Rhs {
				lg.expr(r, false)
			}
		}
		if len(lg.recs) > 0 || lg.opaque {
			st.Opaque++
			st.OpaqueSites = append(st.OpaqueSites, c.site(n.Post.Pos())+" (for-post)")
			pre = append(pre, &ast.ExprStmt{X: call(sel("_vrt", "Opaque"), strLit(c.site(n.Post.Pos())))})
		}
	}
	var condPre []ast.Stmt
	if n.Cond != nil {
		lg := &logger{c: c}
		lg.expr(n.Cond, false)
		cond := c.expr(n.Cond)
		condPre = lg.emit(n.Cond.Pos())
		if len(condPre) > 0 {
			// for init; ; post { log; if !(cond) { break }; body }
			n.Cond = nil
			condPre = append(condPre, &ast.IfStmt{
				Cond: &ast.UnaryExpr{Op: token.NOT, X: &ast.ParenExpr{X: cond}},
				Body: &ast.BlockStmt{List: []ast.Stmt{&ast.BranchStmt{Tok: token.BREAK}}},
			})
		} else {
			n.Cond = cond
		}
	}
	c.block(n.Body)
	body := append([]ast.Stmt{tickStmt()}, condPre...)
	n.Body.List = append(body, n.Body.List...)
	if len(condPre) > 0 && hasUnlabeledBreakTargetConflict(n.Body) {
		// the inserted `break` sits directly in the for body: always correct
	}
	return append(pre, n)
}

func hasUnlabeledBreakTargetConflict(*ast.BlockStmt) bool { return false }

// selectStmt rewrites a select into a call of the scheduler helper followed by a switch on the clause taken.
func (c *ctx) selectStmt(n *ast.SelectStmt) []ast.Stmt {
	st.Selects++
	site := strLit(c.site(n.Pos()))
	var cases []ast.Expr
	var clauses []ast.Stmt
	hasDefault := false
	idx := 0
	for _, cl := range n.Body.List {
		cc := cl.(*ast.CommClause)
		body := c.stmts(cc.Body)
		if cc.Comm == nil {
			hasDefault = true
			clauses = append(clauses, &ast.CaseClause{List: nil, Body: body})
			continue
		}
		var pre []ast.Stmt
		switch cm := cc.Comm.(type) {
		case *ast.SendStmt:
			cases = append(cases, call(sel("_vrt", "SendCase"), c.chanArg(cm.Chan), c.expr(cm.Value)))
		case *ast.ExprStmt:
			u, ok := unparen(cm.X).(*ast.UnaryExpr)
			if !ok || u.Op != token.ARROW {
				refuse(c.fset, cm.Pos(), "select clause")
			}
			cases = append(cases, call(sel("_vrt", "RecvCase"), c.chanArg(u.X)))
		case *ast.AssignStmt:
			u, ok := unparen(cm.Rhs[0]).(*ast.UnaryExpr)
			if !ok || u.Op != token.ARROW || len(cm.Rhs) != 1 {
				refuse(c.fset, cm.Pos(), "select clause")
			}
			ch := c.chanArg(u.X)
			cases = append(cases, call(sel("_vrt", "RecvCase"), ch))
			lhs := append([]ast.Expr(nil), cm.Lhs...)
			if len(lhs) == 1 {
				lhs = append(lhs, ast.NewIdent("_"))
			}
			pre = append(pre, &ast.AssignStmt{Lhs: lhs, Tok: cm.Tok, Rhs: []ast.Expr{call(sel("_vrt", "SelRecv"), ast.NewIdent("_vsel"), ch)}})
			if cm.Tok == token.DEFINE {
				// keep the compiler quiet about clause variables the body does not use
				for _, l := range cm.Lhs {
					if id, ok := l.(*ast.Ident); ok && id.Name != "_" {
						pre = append(pre, &ast.AssignStmt{Lhs: []ast.Expr{ast.NewIdent("_")}, Tok: token.ASSIGN, Rhs: []ast.Expr{ast.NewIdent(id.Name)}})
					}
				}
			}
		default:
			refuse(c.fset, cc.Pos(), "select clause")
		}
		clauses = append(clauses, &ast.CaseClause{List: []ast.Expr{&ast.BasicLit{Kind: token.INT, Value: strconv.Itoa(idx)}}, Body: append(pre, body...)})
		idx++
	}
	selCall := call(sel("_vrt", "Select"), site, ast.NewIdent(strconv.FormatBool(hasDefault)),
		&ast.CompositeLit{Type: &ast.ArrayType{Elt: sel("_vrt", "SelCase")}, Elts: cases})
	assign := &ast.AssignStmt{Lhs: []ast.Expr{ast.NewIdent("_vsel")}, Tok: token.DEFINE, Rhs: []ast.Expr{selCall}}
	sw := &ast.SwitchStmt{Tag: &ast.SelectorExpr{X: ast.NewIdent("_vsel"), Sel: ast.NewIdent("Index")}, Body: &ast.BlockStmt{List: clauses}}
	return []ast.Stmt{&ast.BlockStmt{List: []ast.Stmt{assign, sw}}}
}

// rangeChan rewrites `for v := range ch { body }` into
//
//	_vchN := ch
//	for { v, _vokN := _vrt.Recv2(_vchN, site); if !_vokN { break }; body }
//
// (the loop stays the last statement so that a label keeps naming it).
func (c *ctx) rangeChan(n *ast.RangeStmt, lg *logger) []ast.Stmt {
	c.nrange++
	chName := fmt.Sprintf("_vch%d", c.nrange)
	okName := fmt.Sprintf("_vok%d", c.nrange)
	lg.expr(n.X, false)
	pre := lg.emit(n.Pos())
	// the helper is chosen by the operand's own type, the hoisted variable keeps that type
	var recvCh ast.Expr = ast.NewIdent(chName)
	if ct, ok := c.info.TypeOf(n.X).Underlying().(*types.Chan); ok && ct.Dir() == types.RecvOnly {
		recvCh = call(sel("_vrt", "FromRecv"), recvCh)
	}
	pre = append(pre, &ast.AssignStmt{Lhs: []ast.Expr{ast.NewIdent(chName)}, Tok: token.DEFINE, Rhs: []ast.Expr{c.expr(n.X)}})
	recv := call(sel("_vrt", "Recv2"), recvCh, strLit(c.site(n.Pos())))
	var key ast.Expr = ast.NewIdent("_")
	if n.Key != nil {
		key = n.Key
	}
	var head []ast.Stmt
	if n.Tok == token.ASSIGN {
		if lg2 := (&logger{c: c}); lg2.hasAccess(key) {
			st.Opaque++
			st.OpaqueSites = append(st.OpaqueSites, c.site(n.Pos())+" (range-assign)")
			head = append(head, &ast.ExprStmt{X: call(sel("_vrt", "Opaque"), strLit(c.site(n.Pos())))})
		}
		pre = append(pre, &ast.DeclStmt{Decl: &ast.GenDecl{Tok: token.VAR, Specs: []ast.Spec{&ast.ValueSpec{Names: []*ast.Ident{ast.NewIdent(okName)}, Type: ast.NewIdent("bool")}}}})
		head = append(head, &ast.AssignStmt{Lhs: []ast.Expr{c.expr(key), ast.NewIdent(okName)}, Tok: token.ASSIGN, Rhs: []ast.Expr{recv}})
	} else {
		head = append(head, &ast.AssignStmt{Lhs: []ast.Expr{key, ast.NewIdent(okName)}, Tok: token.DEFINE, Rhs: []ast.Expr{recv}})
	}
	head = append(head, &ast.IfStmt{
		Cond: &ast.UnaryExpr{Op: token.NOT, X: ast.NewIdent(okName)},
		Body: &ast.BlockStmt{List: []ast.Stmt{&ast.BranchStmt{Tok: token.BREAK}}},
	})
	if id, ok := key.(*ast.Ident); ok && id.Name != "_" && n.Tok == token.DEFINE {
		head = append(head, &ast.AssignStmt{Lhs: []ast.Expr{ast.NewIdent("_")}, Tok: token.ASSIGN, Rhs: []ast.Expr{ast.NewIdent(id.Name)}})
	}
	st.Recvs++
	c.block(n.Body)
	body := append([]ast.Stmt{tickStmt()}, head...)
	body = append(body, n.Body.List...)
	loop := &ast.ForStmt{Body: &ast.BlockStmt{List: body}}
	return append(pre, loop)
}

func (c *ctx) goStmt(n *ast.GoStmt) []ast.Stmt {
	callExpr := n.Call
	if lit, ok := callExpr.Fun.(*ast.FuncLit); ok && len(callExpr.Args) == 0 {
		c.funcLit(lit)
		return []ast.Stmt{&ast.ExprStmt{X: call(sel("_vrt", "Go"), lit)}}
	}
	// bind the function value's receiver and the arguments now, as `go` does
	var stmts []ast.Stmt
	var lhs, rhs []ast.Expr
	newArgs := make([]ast.Expr, len(callExpr.Args))
	for i, a := range callExpr.Args {
		name := ast.NewIdent(fmt.Sprintf("_vga%d", i))
		lhs = append(lhs, name)
		rhs = append(rhs, c.expr(a))
		newArgs[i] = ast.NewIdent(name.Name)
	}
	fun := c.expr(callExpr.Fun)
	if se, ok := fun.(*ast.SelectorExpr); ok {
		if _, isSel := c.info.Selections[se]; isSel {
			name := ast.NewIdent("_vgr")
			lhs = append(lhs, name)
			rhs = append(rhs, se.X)
			fun = &ast.SelectorExpr{X: ast.NewIdent("_vgr"), Sel: se.Sel}
		}
	}
	if len(lhs) > 0 {
		stmts = append(stmts, &ast.AssignStmt{Lhs: lhs, Tok: token.DEFINE, Rhs: rhs})
	}
	inner := &ast.CallExpr{Fun: fun, Args: newArgs, Ellipsis: callExpr.Ellipsis}
	lit := &ast.FuncLit{Type: &ast.FuncType{Params: &ast.FieldList{}}, Body: &ast.BlockStmt{List: []ast.Stmt{&ast.ExprStmt{X: inner}}}}
	stmts = append(stmts, &ast.ExprStmt{X: call(sel("_vrt", "Go"), lit)})
	return []ast.Stmt{&ast.BlockStmt{List: stmts}}
}

func (c *ctx) funcLit(lit *ast.FuncLit) {
	st.Funcs++
	c.funcBody(lit.Body)
}

func unparen(e ast.Expr) ast.Expr {
	for {
		p, ok := e.(*ast.ParenExpr)
		if !ok {
			return e
		}
		e = p.X
	}
}

// chanArg returns the instrumented channel operand of a send, receive or close.
// The runtime's operations take a bidirectional channel; a directional operand
// is handed over through a re-typing helper (same channel, same identity).
func (c *ctx) chanArg(ch ast.Expr) ast.Expr {
	t := c.info.TypeOf(ch)
	e := c.expr(ch)
	if t == nil {
		return e
	}
	if ct, ok := t.Underlying().(*types.Chan); ok {
		switch ct.Dir() {
		case types.RecvOnly:
			return call(sel("_vrt", "FromRecv"), e)
		case types.SendOnly:
			return call(sel("_vrt", "FromSend"), e)
		}
	}
	return e
}

// exprFuncLits instruments function literals nested in e.
func (c *ctx) exprFuncLits(e ast.Expr) {
	ast.Inspect(e, func(n ast.Node) bool {
		if lit, ok := n.(*ast.FuncLit); ok {
			c.funcLit(lit)
			return false
		}
		return true
	})
}

// expr rewrites channel receives, close() and function literals inside e.
func (c *ctx) expr(e ast.Expr) ast.Expr {
	switch n := e.(type) {
	case nil:
		return nil
	case *ast.FuncLit:
		c.funcLit(n)
		return n
	case *ast.UnaryExpr:
		if n.Op == token.ARROW {
			st.Recvs++
			return call(sel("_vrt", "Recv"), c.chanArg(n.X), strLit(c.site(n.Pos())))
		}
		n.X = c.expr(n.X)
	case *ast.CallExpr:
		if id, ok := n.Fun.(*ast.Ident); ok && id.Name == "close" {
			if _, isBuiltin := c.info.Uses[id].(*types.Builtin); isBuiltin {
				st.Closes++
				return call(sel("_vrt", "Close"), c.chanArg(n.Args[0]), strLit(c.site(n.Pos())))
			}
		}
		n.Fun = c.expr(n.Fun)
		for i := range n.Args {
			n.Args[i] = c.expr(n.Args[i])
		}
	case *ast.ParenExpr:
		n.X = c.expr(n.X)
	case *ast.BinaryExpr:
		n.X = c.expr(n.X)
		n.Y = c.expr(n.Y)
	case *ast.SelectorExpr:
		n.X = c.expr(n.X)
	case *ast.IndexExpr:
		n.X = c.expr(n.X)
		n.Index = c.expr(n.Index)
	case *ast.IndexListExpr:
		n.X = c.expr(n.X)
	case *ast.SliceExpr:
		n.X = c.expr(n.X)
		n.Low, n.High, n.Max = c.expr(n.Low), c.expr(n.High), c.expr(n.Max)
	case *ast.StarExpr:
		n.X = c.expr(n.X)
	case *ast.TypeAssertExpr:
		n.X = c.expr(n.X)
	case *ast.KeyValueExpr:
		n.Value = c.expr(n.Value)
	case *ast.CompositeLit:
		for i := range n.Elts {
			n.Elts[i] = c.expr(n.Elts[i])
		}
	}
	return e
}

// ---- access log ----

type rec struct {
	kind  string // "field", "global", "map", "deref"
	expr  ast.Expr
	write bool
}

type logger struct {
	c      *ctx
	recs   []rec
	opaque bool
}

func (l *logger) hasAccess(e ast.Expr) bool {
	t := &logger{c: l.c}
	t.expr(e, false)
	return len(t.recs) > 0 || t.opaque
}

func isSyncType(t types.Type) bool {
	s := t.String()
	return strings.HasPrefix(s, "sync.") || strings.HasPrefix(s, "*sync.") || strings.HasPrefix(s, "sync/atomic.") || strings.HasPrefix(s, "*sync/atomic.") || strings.HasPrefix(s, "atomic.")
}

var mutators = map[string]bool{
	"strings.Builder.WriteString": true, "strings.Builder.WriteByte": true, "strings.Builder.WriteRune": true,
	"strings.Builder.Write": true, "strings.Builder.Reset": true, "strings.Builder.Grow": true,
	"bytes.Buffer.WriteString": true, "bytes.Buffer.WriteByte": true, "bytes.Buffer.WriteRune": true,
	"bytes.Buffer.Write": true, "bytes.Buffer.Reset": true, "bytes.Buffer.Grow": true, "bytes.Buffer.Truncate": true,
}

func (l *logger) pure(e ast.Expr) bool {
	switch n := e.(type) {
	case *ast.Ident:
		return true
	case *ast.BasicLit:
		return true
	case *ast.ParenExpr:
		return l.pure(n.X)
	case *ast.StarExpr:
		return l.pure(n.X)
	case *ast.SelectorExpr:
		if s, ok := l.c.info.Selections[n]; ok {
			return s.Kind() == types.FieldVal && l.pure(n.X)
		}
		// qualified identifier
		_, isVar := l.c.info.Uses[n.Sel].(*types.Var)
		return isVar
	}
	return false
}

// pureIndex: an index expression that can be evaluated twice (identifiers, literals and arithmetic on them)
func (l *logger) pureIndex(e ast.Expr) bool {
	switch n := e.(type) {
	case *ast.Ident, *ast.BasicLit:
		return true
	case *ast.ParenExpr:
		return l.pureIndex(n.X)
	case *ast.BinaryExpr:
		switch n.Op {
		case token.ADD, token.SUB, token.MUL:
			return l.pureIndex(n.X) && l.pureIndex(n.Y)
		}
	case *ast.SelectorExpr:
		return l.pure(n)
	}
	return false
}

func (l *logger) mapAccess(m ast.Expr, write bool) {
	if *noLog {
		return
	}
	if l.pure(m) {
		l.recs = append(l.recs, rec{"map", m, write})
	} else {
		l.opaque = true
	}
}

// expr collects the accesses performed when e is evaluated (write: e is the
// target of an assignment).
func (l *logger) expr(e ast.Expr, write bool) {
	if *noLog || e == nil {
		return
	}
	info := l.c.info
	switch n := e.(type) {
	case *ast.Ident:
		if v, ok := info.Uses[n].(*types.Var); ok && !v.IsField() && v.Pkg() != nil && (v.Parent() == v.Pkg().Scope() || l.c.captured[v]) {
			if !isSyncType(v.Type()) {
				l.recs = append(l.recs, rec{"global", n, write})
			}
		}
	case *ast.ParenExpr:
		l.expr(n.X, write)
	case *ast.SelectorExpr:
		if s, ok := info.Selections[n]; ok {
			switch s.Kind() {
			case types.FieldVal:
				tv := info.Types[n]
				if !isSyncType(tv.Type) {
					if tv.Addressable() && l.pure(n.X) {
						l.recs = append(l.recs, rec{"field", n, write})
					} else {
						l.opaque = true
					}
				}
				l.base(n.X)
			default: // method value / method expression
				l.expr(n.X, false)
			}
			return
		}
		// qualified identifier pkg.Name
		if v, ok := info.Uses[n.Sel].(*types.Var); ok && !isSyncType(v.Type()) {
			l.recs = append(l.recs, rec{"global", n, write})
		}
	case *ast.IndexExpr:
		if tv, ok := info.Types[n.Index]; ok && tv.IsType() {
			l.expr(n.X, false)
			return
		}
		t := info.TypeOf(n.X)
		if t != nil {
			switch u := t.Underlying().(type) {
			case *types.Map:
				l.mapAccess(n.X, write)
			case *types.Slice:
				// element access (string elements are immutable and not addressable)
				if l.pure(n.X) && l.pureIndex(n.Index) {
					l.recs = append(l.recs, rec{"elem", n, write})
				}
				_ = u
			case *types.Pointer:
				if _, isArr := u.Elem().Underlying().(*types.Array); isArr && l.pure(n.X) && l.pureIndex(n.Index) {
					l.recs = append(l.recs, rec{"elem", n, write})
				}
			}
		}
		l.expr(n.X, false)
		l.expr(n.Index, false)
	case *ast.IndexListExpr:
		l.expr(n.X, false)
	case *ast.SliceExpr:
		l.expr(n.X, false)
		l.expr(n.Low, false)
		l.expr(n.High, false)
		l.expr(n.Max, false)
	case *ast.StarExpr:
		if tv, ok := info.Types[n]; ok && tv.IsType() {
			return
		}
		if l.pure(n.X) {
			if t := info.TypeOf(n.X); t != nil && !isSyncType(t) {
				l.recs = append(l.recs, rec{"deref", n.X, write})
			}
		} else {
			l.opaque = true
		}
		l.expr(n.X, false)
	case *ast.UnaryExpr:
		if n.Op == token.AND {
			// taking an address is not an access; evaluate the operand's bases
			switch x := unparen(n.X).(type) {
			case *ast.SelectorExpr:
				if s, ok := info.Selections[x]; ok && s.Kind() == types.FieldVal {
					l.base(x.X)
					return
				}
			case *ast.CompositeLit:
				l.expr(x, false)
				return
			case *ast.Ident:
				return
			}
		}
		l.expr(n.X, false)
	case *ast.BinaryExpr:
		l.expr(n.X, false)
		if n.Op == token.LAND || n.Op == token.LOR {
			if l.hasAccess(n.Y) {
				l.opaque = true // conditionally evaluated: not logged
			}
			return
		}
		l.expr(n.Y, false)
	case *ast.CallExpr:
		if tv, ok := info.Types[n.Fun]; ok && tv.IsType() {
			for _, a := range n.Args {
				l.expr(a, false)
			}
			return
		}
		if id, ok := unparen(n.Fun).(*ast.Ident); ok {
			if _, isB := info.Uses[id].(*types.Builtin); isB {
				switch id.Name {
				case "delete":
					l.mapAccess(n.Args[0], true)
				case "len":
					if t := info.TypeOf(n.Args[0]); t != nil {
						if _, isMap := t.Underlying().(*types.Map); isMap {
							l.mapAccess(n.Args[0], false)
						}
					}
				case "clear":
					if t := info.TypeOf(n.Args[0]); t != nil {
						if _, isMap := t.Underlying().(*types.Map); isMap {
							l.mapAccess(n.Args[0], true)
						}
					}
				case "new", "make":
					for _, a := range n.Args[1:] {
						l.expr(a, false)
					}
					return
				}
				for _, a := range n.Args {
					l.expr(a, false)
				}
				return
			}
		}
		// method call with a pointer receiver on an addressable struct-valued field
		if se, ok := unparen(n.Fun).(*ast.SelectorExpr); ok {
			if s, ok := info.Selections[se]; ok && s.Kind() == types.MethodVal {
				recvT := info.TypeOf(se.X)
				w := false
				if recvT != nil {
					if named, ok := recvT.(*types.Named); ok && named.Obj().Pkg() != nil {
						key := named.Obj().Pkg().Name() + "." + named.Obj().Name() + "." + se.Sel.Name
						w = mutators[key]
					}
				}
				l.expr(se.X, w)
			} else {
				l.expr(n.Fun, false)
			}
		} else {
			l.expr(n.Fun, false)
		}
		for _, a := range n.Args {
			l.expr(a, false)
		}
	case *ast.TypeAssertExpr:
		l.expr(n.X, false)
	case *ast.KeyValueExpr:
		l.expr(n.Value, false)
	case *ast.CompositeLit:
		isStruct := false
		if t := info.TypeOf(n); t != nil {
			u := t.Underlying()
			if p, ok := u.(*types.Pointer); ok {
				u = p.Elem().Underlying()
			}
			_, isStruct = u.(*types.Struct)
		}
		for _, el := range n.Elts {
			if kv, ok := el.(*ast.KeyValueExpr); ok {
				if !isStruct {
					l.expr(kv.Key, false)
				}
				l.expr(kv.Value, false)
			} else {
				l.expr(el, false)
			}
		}
	case *ast.FuncLit, *ast.BasicLit:
	}
}

// base logs the evaluation of the base X of a field selection X.f: a struct
// valued field is not itself read (only a part of it is), anything else is.
func (l *logger) base(x ast.Expr) {
	info := l.c.info
	if se, ok := unparen(x).(*ast.SelectorExpr); ok {
		if s, ok := info.Selections[se]; ok && s.Kind() == types.FieldVal {
			if _, isPtr := info.TypeOf(se).Underlying().(*types.Pointer); !isPtr {
				if _, isStruct := info.TypeOf(se).Underlying().(*types.Struct); isStruct {
					l.base(se.X)
					return
				}
			}
		}
	}
	l.expr(x, false)
}

func (l *logger) emit(pos token.Pos) []ast.Stmt {
	var out []ast.Stmt
	site := l.c.site(pos)
	if l.opaque {
		st.Opaque++
		st.OpaqueSites = append(st.OpaqueSites, site)
		out = append(out, &ast.ExprStmt{X: call(sel("_vrt", "Opaque"), strLit(site))})
	}
	seen := map[string]bool{}
	for _, r := range l.recs {
		var buf bytes.Buffer
		printer.Fprint(&buf, l.c.fset, r.expr)
		key := r.kind + "|" + buf.String() + "|" + strconv.FormatBool(r.write)
		if seen[key] {
			continue
		}
		seen[key] = true
		w := ast.NewIdent(strconv.FormatBool(r.write))
		label := strLit(site + " " + buf.String())
		switch r.kind {
		case "field":
			st.AccField++
			out = append(out, &ast.ExprStmt{X: call(sel("_vrt", "Acc"), call(sel("_vunsafe", "Pointer"), &ast.UnaryExpr{Op: token.AND, X: r.expr}), w, label)})
		case "elem":
			st.AccElem++
			out = append(out, &ast.ExprStmt{X: call(sel("_vrt", "AccElem"), r.expr.(*ast.IndexExpr).X, r.expr.(*ast.IndexExpr).Index, w, label)})
		case "global":
			st.AccGlobal++
			out = append(out, &ast.ExprStmt{X: call(sel("_vrt", "Acc"), call(sel("_vunsafe", "Pointer"), &ast.UnaryExpr{Op: token.AND, X: r.expr}), w, label)})
		case "deref":
			st.AccDeref++
			out = append(out, &ast.ExprStmt{X: call(sel("_vrt", "Acc"), call(sel("_vunsafe", "Pointer"), r.expr), w, label)})
		case "map":
			st.AccMap++
			out = append(out, &ast.ExprStmt{X: call(sel("_vrt", "AccMap"), r.expr, w, label)})
		}
	}
	return out
}
