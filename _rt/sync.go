package verifrt

import (
	"sync"
	"sync/atomic"
)

// Mutex replaces sync.Mutex in the instrumented repository.
type Mutex struct {
	real   sync.Mutex
	epoch  int64 // execution in which the model state below is valid (objects may outlive an execution)
	held   bool
	owner  int
	vc     [MaxThreads]uint32
	global bool
	name   string
}

// MarkGlobal declares m to be a package-level mutex (the instrumenter emits
// one call per package-level mutex in an init function).
func MarkGlobal(m *Mutex, name string) {
	m.global = true
	m.name = name
	globalMutexes = append(globalMutexes, m)
}

var globalMutexes []*Mutex

// resetGlobalMutexes clears the model state of the package-level mutexes: an
// execution that was cut (deadlock, sleep-set block) while one of them was held
// must not leak the held flag or its vector clock into the next execution.
func resetGlobalMutexes() {
	for _, m := range globalMutexes {
		m.held = false
		m.owner = 0
		m.vc = [MaxThreads]uint32{}
	}
	for _, m := range globalRWMutexes {
		m.writer, m.readers, m.waitingWriters = false, 0, 0
		m.vc, m.rvc = [MaxThreads]uint32{}, [MaxThreads]uint32{}
	}
}

// fresh resets the model state of a mutex that was last used in an earlier
// execution (e.g. a mutex inside a class object): an execution that was cut
// while it was held must not leak the held flag or its clock.
func (m *Mutex) fresh(s *sched) {
	if m.epoch != s.epoch {
		m.epoch = s.epoch
		m.held = false
		m.owner = 0
		m.vc = [MaxThreads]uint32{}
	}
}

func (m *Mutex) Lock() {
	s := S
	if s == nil || s.cur == nil {
		m.real.Lock()
		return
	}
	if s.aborting {
		return
	}
	m.fresh(s)
	t := s.cur
	if !(m.global && s.cfg.Elide && !m.held) {
		t.pend = pending{kind: opLock, obj: m, enabled: func() bool { return !m.held }}
		s.point(t)
	}
	if m.held {
		panic(MachineryError{"Lock granted on a held mutex"})
	}
	m.held = true
	m.owner = t.id
	if m.global {
		t.heldGlob++
	}
	joinVC(&t.vc, &m.vc)
	if !m.global {
		s.trace("Lock (instance mutex)")
	}
}

func (m *Mutex) TryLock() bool {
	s := S
	if s == nil || s.cur == nil {
		return m.real.TryLock()
	}
	if s.aborting {
		return true
	}
	m.fresh(s)
	t := s.cur
	t.pend = pending{kind: opYield, obj: m}
	s.point(t)
	if m.held {
		return false
	}
	m.held = true
	m.owner = t.id
	if m.global {
		t.heldGlob++
	}
	joinVC(&t.vc, &m.vc)
	return true
}

func (m *Mutex) Unlock() {
	s := S
	if s == nil || s.cur == nil {
		m.real.Unlock()
		return
	}
	if s.aborting {
		return
	}
	m.fresh(s)
	t := s.cur
	if !m.held {
		panic("sync: unlock of unlocked mutex")
	}
	if s.cfg.Sleep && !(m.global && s.cfg.Elide) {
		t.pend = pending{kind: opUnlock, obj: m}
		s.point(t)
	}
	m.held = false
	if m.global {
		t.heldGlob--
	}
	m.vc = t.vc
	t.vc[t.id]++
	if !m.global {
		s.trace("Unlock (instance mutex)")
	}
}

// RWMutex replaces sync.RWMutex.
type RWMutex struct {
	real           sync.RWMutex
	epoch          int64
	writer         bool
	readers        int
	waitingWriters int                // writers that have announced themselves: like sync.RWMutex, they block readers arriving later
	vc             [MaxThreads]uint32 // released by writers
	rvc            [MaxThreads]uint32 // released by readers
	global         bool
	name           string
}

// MarkGlobalRW is MarkGlobal for a package-level RWMutex.
func MarkGlobalRW(m *RWMutex, name string) {
	m.global = true
	m.name = name
	globalRWMutexes = append(globalRWMutexes, m)
}

var globalRWMutexes []*RWMutex

func (m *RWMutex) fresh(s *sched) {
	if m.epoch != s.epoch {
		m.epoch = s.epoch
		m.writer, m.readers, m.waitingWriters = false, 0, 0
		m.vc, m.rvc = [MaxThreads]uint32{}, [MaxThreads]uint32{}
	}
}

func (m *RWMutex) Lock() {
	s := S
	if s == nil || s.cur == nil {
		m.real.Lock()
		return
	}
	if s.aborting {
		return
	}
	m.fresh(s)
	t := s.cur
	if m.global && s.cfg.Elide && !m.writer && m.readers == 0 && m.waitingWriters == 0 {
		// a free package-level lock: no preemption is offered (see Mutex.Lock); a write under it switches the elision off
	} else {
		// phase 1: the writer announces itself (from now on new readers wait) ...
		t.pend = pending{kind: opYield, obj: m}
		s.point(t)
		m.waitingWriters++
		// ... phase 2: and waits for the readers and writers that hold the lock
		t.pend = pending{kind: opLock, obj: m, enabled: func() bool { return !m.writer && m.readers == 0 }}
		s.point(t)
		m.waitingWriters--
	}
	m.writer = true
	if m.global {
		t.heldGlob++
	}
	joinVC(&t.vc, &m.vc)
	joinVC(&t.vc, &m.rvc)
}

func (m *RWMutex) Unlock() {
	s := S
	if s == nil || s.cur == nil {
		m.real.Unlock()
		return
	}
	if s.aborting {
		return
	}
	m.fresh(s)
	t := s.cur
	if !m.writer {
		panic("sync: Unlock of unlocked RWMutex")
	}
	if s.cfg.Sleep && !(m.global && s.cfg.Elide) {
		t.pend = pending{kind: opUnlock, obj: m}
		s.point(t)
	}
	m.writer = false
	if m.global {
		t.heldGlob--
	}
	m.vc = t.vc
	t.vc[t.id]++
}

func (m *RWMutex) RLock() {
	s := S
	if s == nil || s.cur == nil {
		m.real.RLock()
		return
	}
	if s.aborting {
		return
	}
	m.fresh(s)
	t := s.cur
	if !(m.global && s.cfg.Elide && !m.writer && m.waitingWriters == 0) {
		t.pend = pending{kind: opRLock, obj: m, enabled: func() bool { return !m.writer && m.waitingWriters == 0 }}
		s.point(t)
	}
	m.readers++
	if m.global {
		t.heldGlob++
	}
	joinVC(&t.vc, &m.vc)
}

func (m *RWMutex) RUnlock() {
	s := S
	if s == nil || s.cur == nil {
		m.real.RUnlock()
		return
	}
	if s.aborting {
		return
	}
	m.fresh(s)
	t := s.cur
	if m.readers == 0 {
		panic("sync: RUnlock of unlocked RWMutex")
	}
	if s.cfg.Sleep && !(m.global && s.cfg.Elide) {
		t.pend = pending{kind: opUnlock, obj: m}
		s.point(t)
	}
	m.readers--
	if m.global {
		t.heldGlob--
	}
	joinVC(&m.rvc, &t.vc)
	t.vc[t.id]++
}

// RLocker is deliberately absent: the instrumenter refuses code that uses it.

// WaitGroup replaces sync.WaitGroup.
type WaitGroup struct {
	real sync.WaitGroup
	n    int64 // mirrors the real counter so that a group armed outside the scheduler can be used inside
	vc   [MaxThreads]uint32
}

func (w *WaitGroup) Add(delta int) {
	s := S
	if s == nil || s.cur == nil {
		atomic.AddInt64(&w.n, int64(delta))
		w.real.Add(delta)
		return
	}
	if s.aborting {
		return
	}
	t := s.cur
	if s.cfg.Sleep {
		t.pend = pending{kind: opWgAdd, obj: w}
		s.point(t)
	}
	w.n += int64(delta)
	if w.n < 0 {
		panic("sync: negative WaitGroup counter")
	}
	if delta < 0 {
		joinVC(&w.vc, &t.vc)
		t.vc[t.id]++
	}
	s.trace("wg.Add(%d) -> %d", delta, w.n)
}

func (w *WaitGroup) Done() { w.Add(-1) }

func (w *WaitGroup) Wait() {
	s := S
	if s == nil || s.cur == nil {
		w.real.Wait()
		return
	}
	if s.aborting {
		return
	}
	t := s.cur
	t.pend = pending{kind: opWait, obj: w, enabled: func() bool { return w.n == 0 }}
	s.point(t)
	joinVC(&t.vc, &w.vc)
	s.trace("wg.Wait returns")
}

// Once replaces sync.Once. "Done" is one fact in both modes (a Once completed
// by harness code outside the scheduler must not run again inside it); a Once
// inside an object that outlives an execution stays done, like the real one.
type Once struct {
	real sync.Once
	m    Mutex
	done atomic.Bool
}

func (o *Once) Do(f func()) {
	s := S
	if s == nil || s.cur == nil {
		o.real.Do(func() {
			if !o.done.Load() {
				defer o.done.Store(true)
				f()
			}
		})
		return
	}
	if s.aborting {
		return
	}
	o.m.Lock()
	defer o.m.Unlock()
	if !o.done.Load() {
		defer o.done.Store(true)
		f()
	}
}

func joinVC(dst, src *[MaxThreads]uint32) {
	for i := range dst {
		if src[i] > dst[i] {
			dst[i] = src[i]
		}
	}
}
