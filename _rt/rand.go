package verifrt

// RandHook, when set, answers every random-index request of the repository
// (crypto/rand.Int is redirected here). The argument is the exclusive upper
// bound.
var RandHook func(max int64) int64

var resetFuncs []func()

// RegisterReset is called from the generated support file of every
// instrumented package.
func RegisterReset(f func()) { resetFuncs = append(resetFuncs, f) }

// ResetRegistries empties all class registries of the repository (used by the
// first-use scenarios of C19).
func ResetRegistries() {
	for _, f := range resetFuncs {
		f()
	}
}

var fullResetFuncs []func()
var fullResetByPkg = map[string]func(){}

// RegisterFullResetOf is RegisterFullReset with the package's name, so that a
// harness can reset some packages only (re-evaluating initializers has a cost).
func RegisterFullResetOf(pkg string, f func()) {
	fullResetFuncs = append(fullResetFuncs, f)
	fullResetByPkg[pkg] = f
}

// ResetGlobalsOf puts the named instrumented packages back into their initial state.
func ResetGlobalsOf(pkgs ...string) {
	for _, p := range pkgs {
		if f := fullResetByPkg[p]; f != nil {
			f()
		}
	}
}

// RegisterFullReset is called from the generated support file of every
// instrumented package with a function that gives every package-level variable
// of that package its initial value again (initializers re-evaluated in the
// package's initialization order).
func RegisterFullReset(f func()) { fullResetFuncs = append(fullResetFuncs, f) }

// CanResetGlobals reports whether the instrumented packages can be put back
// into their initial state.
func CanResetGlobals() bool { return len(fullResetFuncs) > 0 }

// ResetAllGlobals puts every instrumented package back into the state it has
// when the process starts. The explorers call it before every execution of a
// program whose executions turned out not to be reproducible (package-level
// state - a pool, a cache, a registry - surviving from one execution into the
// next), so that every execution starts from the same state.
func ResetAllGlobals() {
	for _, f := range fullResetFuncs {
		f()
	}
}
