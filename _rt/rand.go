package verifrt

// RandHook, when set, answers every random-index request of the repository
// (crypto/rand.Int is redirected here). The argument is the exclusive upper
// bound.
var RandHook func(max int64) int64

var resetFuncs []func()

// RegisterReset is called from the generated support file of every
// instrumented package.
func RegisterReset(f func()) { resetFuncs = append(resetFuncs, f) }

// ResetRegistries empties all class registries of the repository (used by the
// first-use scenarios of C19).
func ResetRegistries() {
	for _, f := range resetFuncs {
		f()
	}
}
