package verifrt

import "unsafe"

// AtomicPoint is called by the vatomic shim before every atomic operation on
// the word at p: a scheduling point (atomics order other threads' operations),
// a sequentially consistent synchronisation object for the race detector and a
// dependence object for the partial-order reduction.
func AtomicPoint(p unsafe.Pointer) {
	s := S
	if s == nil || s.cur == nil || s.aborting {
		return
	}
	t := s.cur
	st := s.atomics[p]
	if st == nil {
		st = &atomicState{}
		if s.atomics == nil {
			s.atomics = map[unsafe.Pointer]*atomicState{}
		}
		s.atomics[p] = st
	}
	t.pend = pending{kind: opAtomic, obj: st}
	s.point(t)
	// every atomic operation both acquires and releases the word's clock
	joinVC(&t.vc, &st.vc)
	st.vc = t.vc
	t.vc[t.id]++
}

type atomicState struct {
	vc [MaxThreads]uint32
}
