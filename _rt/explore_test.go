package verifrt

import (
	"fmt"
	"sort"
	"testing"
)

// counts complete executions and distinct outcomes under both reductions and without any
func runAll(t *testing.T, name string, mk func() ([]ThreadSpec, func() string)) {
	outcomes := func(opts ExploreOpts) (map[string]int, ExploreStats) {
		res := map[string]int{}
		prog := func() ([]ThreadSpec, func(*Exec) []string) {
			th, obs := mk()
			return th, func(ex *Exec) []string {
				o := obs()
				if ex.Deadlock {
					o += " DEADLOCK"
				}
				res[o]++
				return nil
			}
		}
		st := Explore(prog, opts)
		return res, st
	}
	full, s0 := outcomes(ExploreOpts{Bound: -1})
	sl, s1 := outcomes(ExploreOpts{Bound: -1, Sleep: true})
	dp, s2 := outcomes(ExploreOpts{Bound: -1, Sleep: true, DPOR: true})
	keys := func(m map[string]int) []string {
		var k []string
		for x := range m {
			k = append(k, x)
		}
		sort.Strings(k)
		return k
	}
	t.Logf("%s: full %d execs %d outcomes | sleep %d execs (%d blocked) %d outcomes | dpor %d execs (%d blocked) %d outcomes", name,
		s0.Executions, len(full), s1.Executions, s1.SleepBlocked, len(sl), s2.Executions, s2.SleepBlocked, len(dp))
	if fmt.Sprint(keys(full)) != fmt.Sprint(keys(sl)) {
		t.Errorf("%s: sleep sets lose outcomes: %v vs %v", name, keys(sl), keys(full))
	}
	if fmt.Sprint(keys(full)) != fmt.Sprint(keys(dp)) {
		t.Errorf("%s: DPOR loses outcomes: %v vs %v", name, keys(dp), keys(full))
	}
	if s1.Executions-s1.SleepBlocked != s2.Executions-s2.SleepBlocked {
		t.Logf("%s: NOTE complete executions differ: sleep %d dpor %d", name, s1.Executions-s1.SleepBlocked, s2.Executions-s2.SleepBlocked)
	}
}

func TestReductions(t *testing.T) {
	// two threads appending under one mutex
	runAll(t, "mutex-2", func() ([]ThreadSpec, func() string) {
		var m Mutex
		var log []int
		th := func(id int) ThreadSpec {
			return ThreadSpec{Name: fmt.Sprint(id), Body: func() {
				m.Lock()
				log = append(log, id)
				m.Unlock()
				m.Lock()
				log = append(log, id+10)
				m.Unlock()
			}}
		}
		return []ThreadSpec{th(1), th(2)}, func() string { return fmt.Sprint(log) }
	})
	// three threads, two mutexes
	runAll(t, "mutex-3x2", func() ([]ThreadSpec, func() string) {
		var m1, m2 Mutex
		var a, b []int
		return []ThreadSpec{
			{Name: "A", Body: func() {
				m1.Lock()
				a = append(a, 1)
				m1.Unlock()
				m2.Lock()
				b = append(b, 1)
				m2.Unlock()
			}},
			{Name: "B", Body: func() {
				m2.Lock()
				b = append(b, 2)
				m2.Unlock()
				m1.Lock()
				a = append(a, 2)
				m1.Unlock()
			}},
			{Name: "C", Body: func() { m1.Lock(); a = append(a, 3); m1.Unlock() }},
		}, func() string { return fmt.Sprint(a, b) }
	})
	// channel producer/consumers
	runAll(t, "chan", func() ([]ThreadSpec, func() string) {
		ch := make(chan int, 1)
		var got [2][]int
		cons := func(k int) ThreadSpec {
			return ThreadSpec{Name: fmt.Sprint("C", k), Body: func() {
				v, ok := Recv2(ch, "t")
				if ok {
					got[k] = append(got[k], v)
				}
			}}
		}
		return []ThreadSpec{
			{Name: "P", Body: func() { Send(ch, 1, "t"); Send(ch, 2, "t"); Close(ch, "t") }},
			cons(0), cons(1),
			{Name: "Q", Body: func() { Send(ch, 3, "t") }},
		}, func() string { return fmt.Sprint(got) }
	})
	// deadlock-prone lock order
	runAll(t, "lock-order", func() ([]ThreadSpec, func() string) {
		var m1, m2 Mutex
		n := 0
		return []ThreadSpec{
			{Name: "A", Body: func() { m1.Lock(); m2.Lock(); n++; m2.Unlock(); m1.Unlock() }},
			{Name: "B", Body: func() { m2.Lock(); m1.Lock(); n += 10; m1.Unlock(); m2.Unlock() }},
		}, func() string { return fmt.Sprint(n) }
	})
	// wait group + spawned thread
	runAll(t, "wg-spawn", func() ([]ThreadSpec, func() string) {
		var wg WaitGroup
		var m Mutex
		var log []string
		return []ThreadSpec{
			{Name: "main", Body: func() {
				wg.Add(1)
				Go(func() { defer wg.Done(); m.Lock(); log = append(log, "child"); m.Unlock() })
				m.Lock()
				log = append(log, "main")
				m.Unlock()
				wg.Wait()
				m.Lock()
				log = append(log, "joined")
				m.Unlock()
			}},
			{Name: "other", Body: func() { m.Lock(); log = append(log, "other"); m.Unlock() }},
		}, func() string { return fmt.Sprint(log) }
	})
}
