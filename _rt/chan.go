package verifrt

import (
	"unsafe"
)

type chanState struct {
	key      uintptr
	keep     any // keeps the channel alive so that its address is not reused
	length   func() int
	capacity int
	closed   bool
	sendVCs  [][MaxThreads]uint32 // one per buffered message, FIFO
	recvVCs  [][MaxThreads]uint32 // clock of the k-th completed receive
	sends    int
	closeVC  [MaxThreads]uint32
	// unbuffered channels are modelled as a rendezvous (the real channel is not used): a send is enabled when a
	// receiver waits; it hands the value over and the receiver becomes enabled
	waiting   int // receivers parked on this channel
	handoff   []any
	handoffVC [][MaxThreads]uint32
	// a sender parked on an unbuffered channel also leaves an offer that a select statement with a receive
	// clause on this channel may take (the select does not count as a parked receiver: it may go another way)
	offers     []*chanOffer
	selRecvers int // select statements currently parked with a receive clause on this channel
}

type chanOffer struct {
	v     any
	vc    [MaxThreads]uint32 // the sender's clock when it offered
	rvc   [MaxThreads]uint32 // the taker's clock when it took the value
	taken bool
}

func chanKey[T any](ch chan T) uintptr {
	return uintptr(*(*unsafe.Pointer)(unsafe.Pointer(&ch)))
}

func stateOf[T any](s *sched, ch chan T) *chanState {
	k := chanKey(ch)
	if k == 0 {
		return &chanState{length: func() int { return 0 }} // nil channel: never enabled
	}
	st := s.chans[k]
	if st == nil {
		st = &chanState{key: k, keep: ch, length: func() int { return len(ch) }, capacity: cap(ch)}
		s.chans[k] = st
	}
	return st
}

// Send is what the instrumenter substitutes for `ch <- v`.
func Send[T any](ch chan T, v T, site string) {
	s := S
	if s == nil || s.cur == nil {
		ch <- v
		return
	}
	if s.aborting {
		return
	}
	t := s.cur
	st := stateOf(s, ch)
	if st.key != 0 && st.capacity == 0 {
		off := &chanOffer{v: v, vc: t.vc}
		st.offers = append(st.offers, off)
		t.pend = pending{kind: opSend, obj: st, site: site, enabled: func() bool { return st.closed || off.taken || st.waiting > len(st.handoff) }}
		s.point(t)
		s.trace("send (rendezvous) %s", site)
		raceSend(st, site)
		for i, o := range st.offers {
			if o == off {
				st.offers = append(st.offers[:i:i], st.offers[i+1:]...)
				break
			}
		}
		if off.taken {
			// a select statement received the value
			joinVC(&t.vc, &off.rvc)
			t.vc[t.id]++
			return
		}
		if st.closed {
			panic(plainRuntimeError("send on closed channel"))
		}
		st.handoff = append(st.handoff, v)
		st.handoffVC = append(st.handoffVC, t.vc)
		t.vc[t.id]++
		return
	}
	t.pend = pending{kind: opSend, obj: st, site: site, enabled: func() bool {
		return st.key != 0 && (st.closed || st.length() < st.capacity)
	}}
	s.point(t)
	s.trace("send %s", site)
	raceSend(st, site)
	if !st.closed {
		// k-th receive happens before the (k+cap)-th send
		if i := st.sends - st.capacity; i >= 0 && i < len(st.recvVCs) {
			joinVC(&t.vc, &st.recvVCs[i])
		}
		st.sends++
		st.sendVCs = append(st.sendVCs, t.vc)
		t.vc[t.id]++
	}
	ch <- v // panics exactly like the real thing when the channel is closed
}

// Recv is what the instrumenter substitutes for `<-ch` (value only).
func Recv[T any](ch chan T, site string) T {
	v, _ := Recv2(ch, site)
	return v
}

// Recv2 is what the instrumenter substitutes for `v, ok := <-ch`.
func Recv2[T any](ch chan T, site string) (T, bool) {
	s := S
	if s == nil || s.cur == nil {
		v, ok := <-ch
		return v, ok
	}
	if s.aborting {
		var zero T
		return zero, false
	}
	t := s.cur
	st := stateOf(s, ch)
	if st.key != 0 && st.capacity == 0 {
		st.waiting++
		t.pend = pending{kind: opRecv, obj: st, site: site, enabled: func() bool { return len(st.handoff) > 0 || st.closed }}
		s.point(t)
		st.waiting--
		s.trace("recv (rendezvous) %s", site)
		if len(st.handoff) > 0 {
			v := st.handoff[0].(T)
			joinVC(&t.vc, &st.handoffVC[0])
			st.handoff, st.handoffVC = st.handoff[1:], st.handoffVC[1:]
			t.vc[t.id]++
			return v, true
		}
		joinVC(&t.vc, &st.closeVC)
		var zero T
		return zero, false
	}
	t.pend = pending{kind: opRecv, obj: st, site: site, enabled: func() bool {
		return st.key != 0 && (st.closed || st.length() > 0)
	}}
	s.point(t)
	s.trace("recv %s", site)
	v, ok := <-ch
	if ok {
		if len(st.sendVCs) > 0 {
			joinVC(&t.vc, &st.sendVCs[0])
			st.sendVCs = st.sendVCs[1:]
		}
		st.recvVCs = append(st.recvVCs, t.vc)
		t.vc[t.id]++
	} else {
		joinVC(&t.vc, &st.closeVC)
	}
	return v, ok
}

// Close is what the instrumenter substitutes for close(ch).
func Close[T any](ch chan T, site string) {
	s := S
	if s == nil || s.cur == nil {
		close(ch)
		return
	}
	if s.aborting {
		return
	}
	t := s.cur
	st := stateOf(s, ch)
	t.pend = pending{kind: opClose, obj: st, site: site}
	s.point(t)
	s.trace("close %s", site)
	raceClose(st, site)
	close(ch) // panics like the real thing on a double close
	st.closed = true
	st.closeVC = t.vc
	t.vc[t.id]++
}

// Len and Cap need no interception (they do not block); they are left alone.

type plainRuntimeError string

func (e plainRuntimeError) Error() string { return string(e) }
func (e plainRuntimeError) RuntimeError() {}

// FromRecv and FromSend re-type a directional channel as the bidirectional
// channel it is (a channel value is one pointer whatever its direction), so that
// the operations above, which key their model state by that pointer, apply.
func FromRecv[T any](ch <-chan T) chan T { return *(*chan T)(unsafe.Pointer(&ch)) }

func FromSend[T any](ch chan<- T) chan T { return *(*chan T)(unsafe.Pointer(&ch)) }

// Go's race detector treats a send as a read and a close as a write of the
// channel (runtime/chan.go: racereadpc in chansend, racewritepc in closechan):
// a close that is not ordered with a send is reported as a data race - it is
// the window in which the send panics. The explored executions report the same.
func raceSend(st *chanState, site string) {
	if st.key != 0 {
		Acc(unsafe.Pointer(st.key), false, site+" (channel send)")
	}
}

func raceClose(st *chanState, site string) {
	if st.key != 0 {
		Acc(unsafe.Pointer(st.key), true, site+" (channel close)")
	}
}
