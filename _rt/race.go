package verifrt

import (
	"fmt"
	"unsafe"
)

type uintptrKey = unsafe.Pointer

type shadowCell struct {
	wTid  int
	wClk  uint32
	wSite string
	rClk  [MaxThreads]uint32
	rSite [MaxThreads]string
	hasW  bool
}

// Race is one pair of conflicting accesses not ordered by happens-before.
type Race struct {
	First, Second string // "W site" / "R site"
	Threads       [2]int
}

func (r Race) String() string {
	return fmt.Sprintf("%s (t%d) <-> %s (t%d)", r.First, r.Threads[0], r.Second, r.Threads[1])
}

func sprint(v any) string { return fmt.Sprint(v) }

// Acc is inserted by the instrumenter before statements that read or write
// shared-capable memory (struct fields, package-level variables). Storing p in
// the shadow map makes the accessed variable escape to the heap and keeps it
// alive, so an address is never reused within one execution.
func Acc(p unsafe.Pointer, write bool, site string) {
	s := S
	if s == nil || s.cur == nil || s.aborting {
		return
	}
	t := s.cur
	if write && t.heldGlob > 0 {
		s.elisionBroken = true
	}
	if s.shadow == nil || p == nil {
		return
	}
	c := s.shadow[p]
	if c == nil {
		c = &shadowCell{}
		s.shadow[p] = c
	}
	me := t.id
	clk := t.vc[me]
	if c.hasW && c.wTid != me && c.wClk > t.vc[c.wTid] {
		kind := "R "
		if write {
			kind = "W "
		}
		s.report(Race{First: "W " + c.wSite, Second: kind + site, Threads: [2]int{c.wTid, me}})
	}
	if write {
		for u := 0; u < len(s.threads); u++ {
			if u != me && c.rClk[u] > t.vc[u] {
				s.report(Race{First: "R " + c.rSite[u], Second: "W " + site, Threads: [2]int{u, me}})
			}
		}
		c.hasW, c.wTid, c.wClk, c.wSite = true, me, clk, site
		c.rClk = [MaxThreads]uint32{}
	} else {
		c.rClk[me] = clk
		c.rSite[me] = site
	}
}

// AccMap logs an access to a Go map at whole-map granularity.
func AccMap[K comparable, V any](m map[K]V, write bool, site string) {
	s := S
	if s == nil || s.cur == nil || s.aborting {
		return
	}
	Acc(*(*unsafe.Pointer)(unsafe.Pointer(&m)), write, site)
}

// Opaque marks a statement whose accesses the instrumenter could not log.
func Opaque(site string) {
	s := S
	if s == nil || s.cur == nil || s.aborting {
		return
	}
	if s.cur.heldGlob > 0 {
		s.elisionBroken = true
	}
}

func (s *sched) report(r Race) {
	k := r.First + "|" + r.Second
	if s.raceSeen[k] {
		return
	}
	s.raceSeen[k] = true
	s.races = append(s.races, r)
}

// AccElem logs an access to one element of a slice (or of an array behind a
// pointer). An index outside the slice is not logged: the statement itself
// will panic exactly as it would have.
func AccElem[S ~[]E, E any, I interface {
	~int | ~int8 | ~int16 | ~int32 | ~int64 | ~uint | ~uint8 | ~uint16 | ~uint32 | ~uint64
}](s S, i I, write bool, site string) {
	sch := schedOf()
	if sch == nil || sch.cur == nil || sch.aborting {
		return
	}
	k := int(i)
	if k < 0 || k >= len(s) {
		return
	}
	Acc(unsafe.Pointer(&s[k]), write, site)
}

func schedOf() *sched { return S }
