// Package vrand is what the instrumenter substitutes for import "crypto/rand".
package vrand

import (
	crand "crypto/rand"
	"io"
	"math/big"

	rt "github.com/craterdog/go-collection-framework/v4/verifrt"
)

var Reader io.Reader = crand.Reader

// Int answers from the harness when a hook is installed, else from crypto/rand.
func Int(r io.Reader, max *big.Int) (*big.Int, error) {
	if h := rt.RandHook; h != nil {
		return big.NewInt(h(max.Int64())), nil
	}
	return crand.Int(r, max)
}

func Read(b []byte) (int, error) { return crand.Read(b) }
