package verifrt

import (
	"time"
)

// Program builds, for every execution, fresh objects and the client threads
// operating on them, and returns a judge that is called with the finished
// execution. The judge returns violation descriptions (empty = fine).
type Program func() (threads []ThreadSpec, judge func(*Exec) []string)

// ExploreOpts bounds an exploration.
type ExploreOpts struct {
	Bound       int       // maximal number of preemptions (<0 = unbounded)
	MaxExecs    int       // stop after this many executions (0 = no cap)
	Deadline    time.Time // stop at this time (zero = none)
	Race        bool
	Elide       bool
	FuelTotal   int64
	OnExec      func(*Exec) // optional observer
	StopAtFirst bool
	// Sleep selects mode A: unbounded exploration with sleep-set partial-order
	// reduction (one complete execution per Mazurkiewicz trace; requires Bound < 0).
	Sleep bool
	// DPOR additionally restricts the alternatives explored at each node to a
	// dynamically computed persistent set (Flanagan & Godefroid 2005), which
	// removes most of the sleep-set-blocked prefixes. Implies Sleep.
	DPOR bool
	// ResetGlobals puts the instrumented packages back into their initial
	// state before every execution (set by Explore when executions of the
	// program turn out not to be reproducible).
	ResetGlobals bool
}

// Found is a violating execution.
type Found struct {
	Choices []int
	What    []string
	Exec    *Exec
}

// ExploreStats is what an exploration covered.
type ExploreStats struct {
	Executions   int
	Points       int // scheduling decisions with >1 enabled thread, summed
	MaxPoints    int // longest choice vector
	MaxThreads   int
	Deadlocks    int
	Complete     bool // the space (within Bound) was exhausted
	Bound        int
	ElisionOff   bool // elision had to be switched off
	Violations   []Found
	MaxPreempt   int
	SleepBlocked int    // executions cut by the sleep sets (redundant prefixes)
	Diverged     bool   // executions were not reproducible (global state survives between executions): the search was abandoned
	SelectSeen   bool   // mode A was abandoned because the program executes a select statement
	Unmodelled   string // an execution met something the runtime model does not cover: the search of this program was stopped
	GlobalsReset bool   // the exploration was redone with the package-level state reset before every execution
}

// Explore enumerates depth-first every schedule of prog whose number of
// preemptions does not exceed opts.Bound. Every execution runs to completion
// (or deadlock) on the real code.
func Explore(prog Program, opts ExploreOpts) ExploreStats {
	st := exploreElide(prog, opts)
	if st.Diverged && !opts.ResetGlobals && CanResetGlobals() && len(st.Violations) == 0 {
		// executions are not reproducible: package-level state survives from one
		// execution into the next. Redo everything from a reset state each time
		// (every execution then starts like the first use in a fresh process).
		opts.ResetGlobals = true
		st2 := exploreElide(prog, opts)
		st2.GlobalsReset = true
		st2.Executions += st.Executions
		st2.Points += st.Points
		ResetAllGlobals()
		return st2
	}
	return st
}

func exploreElide(prog Program, opts ExploreOpts) ExploreStats {
	st := exploreOnce(prog, opts)
	if st.ElisionOff && opts.Elide {
		// a package-level critical section wrote something: the elision is
		// not justified for this program; redo everything with all points.
		opts.Elide = false
		st = exploreOnce(prog, opts)
		st.ElisionOff = true
	}
	return st
}

func exploreOnce(prog Program, opts ExploreOpts) ExploreStats {
	if opts.DPOR {
		if opts.Bound >= 0 {
			panic(MachineryError{"DPOR must not be combined with a preemption bound"})
		}
		return exploreDPOR(prog, opts)
	}
	if opts.Sleep {
		if opts.Bound >= 0 {
			panic(MachineryError{"sleep sets must not be combined with a preemption bound"})
		}
		return exploreSleep(prog, opts)
	}
	stats := ExploreStats{Bound: opts.Bound, Complete: true}
	cfg := Config{Elide: opts.Elide, Race: opts.Race, FuelTotal: opts.FuelTotal}
	type item struct {
		prefix []int
		want   []uint64 // what the parent execution saw at the choice points of the prefix (enabled sets)
	}
	stack := []item{{nil, nil}}
	for len(stack) > 0 {
		if opts.MaxExecs > 0 && stats.Executions >= opts.MaxExecs {
			stats.Complete = false
			break
		}
		if !opts.Deadline.IsZero() && stats.Executions%64 == 0 && time.Now().After(opts.Deadline) {
			stats.Complete = false
			break
		}
		it := stack[len(stack)-1]
		stack = stack[:len(stack)-1]
		if opts.ResetGlobals {
			ResetAllGlobals()
		}
		threads, judge := prog()
		ex := RunOnce(cfg, it.prefix, threads)
		sigs := make([]uint64, len(ex.Points))
		for k := range ex.Points {
			sigs[k] = pointSig(ex.Points[k])
		}
		// replaying a prefix must meet the same choice points as the execution it was derived from
		for k := 0; k < len(it.want) && !ex.Diverged; k++ {
			if k >= len(sigs) || sigs[k] != it.want[k] {
				ex.Diverged = true
			}
		}
		if ex.Unmodelled != "" {
			stats.Unmodelled, stats.Complete = ex.Unmodelled, false
			return stats
		}
		if ex.Diverged {
			stats.Diverged = true
			stats.Complete = false
		}
		stats.Executions++
		stats.Points += len(ex.Points)
		if len(ex.Points) > stats.MaxPoints {
			stats.MaxPoints = len(ex.Points)
		}
		if ex.Threads > stats.MaxThreads {
			stats.MaxThreads = ex.Threads
		}
		if ex.Deadlock {
			stats.Deadlocks++
		}
		if p := ex.PreemptionsOf(); p > stats.MaxPreempt {
			stats.MaxPreempt = p
		}
		if ex.ElisionBroken && opts.Elide {
			stats.ElisionOff = true
			stats.Complete = false
			return stats
		}
		if opts.OnExec != nil {
			opts.OnExec(ex)
		}
		if what := judge(ex); len(what) > 0 {
			stats.Violations = append(stats.Violations, Found{Choices: append([]int(nil), ex.Choices...), What: what, Exec: ex})
			if opts.StopAtFirst {
				stats.Complete = false
				return stats
			}
		}
		// children: deviate at every point at or after the prefix
		pre := 0
		for i := 0; i < len(it.prefix) && i < len(ex.Points); i++ {
			if ex.Points[i].CurEnabled && ex.Points[i].Chosen != 0 {
				pre++
			}
		}
		// push in reverse so that the shallowest deviation is explored last
		// (depth-first order is irrelevant for coverage)
		cost := pre
		type child struct {
			prefix []int
			want   []uint64
		}
		var kids []child
		for i := len(it.prefix); i < len(ex.Points); i++ {
			p := ex.Points[i]
			c := cost
			if p.CurEnabled {
				c++
			}
			if opts.Bound < 0 || c <= opts.Bound {
				for alt := 1; alt < len(p.Enabled); alt++ {
					np := make([]int, i+1)
					copy(np, ex.Choices[:i])
					np[i] = alt
					kids = append(kids, child{np, sigs[:i+1]})
				}
			}
			// choices after the prefix are all 0 => no preemption added to cost
		}
		for k := len(kids) - 1; k >= 0; k-- {
			stack = append(stack, item{kids[k].prefix, kids[k].want})
		}
	}
	return stats
}

// Replay runs one recorded schedule.
func Replay(prog Program, choices []int, race, elide, trace bool) (*Exec, []string) {
	threads, judge := prog()
	ex := RunOnce(Config{Elide: elide, Race: race, Trace: trace}, choices, threads)
	if ex.Unmodelled != "" {
		return ex, nil
	}
	return ex, judge(ex)
}

// exploreSleep is mode A: depth-first over all schedules with sleep sets. Two
// transitions are independent when they operate on different synchronisation
// objects (sound for race-free programs; races are detected on every explored
// execution). Every synchronisation operation is a transition of its own.
func exploreSleep(prog Program, opts ExploreOpts) ExploreStats {
	stats := ExploreStats{Bound: -1, Complete: true}
	type item struct {
		prefix   []int
		installs map[int][]int
	}
	stack := []item{{nil, nil}}
	for len(stack) > 0 {
		if opts.MaxExecs > 0 && stats.Executions >= opts.MaxExecs {
			stats.Complete = false
			break
		}
		if !opts.Deadline.IsZero() && stats.Executions%64 == 0 && time.Now().After(opts.Deadline) {
			stats.Complete = false
			break
		}
		it := stack[len(stack)-1]
		stack = stack[:len(stack)-1]
		if opts.ResetGlobals {
			ResetAllGlobals()
		}
		threads, judge := prog()
		cfg := Config{Elide: opts.Elide, Race: opts.Race, FuelTotal: opts.FuelTotal, Sleep: true, Installs: it.installs}
		ex := RunOnce(cfg, it.prefix, threads)
		if ex.Unmodelled != "" {
			stats.Unmodelled, stats.Complete = ex.Unmodelled, false
			return stats
		}
		if ex.Diverged {
			stats.Diverged = true
			stats.Complete = false
		}
		stats.Executions++
		stats.Points += len(ex.Points)
		if len(ex.Points) > stats.MaxPoints {
			stats.MaxPoints = len(ex.Points)
		}
		if ex.Threads > stats.MaxThreads {
			stats.MaxThreads = ex.Threads
		}
		if ex.ElisionBroken && opts.Elide {
			stats.ElisionOff = true
			stats.Complete = false
			return stats
		}
		if ex.UsedSelect {
			// the clause choice of a select is not modelled by the reductions: give up mode A for this program
			stats.Complete = false
			stats.SelectSeen = true
			return stats
		}
		if ex.SleepBlocked {
			stats.SleepBlocked++
		} else {
			if ex.Deadlock {
				stats.Deadlocks++
			}
			if p := ex.PreemptionsOf(); p > stats.MaxPreempt {
				stats.MaxPreempt = p
			}
			if opts.OnExec != nil {
				opts.OnExec(ex)
			}
			if what := judge(ex); len(what) > 0 {
				stats.Violations = append(stats.Violations, Found{Choices: append([]int(nil), ex.Choices...), What: what, Exec: ex})
				if opts.StopAtFirst {
					stats.Complete = false
					return stats
				}
			}
		}
		// children: at every new node, every enabled thread that is neither the one taken nor asleep;
		// the k-th alternative sleeps the thread taken and the alternatives before it
		var kids []item
		for i := len(it.prefix); i < len(ex.Points); i++ {
			p := ex.Points[i]
			asleep := map[int]bool{}
			for _, u := range p.Sleep {
				asleep[u] = true
			}
			explored := []int{p.Enabled[p.Chosen]}
			for alt := 0; alt < len(p.Enabled); alt++ {
				u := p.Enabled[alt]
				if alt == p.Chosen || asleep[u] {
					continue
				}
				np := make([]int, i+1)
				copy(np, ex.Choices[:i])
				np[i] = alt
				inst := make(map[int][]int, len(it.installs)+1)
				for k, v := range it.installs {
					inst[k] = v
				}
				inst[i] = append(append([]int(nil), it.installs[i]...), explored...)
				kids = append(kids, item{np, inst})
				explored = append(explored, u)
			}
		}
		for k := len(kids) - 1; k >= 0; k-- {
			stack = append(stack, kids[k])
		}
	}
	return stats
}

// exploreDPOR is mode A with dynamic partial-order reduction: depth-first over
// the tree of choice points, exploring at each node only the threads in its
// backtrack set. After every execution, for every transition j the last
// earlier transition i on the same synchronisation object by another thread
// that does not happen-before j is a reversible race: the thread of j (or, if
// it was not enabled there, every enabled thread) is added to the backtrack
// set of the node at which i was chosen. Sleep sets are kept on top.
func exploreDPOR(prog Program, opts ExploreOpts) ExploreStats {
	stats := ExploreStats{Bound: -1, Complete: true}
	type node struct {
		enabled   []int
		sleep     map[int]bool // propagated sleep set at this node (without the siblings done here)
		backtrack map[int]bool
		done      []int // threads explored from this node, in order (the last one is the current choice)
	}
	var nodes []*node
	var prefix []int
	for {
		if opts.MaxExecs > 0 && stats.Executions >= opts.MaxExecs {
			stats.Complete = false
			break
		}
		if !opts.Deadline.IsZero() && stats.Executions%64 == 0 && time.Now().After(opts.Deadline) {
			stats.Complete = false
			break
		}
		installs := map[int][]int{}
		for k, n := range nodes {
			if len(n.done) > 1 {
				installs[k] = n.done[:len(n.done)-1]
			}
		}
		if opts.ResetGlobals {
			ResetAllGlobals()
		}
		threads, judge := prog()
		cfg := Config{Elide: opts.Elide, Race: opts.Race, FuelTotal: opts.FuelTotal, Sleep: true, Installs: installs}
		ex := RunOnce(cfg, prefix, threads)
		if ex.Unmodelled != "" {
			stats.Unmodelled, stats.Complete = ex.Unmodelled, false
			return stats
		}
		stats.Executions++
		stats.Points += len(ex.Points)
		if len(ex.Points) > stats.MaxPoints {
			stats.MaxPoints = len(ex.Points)
		}
		if ex.Threads > stats.MaxThreads {
			stats.MaxThreads = ex.Threads
		}
		if ex.ElisionBroken && opts.Elide {
			stats.ElisionOff = true
			stats.Complete = false
			return stats
		}
		if len(ex.Points) < len(nodes) || ex.Diverged {
			// not reproducible: judge this execution (it is a real one) and give up the systematic search
			if !ex.SleepBlocked {
				if what := judge(ex); len(what) > 0 {
					stats.Violations = append(stats.Violations, Found{Choices: append([]int(nil), ex.Choices...), What: what, Exec: ex})
				}
			}
			stats.Diverged = true
			stats.Complete = false
			return stats
		}
		// extend the path with the nodes discovered by this run
		for k := len(nodes); k < len(ex.Points); k++ {
			p := ex.Points[k]
			t := p.Enabled[p.Chosen]
			n := &node{enabled: p.Enabled, sleep: map[int]bool{}, backtrack: map[int]bool{t: true}, done: []int{t}}
			for _, u := range p.Sleep {
				n.sleep[u] = true
			}
			nodes = append(nodes, n)
		}
		// the propagated sleep set of the deviation node was recorded with the installed siblings; keep the union
		if ex.UsedSelect {
			// the clause choice of a select is not modelled by the reductions: give up mode A for this program
			stats.Complete = false
			stats.SelectSeen = true
			return stats
		}
		if ex.SleepBlocked {
			stats.SleepBlocked++
		} else {
			if ex.Deadlock {
				stats.Deadlocks++
			}
			if p := ex.PreemptionsOf(); p > stats.MaxPreempt {
				stats.MaxPreempt = p
			}
			if opts.OnExec != nil {
				opts.OnExec(ex)
			}
			if what := judge(ex); len(what) > 0 {
				stats.Violations = append(stats.Violations, Found{Choices: append([]int(nil), ex.Choices...), What: what, Exec: ex})
				if opts.StopAtFirst {
					stats.Complete = false
					return stats
				}
			}
		}
		// race analysis
		type vc = map[int]int
		ct := map[int]vc{}       // thread clocks
		co := map[any]vc{}       // object clocks
		onObj := map[any][]int{} // transitions on an object, in order
		tvc := make([]vc, len(ex.Trans))
		local := map[int]int{} // per-thread transition counter
		join := func(a, b vc) vc {
			out := vc{}
			for k, v := range a {
				out[k] = v
			}
			for k, v := range b {
				if v > out[k] {
					out[k] = v
				}
			}
			return out
		}
		// races adds, for an operation of thread q on obj whose thread clock is cq, a backtrack point before
		// every earlier operation on obj by another thread that does not happen-before it (all operations on one
		// object are mutually dependent, so they form a chain: stop at the first one that happens-before q)
		races := func(q int, obj any, cq vc) {
			list := onObj[obj]
			for x := len(list) - 1; x >= 0; x-- {
				i := list[x]
				ti := ex.Trans[i]
				if ti.Tid == q || tvc[i][ti.Tid] <= cq[ti.Tid] {
					break
				}
				if ti.Node < 0 || ti.Node >= len(nodes) {
					continue
				}
				n := nodes[ti.Node]
				isEnabled := false
				for _, u := range n.enabled {
					if u == q {
						isEnabled = true
					}
				}
				if isEnabled && !n.sleep[q] {
					n.backtrack[q] = true
				} else {
					// q cannot be started here (not enabled, or asleep: its first step from here is covered
					// elsewhere but the reversal may need another thread to run first): expand the node fully
					for _, u := range n.enabled {
						n.backtrack[u] = true
					}
				}
			}
		}
		for j, tr := range ex.Trans {
			q := tr.Tid
			cq := ct[q]
			if cq == nil {
				cq = vc{}
				if tr.Parent >= 0 && tr.Parent < len(tvc) && tvc[tr.Parent] != nil {
					cq = join(cq, tvc[tr.Parent])
				}
			}
			if tr.Obj != nil {
				races(q, tr.Obj, cq)
			}
			local[q]++
			nc := join(cq, nil)
			if tr.Obj != nil {
				nc = join(nc, co[tr.Obj])
			}
			nc[q] = local[q]
			tvc[j] = nc
			ct[q] = nc
			if tr.Obj != nil {
				co[tr.Obj] = nc
				onObj[tr.Obj] = append(onObj[tr.Obj], j)
			}
		}
		// operations still pending when the execution ended (blocked threads) race with what was executed
		for _, pd := range ex.Pending {
			if pd.Obj != nil {
				cq := ct[pd.Tid]
				if cq == nil {
					cq = vc{}
				}
				races(pd.Tid, pd.Obj, cq)
			}
		}
		if debugDPOR {
			for k, n := range nodes {
				println("node", k, "enabled", fmtInts(n.enabled), "bt", fmtSet(n.backtrack), "sleep", fmtSet(n.sleep), "done", fmtInts(n.done))
			}
		}
		// next: the deepest node with a thread to explore that is neither done nor asleep
		found := false
		for k := len(nodes) - 1; k >= 0 && !found; k-- {
			n := nodes[k]
			for idx, u := range n.enabled {
				if !n.backtrack[u] || n.sleep[u] {
					continue
				}
				isDone := false
				for _, d := range n.done {
					if d == u {
						isDone = true
					}
				}
				if isDone {
					continue
				}
				n.done = append(n.done, u)
				nodes = nodes[:k+1]
				np := make([]int, k+1)
				copy(np, ex.Choices[:k])
				if k < len(prefix) {
					copy(np, prefix[:k])
				}
				np[k] = idx
				prefix = np
				found = true
				break
			}
		}
		if !found {
			break
		}
	}
	return stats
}

var debugDPOR = false

func fmtInts(a []int) string {
	s := ""
	for _, x := range a {
		s += string(rune('0'+x)) + " "
	}
	return s
}
func fmtSet(m map[int]bool) string {
	s := ""
	for x := 0; x < 10; x++ {
		if m[x] {
			s += string(rune('0'+x)) + " "
		}
	}
	return s
}

// pointSig fingerprints what the scheduler saw at one choice point.
func pointSig(p Point) uint64 {
	h := uint64(1469598103934665603)
	for _, e := range p.Enabled {
		h = (h ^ uint64(uint32(e))) * 1099511628211
	}
	if p.CurEnabled {
		h ^= 0x9e3779b97f4a7c15
	}
	return h
}
