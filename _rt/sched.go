// Package verifrt is the runtime of the /verif model checker. It is mounted
// (by `go build -overlay`) inside the repository's module path as
// github.com/craterdog/go-collection-framework/v4/verifrt so that both the
// instrumented repository files and the harness can import it.
//
// It contains: a cooperative scheduler that owns every lock, channel,
// wait-group and goroutine of the code under test (sched.go, sync.go,
// chan.go), a depth-first explorer of all schedules with iterative
// preemption bounding (explore.go), a vector-clock race detector fed by the
// access log that the instrumenter inserts (race.go), a fuel counter that turns
// non-termination into a recoverable panic (fuel.go) and a controllable
// random source (rand.go).
//
// When no exploration is active every shim falls through to the real
// primitive, so the repository's own tests run unchanged on the instrumented
// build.
package verifrt

import (
	"fmt"
	"runtime"
	"sort"
	"strings"
	"unsafe"
)

// MaxThreads bounds the number of logical threads of one execution.
const MaxThreads = 24

type opKind uint8

const (
	opNone opKind = iota
	opStart
	opLock
	opRLock
	opSend
	opRecv
	opClose
	opWait
	opSpawned
	opYield
	opOnce
	opSelect
	opUnlock
	opWgAdd
	opClock
	opAtomic
)

var opNames = [...]string{"none", "start", "Lock", "RLock", "send", "recv", "close", "Wait", "spawned", "yield", "Once.Do", "select", "Unlock", "wg.Add", "clock", "atomic"}

func (k opKind) String() string { return opNames[k] }

type pending struct {
	kind    opKind
	obj     any         // *Mutex, *RWMutex, *chanState, *WaitGroup ...
	enabled func() bool // nil = always enabled
	site    string
}

type thread struct {
	id        int
	name      string
	wake      chan struct{}
	pend      pending
	done      bool
	aborted   bool
	panicked  bool
	panicVal  any
	panicStr  string
	rtErr     bool
	stack     string
	vc        [MaxThreads]uint32
	heldGlob  int // number of package-level mutexes currently held
	library   bool
	spawnedAt int          // index of the transition that spawned this thread (-1: initial thread)
	selReady  func() []int // pending select: the ready clauses
	selChoice int          // which of the ready clauses the scheduler picked
}

// Point describes one decision of the scheduler at which more than one thread
// was enabled.
type Point struct {
	Enabled    []int // thread ids in canonical order (running thread first if still enabled)
	CurEnabled bool  // the running thread was still enabled (choosing another one is a preemption)
	Chosen     int   // index into Enabled
	Sleep      []int // thread ids in the sleep set at this node (partial-order reduction, mode A)
}

// Stuck describes a thread that was still unfinished when no thread was enabled.
type Stuck struct {
	Thread  int
	Name    string
	Op      string
	Object  string
	Site    string
	Library bool
}

// ThreadPanic is a panic that reached the root of a thread.
type ThreadPanic struct {
	Thread  int
	Name    string
	Value   string
	Runtime bool
	Library bool
	Stack   string
}

// Trans is one executed transition (mode A: one synchronisation operation).
type Trans struct {
	Tid    int
	Obj    any // synchronisation object (nil: none)
	Node   int // index of the choice point at which it was chosen (-1: forced)
	Parent int // for the first transition of a spawned thread: index of the spawning transition (-1 otherwise)
}

// Exec is the record of one complete execution.
type Exec struct {
	Trans         []Trans
	Pending       []Trans // operations of unfinished threads when the execution ended
	Choices       []int
	Points        []Point
	Deadlock      bool
	Stuck         []Stuck
	Panics        []ThreadPanic
	Races         []Race
	Steps         int
	Threads       int
	Unmodelled    string // the execution met something the runtime model does not cover: it must not be judged
	Diverged      bool   // a recorded prefix could not be followed: executions are not reproducible (state survives between executions)
	UsedSelect    bool   // a select statement was executed (the reductions of mode A do not model its clause choice)
	SleepBlocked  bool   // the execution was cut because every enabled thread was in the sleep set (equivalent to explored ones)
	ElisionBroken bool
	Events        []string // optional trace (Config.Trace)
}

// Config selects how an execution is run.
type Config struct {
	Elide     bool // do not offer a preemption before Lock of a package-level mutex
	Race      bool // run the race detector
	Trace     bool // record a textual event trace
	MaxSteps  int  // machinery guard against runaway executions (0 = 1e6)
	FuelTotal int64
	// Mode A (partial-order reduction by sleep sets; only sound without a preemption bound):
	// every synchronisation operation (also releases and clock reads) is its
	// own transition, and threads in the sleep set are not scheduled.
	Sleep    bool
	Installs map[int][]int // choice-point index -> thread ids to add to the sleep set there
}

type sched struct {
	cfg           Config
	threads       []*thread
	cur           *thread
	runLen        int // consecutive default continuations of one thread at points where another was enabled
	prefix        []int
	choices       []int
	points        []Point
	aborting      bool
	doneCh        chan struct{}
	ackCh         chan struct{}
	deadlock      bool
	clock         int64
	steps         int
	chans         map[uintptr]*chanState
	atomics       map[unsafe.Pointer]*atomicState
	shadow        map[uintptrKey]*shadowCell
	races         []Race
	raceSeen      map[string]bool
	elisionBroken bool
	events        []string
	machErr       string
	sleep         map[int]bool
	trans         []Trans
	usedSelect    bool
	diverged      bool
	epoch         int64
	lastOp        pending // the operation granted to the thread that ran last
	blocked       bool
}

var epochCounter int64

// S is the active scheduler (nil when no controlled execution is running).
var S *sched

type abortSentinel struct{}

// MachineryError is panicked (on the harness goroutine) when the machinery
// itself is inconsistent: a divergent replay, an unsupported primitive.
type MachineryError struct{ Msg string }

func (e MachineryError) Error() string { return "verif machinery error: " + e.Msg }

// Active reports whether the caller runs inside a controlled execution.
func Active() bool { s := S; return s != nil && s.cur != nil && !s.aborting }

// Now returns a fresh logical time stamp; stamps are totally ordered and
// consistent with the real order of events of the running execution (only one
// thread runs at a time).
func Now() int64 {
	s := S
	if s == nil {
		return 0
	}
	if s.cfg.Sleep && s.cur != nil && !s.aborting {
		// real-time stamps order otherwise independent operations: a visible, mutually dependent transition
		t := s.cur
		t.pend = pending{kind: opClock, obj: clockObj}
		s.point(t)
	}
	s.clock++
	return s.clock
}

var clockObj = new(int)

// dependent reports whether two operations may not be commuted.
func dependent(a, b pending) bool {
	if a.obj == nil || b.obj == nil {
		return false
	}
	return a.obj == b.obj
}

// LiveLibraryThreads returns the number of goroutines spawned by the code under
// test (through a `go` statement) that have not finished yet.
func LiveLibraryThreads() int {
	s := S
	if s == nil {
		return 0
	}
	n := 0
	for _, t := range s.threads {
		if t.library && !t.done {
			n++
		}
	}
	return n
}

// CurrentThread returns the id of the running logical thread (-1 outside).
func CurrentThread() int {
	s := S
	if s == nil || s.cur == nil {
		return -1
	}
	return s.cur.id
}

func (s *sched) trace(format string, args ...any) {
	if s.cfg.Trace {
		id := -1
		if s.cur != nil {
			id = s.cur.id
		}
		s.events = append(s.events, fmt.Sprintf("t%d ", id)+fmt.Sprintf(format, args...))
	}
}

// pick chooses the next thread to run. Returns nil when no thread is enabled
// (deadlock or termination) or when every enabled thread sleeps (s.blocked).
// fairAfter: see pick (bounded unfairness).
const fairAfter = 2000

func (s *sched) pick() *thread {
	var enabled []int
	cur := s.cur
	curEnabled := false
	if s.cfg.Sleep && len(s.sleep) > 0 {
		// the transition just executed wakes up the sleeping threads it is dependent with
		for u := range s.sleep {
			if s.threads[u].done || dependent(s.threads[u].pend, s.lastOp) {
				delete(s.sleep, u)
			}
		}
	}
	addThread := func(t *thread) {
		enabled = append(enabled, t.id)
		if t.pend.kind == opSelect && t.selReady != nil {
			// every further ready clause of a select is an alternative of its own
			for alt := 1; alt < len(t.selReady()); alt++ {
				enabled = append(enabled, t.id|alt<<16)
			}
		}
	}
	if cur != nil && !cur.done && (cur.pend.enabled == nil || cur.pend.enabled()) {
		curEnabled = true
		addThread(cur)
	}
	for _, t := range s.threads {
		if t == cur || t.done {
			continue
		}
		if t.pend.enabled == nil || t.pend.enabled() {
			addThread(t)
		}
	}
	if len(enabled) == 0 {
		return nil
	}
	idx := 0
	if len(enabled) > 1 || (s.cfg.Sleep && s.sleep[enabled[0]&0xffff]) {
		n := len(s.choices)
		if s.cfg.Sleep && len(enabled) > 1 {
			for _, u := range s.cfg.Installs[n] {
				s.sleep[u] = true
			}
		}
		fromPrefix := false
		if len(enabled) > 1 && n < len(s.prefix) {
			idx = s.prefix[n]
			fromPrefix = true
			if idx < 0 || idx >= len(enabled) {
				// the execution does not follow the recorded one: state outside the per-execution objects differs
				s.diverged = true
				idx = 0
				fromPrefix = false
			}
		}
		if s.cfg.Sleep && !fromPrefix {
			idx = -1
			for i, u := range enabled {
				if !s.sleep[u&0xffff] {
					idx = i
					break
				}
			}
			if idx < 0 {
				s.blocked = true
				return nil
			}
		}
		// Bounded unfairness: a thread that has been continued fairAfter times in a row although another thread
		// was enabled (a retry loop that only ends when somebody else makes progress) yields once to the next
		// enabled thread. Any schedule is a schedule of the program; without this an unfair default schedule
		// never ends and the whole program would have to be given up at the step guard.
		if !fromPrefix && curEnabled && idx == 0 && len(enabled) > 1 {
			s.runLen++
			if s.runLen > fairAfter {
				for i := 1; i < len(enabled); i++ {
					if enabled[i]>>16 == 0 && !(s.cfg.Sleep && s.sleep[enabled[i]&0xffff]) {
						idx = i
						break
					}
				}
				s.runLen = 0
			}
		} else {
			s.runLen = 0
		}
		if len(enabled) > 1 {
			var sl []int
			for _, u := range enabled {
				if s.sleep[u&0xffff] && u>>16 == 0 {
					sl = append(sl, u)
				}
			}
			s.choices = append(s.choices, idx)
			s.points = append(s.points, Point{Enabled: enabled, CurEnabled: curEnabled, Chosen: idx, Sleep: sl})
		}
	}
	next := s.threads[enabled[idx]&0xffff]
	next.selChoice = enabled[idx] >> 16
	s.lastOp = next.pend
	if s.cfg.Sleep {
		delete(s.sleep, next.id)
		node := -1
		if len(enabled) > 1 {
			node = len(s.points) - 1
		}
		parent := -1
		if next.pend.kind == opStart {
			parent = next.spawnedAt
		}
		s.trans = append(s.trans, Trans{Tid: next.id, Obj: next.pend.obj, Node: node, Parent: parent})
	}
	return next
}

// point is called by the running thread t after it has published t.pend. It
// returns when t has been chosen to perform the pending operation (which is
// then enabled).
func (s *sched) point(t *thread) {
	s.steps++
	max := s.cfg.MaxSteps
	if max == 0 {
		max = 1000000
	}
	if s.steps > max {
		s.machErr = "execution exceeded the step guard"
		s.endExecution(t, true)
		return
	}
	next := s.pick()
	if next == nil {
		s.endExecution(t, true)
		return
	}
	if next != t {
		s.cur = next
		next.wake <- struct{}{}
		<-t.wake
		if s.aborting {
			panic(abortSentinel{})
		}
	}
	t.pend = pending{}
}

// endExecution hands control back to the harness goroutine; if park is true
// the calling thread parks until it is unwound.
func (s *sched) endExecution(t *thread, park bool) {
	s.deadlock = park
	s.cur = nil
	s.doneCh <- struct{}{}
	if park {
		<-t.wake
		panic(abortSentinel{})
	}
}

func (s *sched) threadRoot(t *thread, f func()) {
	<-t.wake
	if s.aborting {
		t.done, t.aborted = true, true
		s.ackCh <- struct{}{}
		return
	}
	t.pend = pending{}
	defer func() {
		r := recover()
		wasAborting := s.aborting
		if _, ok := r.(abortSentinel); ok || wasAborting {
			t.aborted = true
		} else if me, isMach := r.(MachineryError); isMach {
			// not a panic of the code under test: the model met something it does not cover
			if s.machErr == "" {
				s.machErr = me.Msg
			}
		} else if r != nil {
			t.panicked = true
			t.panicVal = r
			t.panicStr = fmt.Sprint(r)
			_, t.rtErr = r.(runtime.Error)
			buf := make([]byte, 4096)
			buf = buf[:runtime.Stack(buf, false)]
			t.stack = string(buf)
		}
		t.done = true
		if wasAborting {
			s.ackCh <- struct{}{}
			return
		}
		// thread exit: release-like, pass the baton.
		s.cur = t
		next := s.pick()
		if next == nil {
			all := true
			for _, u := range s.threads {
				if !u.done {
					all = false
				}
			}
			s.deadlock = !all
			s.cur = nil
			s.doneCh <- struct{}{}
			return
		}
		s.cur = next
		next.wake <- struct{}{}
	}()
	f()
}

func (s *sched) newThread(name string, f func(), library bool) *thread {
	if len(s.threads) >= MaxThreads {
		panic(MachineryError{"too many threads"})
	}
	t := &thread{id: len(s.threads), name: name, wake: make(chan struct{}, 1), library: library, spawnedAt: len(s.trans) - 1}
	t.pend = pending{kind: opStart}
	s.threads = append(s.threads, t)
	go s.threadRoot(t, f)
	return t
}

// Go is what the instrumenter substitutes for a `go` statement.
func Go(f func()) {
	s := S
	if s == nil || s.cur == nil {
		go f()
		return
	}
	if s.aborting {
		return
	}
	parent := s.cur
	child := s.newThread(fmt.Sprintf("go@%s", callerSite(2)), f, true)
	// spawn edge: the child knows what the parent did up to here; what the parent does afterwards is concurrent
	child.vc = parent.vc
	child.vc[child.id] = 1
	parent.vc[parent.id]++
	s.trace("spawn t%d", child.id)
	parent.pend = pending{kind: opSpawned}
	s.point(parent)
}

// Yield is an explicit scheduling point (for harness code).
func Yield() {
	s := S
	if s == nil || s.cur == nil || s.aborting {
		return
	}
	t := s.cur
	t.pend = pending{kind: opYield}
	s.point(t)
}

func callerSite(skip int) string {
	_, file, line, ok := runtime.Caller(skip)
	if !ok {
		return "?"
	}
	if i := strings.LastIndexByte(file, '/'); i >= 0 {
		file = file[i+1:]
	}
	return fmt.Sprintf("%s:%d", file, line)
}

// ThreadSpec is one client thread of a closed program.
type ThreadSpec struct {
	Name string
	Body func()
}

// RunOnce executes the threads under the scheduler following prefix and then
// the default (non-preemptive, lowest id first) policy, and returns the record.
func RunOnce(cfg Config, prefix []int, threads []ThreadSpec) *Exec {
	if S != nil {
		panic(MachineryError{"nested controlled execution"})
	}
	s := &sched{cfg: cfg, prefix: prefix, doneCh: make(chan struct{}, 1), ackCh: make(chan struct{}, 1),
		chans: map[uintptr]*chanState{}, sleep: map[int]bool{}}
	if cfg.Race {
		s.shadow = map[uintptrKey]*shadowCell{}
		s.raceSeen = map[string]bool{}
	}
	resetGlobalMutexes()
	epochCounter++
	s.epoch = epochCounter
	S = s
	defer func() { S = nil }()
	for _, ts := range threads {
		t := s.newThread(ts.Name, ts.Body, false)
		t.vc[t.id] = 1
	}
	if len(s.threads) == 0 {
		return &Exec{}
	}
	if cfg.FuelTotal > 0 {
		ArmFuel(cfg.FuelTotal)
		defer DisarmFuel()
	}
	first := s.pick()
	s.cur = first
	first.wake <- struct{}{}
	<-s.doneCh
	ex := &Exec{Diverged: s.diverged, UsedSelect: s.usedSelect, Trans: s.trans, Choices: s.choices, Points: s.points, Deadlock: s.deadlock && !s.blocked, SleepBlocked: s.blocked, Steps: s.steps, Threads: len(s.threads)}
	// collect stuck threads, then unwind them
	for _, t := range s.threads {
		if !t.done {
			ex.Pending = append(ex.Pending, Trans{Tid: t.id, Obj: t.pend.obj, Node: -1, Parent: -1})
		}
		if !t.done && !s.blocked {
			ex.Stuck = append(ex.Stuck, Stuck{Thread: t.id, Name: t.name, Op: t.pend.kind.String(), Object: describe(t.pend.obj), Site: t.pend.site, Library: t.library})
		}
	}
	s.aborting = true
	DisarmFuel()
	for i := 0; i < len(s.threads); i++ { // threads may not grow while aborting (Go is a no-op)
		t := s.threads[i]
		if !t.done {
			s.cur = t
			t.wake <- struct{}{}
			<-s.ackCh
		}
	}
	s.cur = nil
	for _, t := range s.threads {
		if t.panicked {
			ex.Panics = append(ex.Panics, ThreadPanic{Thread: t.id, Name: t.name, Value: t.panicStr, Runtime: t.rtErr, Library: t.library, Stack: t.stack})
		}
	}
	ex.Races = s.races
	ex.ElisionBroken = s.elisionBroken
	ex.Events = s.events
	// a construct or situation the model does not cover (or the step guard): the execution says nothing
	// about the code under test and must not be judged
	ex.Unmodelled = s.machErr
	lastUnmodelled = s.machErr
	return ex
}

var lastUnmodelled string

// LastUnmodelled reports whether the most recent execution met something the
// runtime model does not cover ("" if not): whatever a harness concludes from
// such an execution says nothing about the code under test.
func LastUnmodelled() string { return lastUnmodelled }

// ClearUnmodelled forgets the last execution (called when a new unit of work starts).
func ClearUnmodelled() { lastUnmodelled = "" }

func describe(obj any) string {
	switch o := obj.(type) {
	case nil:
		return ""
	case *Mutex:
		if o.name != "" {
			return "mutex " + o.name
		}
		return fmt.Sprintf("mutex (held by t%d)", o.owner)
	case *chanState:
		return fmt.Sprintf("chan(len=%d,cap=%d,closed=%v)", o.length(), o.capacity, o.closed)
	case *WaitGroup:
		return fmt.Sprintf("waitgroup(n=%d)", o.n)
	default:
		return fmt.Sprintf("%T", obj)
	}
}

// PreemptionsOf counts the preemptions of a recorded execution.
func (e *Exec) PreemptionsOf() int {
	n := 0
	for _, p := range e.Points {
		if p.CurEnabled && p.Chosen != 0 {
			n++
		}
	}
	return n
}

// SortedStuck returns a canonical textual description of the stuck threads.
func (e *Exec) SortedStuck() []string {
	var out []string
	for _, st := range e.Stuck {
		out = append(out, fmt.Sprintf("%s:%s", st.Name, st.Op))
	}
	sort.Strings(out)
	return out
}
