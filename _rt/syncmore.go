package verifrt

import "sync"

// Locker replaces sync.Locker.
type Locker = sync.Locker

// Map replaces sync.Map: a map behind one model mutex. Every operation is a
// scheduling point on that mutex and is ordered with every other operation on
// the same Map (sync.Map orders only operations that observe each other; the
// model's additional edges can hide a race between accesses that two goroutines
// guard by operations on *different* keys of one Map - stated in DESIGN.md).
type Map struct {
	mu Mutex
	m  map[any]any
	// insertion order, so that Range is deterministic under the scheduler
	keys []any
}

func (x *Map) with(f func()) {
	x.mu.Lock()
	defer x.mu.Unlock()
	if x.m == nil {
		x.m = map[any]any{}
	}
	f()
}

func (x *Map) drop(key any) {
	delete(x.m, key)
	for i, k := range x.keys {
		if k == key {
			x.keys = append(x.keys[:i:i], x.keys[i+1:]...)
			break
		}
	}
}

func (x *Map) put(key, value any) {
	if _, ok := x.m[key]; !ok {
		x.keys = append(x.keys, key)
	}
	x.m[key] = value
}

func (x *Map) Load(key any) (value any, ok bool) {
	x.with(func() { value, ok = x.m[key] })
	return
}

func (x *Map) Store(key, value any) { x.with(func() { x.put(key, value) }) }

func (x *Map) Clear() { x.with(func() { x.m = map[any]any{}; x.keys = nil }) }

func (x *Map) LoadOrStore(key, value any) (actual any, loaded bool) {
	x.with(func() {
		if actual, loaded = x.m[key]; !loaded {
			x.put(key, value)
			actual = value
		}
	})
	return
}

func (x *Map) LoadAndDelete(key any) (value any, loaded bool) {
	x.with(func() {
		if value, loaded = x.m[key]; loaded {
			x.drop(key)
		}
	})
	return
}

func (x *Map) Delete(key any) { x.LoadAndDelete(key) }

func (x *Map) Swap(key, value any) (previous any, loaded bool) {
	x.with(func() {
		previous, loaded = x.m[key]
		x.put(key, value)
	})
	return
}

func (x *Map) CompareAndSwap(key, old, new any) (swapped bool) {
	x.with(func() {
		if v, ok := x.m[key]; ok && v == old {
			x.m[key] = new
			swapped = true
		}
	})
	return
}

func (x *Map) CompareAndDelete(key, old any) (deleted bool) {
	x.with(func() {
		if v, ok := x.m[key]; ok && v == old {
			x.drop(key)
			deleted = true
		}
	})
	return
}

// Range calls f for a snapshot of the entries taken at one instant (sync.Map
// promises less: no entry is visited twice, concurrent updates may or may not be seen).
func (x *Map) Range(f func(key, value any) bool) {
	type kv struct{ k, v any }
	var snap []kv
	x.with(func() {
		for _, k := range x.keys {
			snap = append(snap, kv{k, x.m[k]})
		}
	})
	for _, e := range snap {
		if !f(e.k, e.v) {
			return
		}
	}
}

// Pool replaces sync.Pool: a last-in first-out free list behind a model mutex.
// sync.Pool may drop items at any time; the model never does, and hands items
// to whichever goroutine asks (no per-P caches), which is the behaviour that
// exposes the most sharing.
type Pool struct {
	New   func() any
	mu    Mutex
	items []any
}

func (p *Pool) Get() any {
	var v any
	got := false
	p.mu.Lock()
	if n := len(p.items); n > 0 {
		v, got = p.items[n-1], true
		p.items[n-1] = nil
		p.items = p.items[:n-1]
	}
	p.mu.Unlock()
	if !got && p.New != nil {
		v = p.New()
	}
	return v
}

func (p *Pool) Put(v any) {
	if v == nil {
		return
	}
	p.mu.Lock()
	p.items = append(p.items, v)
	p.mu.Unlock()
}

// Cond replaces sync.Cond. Waiters are woken in arrival order, as the runtime's
// notify list does.
type Cond struct {
	L       Locker
	real    *sync.Cond
	init    sync.Once
	epoch   int64
	waiters []*condWaiter
	vc      [MaxThreads]uint32
}

type condWaiter struct{ signalled bool }

func NewCond(l Locker) *Cond { return &Cond{L: l} }

func (c *Cond) realCond() *sync.Cond {
	c.init.Do(func() { c.real = sync.NewCond(c.L) })
	return c.real
}

func (c *Cond) fresh(s *sched) {
	if c.epoch != s.epoch {
		c.epoch = s.epoch
		c.waiters = nil
		c.vc = [MaxThreads]uint32{}
	}
}

func (c *Cond) Wait() {
	s := S
	if s == nil || s.cur == nil {
		c.realCond().Wait()
		return
	}
	if s.aborting {
		return
	}
	c.fresh(s)
	t := s.cur
	w := &condWaiter{}
	c.waiters = append(c.waiters, w) // joining the notify list and releasing L are one step, as in sync.Cond
	c.L.Unlock()
	t.pend = pending{kind: opWait, obj: c, enabled: func() bool { return w.signalled }}
	s.point(t)
	joinVC(&t.vc, &c.vc)
	c.L.Lock()
}

func (c *Cond) wake(all bool) {
	s := S
	if s == nil || s.cur == nil {
		if all {
			c.realCond().Broadcast()
		} else {
			c.realCond().Signal()
		}
		return
	}
	if s.aborting {
		return
	}
	c.fresh(s)
	t := s.cur
	if s.cfg.Sleep {
		t.pend = pending{kind: opWgAdd, obj: c}
		s.point(t)
	}
	joinVC(&c.vc, &t.vc)
	t.vc[t.id]++
	for len(c.waiters) > 0 {
		c.waiters[0].signalled = true
		c.waiters = c.waiters[1:]
		if !all {
			break
		}
	}
}

func (c *Cond) Signal()    { c.wake(false) }
func (c *Cond) Broadcast() { c.wake(true) }

// OnceFunc, OnceValue and OnceValues replace their namesakes in package sync.
func OnceFunc(f func()) func() {
	var o Once
	return func() { o.Do(f) }
}

func OnceValue[T any](f func() T) func() T {
	var o Once
	var r T
	return func() T { o.Do(func() { r = f() }); return r }
}

func OnceValues[T1, T2 any](f func() (T1, T2)) func() (T1, T2) {
	var o Once
	var r1 T1
	var r2 T2
	return func() (T1, T2) { o.Do(func() { r1, r2 = f() }); return r1, r2 }
}
