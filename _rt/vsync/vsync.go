// Package vsync is what the instrumenter substitutes for import "sync".
package vsync

import rt "github.com/craterdog/go-collection-framework/v4/verifrt"

type (
	Mutex     = rt.Mutex
	RWMutex   = rt.RWMutex
	WaitGroup = rt.WaitGroup
	Once      = rt.Once
)
