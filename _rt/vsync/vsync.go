// Package vsync is what the instrumenter substitutes for import "sync".
package vsync

import rt "github.com/craterdog/go-collection-framework/v4/verifrt"

type (
	Mutex     = rt.Mutex
	RWMutex   = rt.RWMutex
	WaitGroup = rt.WaitGroup
	Once      = rt.Once
	Map       = rt.Map
	Pool      = rt.Pool
	Cond      = rt.Cond
	Locker    = rt.Locker
)

func NewCond(l Locker) *Cond { return rt.NewCond(l) }

func OnceFunc(f func()) func() { return rt.OnceFunc(f) }

func OnceValue[T any](f func() T) func() T { return rt.OnceValue(f) }

func OnceValues[T1, T2 any](f func() (T1, T2)) func() (T1, T2) { return rt.OnceValues(f) }
