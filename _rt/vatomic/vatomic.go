// Package vatomic is what the instrumenter substitutes for import "sync/atomic":
// the same operations, each preceded by a scheduling point on the word.
package vatomic

import (
	"sync/atomic"
	"unsafe"

	rt "github.com/craterdog/go-collection-framework/v4/verifrt"
)

func pt[T any](p *T) { rt.AtomicPoint(unsafe.Pointer(p)) }

func AddInt32(addr *int32, delta int32) int32     { pt(addr); return atomic.AddInt32(addr, delta) }
func AddInt64(addr *int64, delta int64) int64     { pt(addr); return atomic.AddInt64(addr, delta) }
func AddUint32(addr *uint32, delta uint32) uint32 { pt(addr); return atomic.AddUint32(addr, delta) }
func AddUint64(addr *uint64, delta uint64) uint64 { pt(addr); return atomic.AddUint64(addr, delta) }
func AddUintptr(addr *uintptr, delta uintptr) uintptr {
	pt(addr)
	return atomic.AddUintptr(addr, delta)
}
func LoadInt32(addr *int32) int32              { pt(addr); return atomic.LoadInt32(addr) }
func LoadInt64(addr *int64) int64              { pt(addr); return atomic.LoadInt64(addr) }
func LoadUint32(addr *uint32) uint32           { pt(addr); return atomic.LoadUint32(addr) }
func LoadUint64(addr *uint64) uint64           { pt(addr); return atomic.LoadUint64(addr) }
func LoadUintptr(addr *uintptr) uintptr        { pt(addr); return atomic.LoadUintptr(addr) }
func StoreInt32(addr *int32, v int32)          { pt(addr); atomic.StoreInt32(addr, v) }
func StoreInt64(addr *int64, v int64)          { pt(addr); atomic.StoreInt64(addr, v) }
func StoreUint32(addr *uint32, v uint32)       { pt(addr); atomic.StoreUint32(addr, v) }
func StoreUint64(addr *uint64, v uint64)       { pt(addr); atomic.StoreUint64(addr, v) }
func StoreUintptr(addr *uintptr, v uintptr)    { pt(addr); atomic.StoreUintptr(addr, v) }
func SwapInt32(addr *int32, v int32) int32     { pt(addr); return atomic.SwapInt32(addr, v) }
func SwapInt64(addr *int64, v int64) int64     { pt(addr); return atomic.SwapInt64(addr, v) }
func SwapUint32(addr *uint32, v uint32) uint32 { pt(addr); return atomic.SwapUint32(addr, v) }
func SwapUint64(addr *uint64, v uint64) uint64 { pt(addr); return atomic.SwapUint64(addr, v) }
func CompareAndSwapInt32(addr *int32, o, n int32) bool {
	pt(addr)
	return atomic.CompareAndSwapInt32(addr, o, n)
}
func CompareAndSwapInt64(addr *int64, o, n int64) bool {
	pt(addr)
	return atomic.CompareAndSwapInt64(addr, o, n)
}
func CompareAndSwapUint32(addr *uint32, o, n uint32) bool {
	pt(addr)
	return atomic.CompareAndSwapUint32(addr, o, n)
}
func CompareAndSwapUint64(addr *uint64, o, n uint64) bool {
	pt(addr)
	return atomic.CompareAndSwapUint64(addr, o, n)
}

// typed values

type Int32 struct{ v atomic.Int32 }

func (x *Int32) Load() int32                    { pt(x); return x.v.Load() }
func (x *Int32) Store(v int32)                  { pt(x); x.v.Store(v) }
func (x *Int32) Add(d int32) int32              { pt(x); return x.v.Add(d) }
func (x *Int32) Swap(v int32) int32             { pt(x); return x.v.Swap(v) }
func (x *Int32) CompareAndSwap(o, n int32) bool { pt(x); return x.v.CompareAndSwap(o, n) }

type Int64 struct{ v atomic.Int64 }

func (x *Int64) Load() int64                    { pt(x); return x.v.Load() }
func (x *Int64) Store(v int64)                  { pt(x); x.v.Store(v) }
func (x *Int64) Add(d int64) int64              { pt(x); return x.v.Add(d) }
func (x *Int64) Swap(v int64) int64             { pt(x); return x.v.Swap(v) }
func (x *Int64) CompareAndSwap(o, n int64) bool { pt(x); return x.v.CompareAndSwap(o, n) }

type Uint32 struct{ v atomic.Uint32 }

func (x *Uint32) Load() uint32                    { pt(x); return x.v.Load() }
func (x *Uint32) Store(v uint32)                  { pt(x); x.v.Store(v) }
func (x *Uint32) Add(d uint32) uint32             { pt(x); return x.v.Add(d) }
func (x *Uint32) Swap(v uint32) uint32            { pt(x); return x.v.Swap(v) }
func (x *Uint32) CompareAndSwap(o, n uint32) bool { pt(x); return x.v.CompareAndSwap(o, n) }

type Uint64 struct{ v atomic.Uint64 }

func (x *Uint64) Load() uint64                    { pt(x); return x.v.Load() }
func (x *Uint64) Store(v uint64)                  { pt(x); x.v.Store(v) }
func (x *Uint64) Add(d uint64) uint64             { pt(x); return x.v.Add(d) }
func (x *Uint64) Swap(v uint64) uint64            { pt(x); return x.v.Swap(v) }
func (x *Uint64) CompareAndSwap(o, n uint64) bool { pt(x); return x.v.CompareAndSwap(o, n) }

type Bool struct{ v atomic.Bool }

func (x *Bool) Load() bool                    { pt(x); return x.v.Load() }
func (x *Bool) Store(v bool)                  { pt(x); x.v.Store(v) }
func (x *Bool) Swap(v bool) bool              { pt(x); return x.v.Swap(v) }
func (x *Bool) CompareAndSwap(o, n bool) bool { pt(x); return x.v.CompareAndSwap(o, n) }

type Value struct{ v atomic.Value }

func (x *Value) Load() any                    { pt(x); return x.v.Load() }
func (x *Value) Store(v any)                  { pt(x); x.v.Store(v) }
func (x *Value) Swap(v any) any               { pt(x); return x.v.Swap(v) }
func (x *Value) CompareAndSwap(o, n any) bool { pt(x); return x.v.CompareAndSwap(o, n) }

type Pointer[T any] struct{ v atomic.Pointer[T] }

func (x *Pointer[T]) Load() *T                    { pt(x); return x.v.Load() }
func (x *Pointer[T]) Store(v *T)                  { pt(x); x.v.Store(v) }
func (x *Pointer[T]) Swap(v *T) *T                { pt(x); return x.v.Swap(v) }
func (x *Pointer[T]) CompareAndSwap(o, n *T) bool { pt(x); return x.v.CompareAndSwap(o, n) }
