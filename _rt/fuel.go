package verifrt

import (
	"math"
	"sync/atomic"
)

var fuel int64 = math.MaxInt64
var fuelBudget int64

// FuelExhausted is the panic value raised by Tick when the armed budget is used up.
type FuelExhausted struct{ Budget int64 }

func (f FuelExhausted) Error() string { return "verif: fuel exhausted (non-termination)" }

// Tick is inserted by the instrumenter at the top of every function body and
// every loop body of the repository.
func Tick() {
	if atomic.AddInt64(&fuel, -1) < 0 {
		b := fuelBudget
		atomic.StoreInt64(&fuel, math.MaxInt64)
		panic(FuelExhausted{b})
	}
}

// ArmFuel sets the number of ticks the code may still execute.
func ArmFuel(n int64) {
	fuelBudget = n
	atomic.StoreInt64(&fuel, n)
}

// DisarmFuel switches the budget off and returns how many ticks were used
// since ArmFuel.
func DisarmFuel() int64 {
	left := atomic.SwapInt64(&fuel, math.MaxInt64)
	if left > fuelBudget { // was not armed
		return 0
	}
	return fuelBudget - left
}

// Outcome of a protected call.
type Outcome struct {
	Panicked bool
	Fuel     bool   // the call ran out of fuel (non-termination)
	Runtime  bool   // the panic value is a runtime.Error
	IsString bool   // the panic value is a string
	Value    string // fmt.Sprint of the panic value
	Ticks    int64
}

// Protect runs f, converting a panic into an Outcome. The scheduler's own
// unwinding sentinel is passed through.
func Protect(budget int64, f func()) (out Outcome) {
	if budget > 0 {
		ArmFuel(budget)
	}
	defer func() {
		if budget > 0 {
			out.Ticks = DisarmFuel()
		}
		r := recover()
		if r == nil {
			return
		}
		switch v := r.(type) {
		case abortSentinel:
			panic(r)
		case MachineryError:
			panic(r)
		case FuelExhausted:
			out.Panicked, out.Fuel, out.Value = true, true, v.Error()
		default:
			out.Panicked = true
			out.Value = sprint(r)
			_, out.Runtime = r.(interface{ RuntimeError() })
			_, out.IsString = r.(string)
		}
	}()
	f()
	return
}
