package verifrt

import (
	"reflect"
	"unsafe"
)

// SelCase describes one communication clause of a select statement.
type SelCase struct {
	send bool
	ch   reflect.Value
	val  reflect.Value
	st   func(s *sched) *chanState
}

// RecvCase / SendCase are emitted by the instrumenter for the clauses of a select.
func RecvCase[T any](ch chan T) SelCase {
	return SelCase{ch: reflect.ValueOf(ch), st: func(s *sched) *chanState { return stateOf(s, ch) }}
}

func SendCase[T any](ch chan T, v T) SelCase {
	return SelCase{send: true, ch: reflect.ValueOf(ch), val: reflect.ValueOf(&v).Elem(), st: func(s *sched) *chanState { return stateOf(s, ch) }}
}

// Selected is the outcome of a select: the index of the clause taken (-1 = default) and, for a receive, the value.
type Selected struct {
	Index int
	value reflect.Value
	ok    bool
}

// SelRecv returns what the chosen receive clause received.
func SelRecv[T any](sel Selected, ch chan T) (T, bool) {
	var zero T
	if !sel.ok || !sel.value.IsValid() {
		return zero, false
	}
	if v, ok := sel.value.Interface().(T); ok {
		return v, true
	}
	return zero, true // a nil value of an interface element type
}

// Select is what the instrumenter substitutes for a select statement. Under
// the scheduler the statement is one scheduling point that is enabled when a
// clause is ready (or there is a default); which ready clause is taken is part
// of the scheduler's choice (every ready clause is an alternative).
func Select(site string, hasDefault bool, cases []SelCase) Selected {
	s := S
	if s == nil || s.cur == nil {
		rc := make([]reflect.SelectCase, 0, len(cases)+1)
		for _, c := range cases {
			if c.send {
				rc = append(rc, reflect.SelectCase{Dir: reflect.SelectSend, Chan: c.ch, Send: c.val})
			} else {
				rc = append(rc, reflect.SelectCase{Dir: reflect.SelectRecv, Chan: c.ch})
			}
		}
		if hasDefault {
			rc = append(rc, reflect.SelectCase{Dir: reflect.SelectDefault})
		}
		i, v, ok := reflect.Select(rc)
		if hasDefault && i == len(cases) {
			return Selected{Index: -1}
		}
		return Selected{Index: i, value: v, ok: ok}
	}
	if s.aborting {
		return Selected{Index: -1}
	}
	t := s.cur
	s.usedSelect = true
	states := make([]*chanState, len(cases))
	for i, c := range cases {
		states[i] = c.st(s)
		if states[i].key != 0 && states[i].capacity == 0 && c.send && states[i].selRecvers > 0 {
			// two select statements that could only meet each other on an unbuffered channel
			panic(MachineryError{"a rendezvous between two select statements is not modelled"})
		}
	}
	untaken := func(st *chanState) *chanOffer {
		for _, o := range st.offers {
			if !o.taken {
				return o
			}
		}
		return nil
	}
	ready := func() []int {
		var r []int
		for i, c := range cases {
			st := states[i]
			if st.key == 0 {
				continue
			}
			if st.capacity == 0 {
				// unbuffered: a send clause meets a parked receiver, a receive clause meets a parked sender's offer
				if c.send && (st.closed || st.waiting > len(st.handoff)) {
					r = append(r, i)
				}
				if !c.send && (st.closed || untaken(st) != nil) {
					r = append(r, i)
				}
				continue
			}
			if c.send && (st.closed || st.length() < st.capacity) {
				r = append(r, i)
			}
			if !c.send && (st.closed || st.length() > 0) {
				r = append(r, i)
			}
		}
		return r
	}
	t.selReady = ready
	for i, c := range cases {
		if !c.send && states[i].key != 0 && states[i].capacity == 0 {
			states[i].selRecvers++
		}
	}
	t.pend = pending{kind: opSelect, obj: selectObj, site: site, enabled: func() bool { return hasDefault || len(ready()) > 0 }}
	s.point(t)
	for i, c := range cases {
		if !c.send && states[i].key != 0 && states[i].capacity == 0 {
			states[i].selRecvers--
		}
	}
	t.selReady = nil
	r := ready()
	if len(r) == 0 {
		return Selected{Index: -1}
	}
	i := r[0]
	if t.selChoice >= 0 && t.selChoice < len(r) {
		i = r[t.selChoice]
	}
	t.selChoice = -1
	c, st := cases[i], states[i]
	s.trace("select clause %d %s", i, site)
	if st.capacity == 0 {
		if c.send {
			raceSend(st, site)
			if st.closed {
				panic(plainRuntimeError("send on closed channel"))
			}
			st.handoff = append(st.handoff, c.val.Interface())
			st.handoffVC = append(st.handoffVC, t.vc)
			t.vc[t.id]++
			return Selected{Index: i}
		}
		if off := untaken(st); off != nil {
			off.taken = true
			joinVC(&t.vc, &off.vc)
			off.rvc = t.vc
			t.vc[t.id]++
			val := reflect.Zero(c.ch.Type().Elem())
			if off.v != nil {
				val = reflect.ValueOf(off.v)
			}
			return Selected{Index: i, value: val, ok: true}
		}
		joinVC(&t.vc, &st.closeVC)
		return Selected{Index: i, value: reflect.Zero(c.ch.Type().Elem()), ok: false}
	}
	if c.send {
		raceSend(st, site)
		if !st.closed {
			if k := st.sends - st.capacity; k >= 0 && k < len(st.recvVCs) {
				joinVC(&t.vc, &st.recvVCs[k])
			}
			st.sends++
			st.sendVCs = append(st.sendVCs, t.vc)
			t.vc[t.id]++
		}
		c.ch.Send(c.val) // panics like the real thing on a closed channel
		return Selected{Index: i}
	}
	v, ok := c.ch.Recv()
	if ok {
		if len(st.sendVCs) > 0 {
			joinVC(&t.vc, &st.sendVCs[0])
			st.sendVCs = st.sendVCs[1:]
		}
		st.recvVCs = append(st.recvVCs, t.vc)
		t.vc[t.id]++
	} else {
		joinVC(&t.vc, &st.closeVC)
	}
	return Selected{Index: i, value: v, ok: ok}
}

var selectObj = new(int)

var _ = unsafe.Pointer(nil)
