package verifrt

import (
	"fmt"
	"math/rand"
	"sort"
	"testing"
)

// Differential self-test of the explorers: random small programs over two
// mutexes, one buffered channel and a wait group; the set of final outcomes
// (including deadlocks) under sleep sets and under DPOR must equal the set
// under plain unbounded enumeration.
type rop struct {
	kind int // 0 lock/unlock critical section on mutex k, 1 send, 2 recv, 3 nested lock k then 1-k, 4 wg.Done, 5 wg.Wait
	k    int
}

func genProg(rng *rand.Rand) [][]rop {
	nt := 2 + rng.Intn(2)
	var prog [][]rop
	for t := 0; t < nt; t++ {
		n := 1 + rng.Intn(3)
		var ops []rop
		for i := 0; i < n; i++ {
			ops = append(ops, rop{kind: rng.Intn(6), k: rng.Intn(2)})
		}
		prog = append(prog, ops)
	}
	return prog
}

func build(prog [][]rop) func() ([]ThreadSpec, func() string) {
	return func() ([]ThreadSpec, func() string) {
		var m [2]Mutex
		var logs [2][]int
		ch := make(chan int, 1)
		var wg WaitGroup
		dones := 0
		for _, ops := range prog {
			for _, o := range ops {
				if o.kind == 4 {
					dones++
				}
			}
		}
		wg.Add(dones)
		recvd := make([][]int, len(prog))
		var threads []ThreadSpec
		for ti, ops := range prog {
			ti, ops := ti, ops
			threads = append(threads, ThreadSpec{Name: fmt.Sprint("T", ti), Body: func() {
				for oi, o := range ops {
					switch o.kind {
					case 0:
						m[o.k].Lock()
						logs[o.k] = append(logs[o.k], ti*10+oi)
						m[o.k].Unlock()
					case 1:
						Send(ch, ti*10+oi, "s")
					case 2:
						v, ok := Recv2(ch, "r")
						if ok {
							recvd[ti] = append(recvd[ti], v)
						}
					case 3:
						m[o.k].Lock()
						m[1-o.k].Lock()
						logs[o.k] = append(logs[o.k], ti*10+oi)
						logs[1-o.k] = append(logs[1-o.k], ti*10+oi)
						m[1-o.k].Unlock()
						m[o.k].Unlock()
					case 4:
						wg.Done()
					case 5:
						wg.Wait()
						m[0].Lock()
						logs[0] = append(logs[0], 900+ti)
						m[0].Unlock()
					}
				}
			}})
		}
		return threads, func() string { return fmt.Sprint(logs, recvd) }
	}
}

func outcomeSet(mk func() ([]ThreadSpec, func() string), opts ExploreOpts) ([]string, ExploreStats) {
	res := map[string]bool{}
	prog := func() ([]ThreadSpec, func(*Exec) []string) {
		th, obs := mk()
		return th, func(ex *Exec) []string {
			o := obs()
			if ex.Deadlock {
				o += fmt.Sprint(" DEADLOCK ", ex.SortedStuck())
			}
			res[o] = true
			return nil
		}
	}
	st := Explore(prog, opts)
	var k []string
	for x := range res {
		k = append(k, x)
	}
	sort.Strings(k)
	return k, st
}

func TestRandomPrograms(t *testing.T) {
	rng := rand.New(rand.NewSource(12345))
	n := 400
	if testing.Short() {
		n = 60
	}
	var fullExecs, sleepExecs, dporExecs int
	for i := 0; i < n; i++ {
		prog := genProg(rng)
		mk := build(prog)
		full, s0 := outcomeSet(mk, ExploreOpts{Bound: -1, MaxExecs: 300000})
		if !s0.Complete {
			continue
		}
		sl, s1 := outcomeSet(mk, ExploreOpts{Bound: -1, Sleep: true})
		dp, s2 := outcomeSet(mk, ExploreOpts{Bound: -1, Sleep: true, DPOR: true})
		fullExecs += s0.Executions
		sleepExecs += s1.Executions
		dporExecs += s2.Executions
		if fmt.Sprint(full) != fmt.Sprint(sl) {
			t.Errorf("program %d %v: sleep sets lose outcomes: %d vs %d\nsleep %v\nfull  %v", i, prog, len(sl), len(full), sl, full)
		}
		if fmt.Sprint(full) != fmt.Sprint(dp) {
			t.Errorf("program %d %v: DPOR loses outcomes: %d vs %d\ndpor %v\nfull %v", i, prog, len(dp), len(full), dp, full)
		}
	}
	t.Logf("executions: full %d, sleep %d, dpor %d", fullExecs, sleepExecs, dporExecs)
}
