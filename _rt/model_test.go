package verifrt

import (
	"testing"
	"unsafe"
)

// raceCount explores every schedule of the program and returns in how many
// executions the detector reported a race, and in how many the scheduler
// reported a deadlock.
func raceCount(t *testing.T, mk func() []ThreadSpec) (execs, racy, dead int) {
	prog := func() ([]ThreadSpec, func(*Exec) []string) {
		return mk(), func(ex *Exec) []string {
			execs++
			if len(ex.Races) > 0 {
				racy++
			}
			if ex.Deadlock {
				dead++
			}
			return nil
		}
	}
	st := Explore(prog, ExploreOpts{Bound: -1, Race: true})
	if !st.Complete {
		t.Fatalf("exploration not complete")
	}
	return
}

// The spawn edge orders what the parent did BEFORE the go statement before the
// child, and nothing the parent does after it.
func TestSpawnEdge(t *testing.T) {
	// parent writes before the spawn, child reads: ordered
	_, racy, _ := raceCount(t, func() []ThreadSpec {
		x := new(int)
		return []ThreadSpec{{Name: "P", Body: func() {
			Acc(unsafe.Pointer(x), true, "parent-before")
			*x = 1
			Go(func() { Acc(unsafe.Pointer(x), false, "child"); _ = *x })
		}}}
	})
	if racy != 0 {
		t.Errorf("write before the go statement reported as racing with the child (%d executions)", racy)
	}
	// parent writes after the spawn without synchronisation: a race in every execution
	execs, racy, _ := raceCount(t, func() []ThreadSpec {
		x := new(int)
		return []ThreadSpec{{Name: "P", Body: func() {
			Go(func() { Acc(unsafe.Pointer(x), false, "child"); _ = *x })
			Acc(unsafe.Pointer(x), true, "parent-after")
			*x = 1
		}}}
	})
	if racy != execs || execs == 0 {
		t.Errorf("write after the go statement races with the child: reported in %d of %d executions", racy, execs)
	}
	// parent writes after the spawn but after waiting for the child: ordered
	_, racy, _ = raceCount(t, func() []ThreadSpec {
		x := new(int)
		return []ThreadSpec{{Name: "P", Body: func() {
			var wg WaitGroup
			wg.Add(1)
			Go(func() { Acc(unsafe.Pointer(x), false, "child"); _ = *x; wg.Done() })
			wg.Wait()
			Acc(unsafe.Pointer(x), true, "parent-after-wait")
			*x = 1
		}}}
	})
	if racy != 0 {
		t.Errorf("write after Wait reported as racing with the finished child (%d executions)", racy)
	}
	// two children of one parent touching one word: a race in every execution
	execs, racy, _ = raceCount(t, func() []ThreadSpec {
		x := new(int)
		return []ThreadSpec{{Name: "P", Body: func() {
			Go(func() { Acc(unsafe.Pointer(x), true, "child1"); *x = 1 })
			Go(func() { Acc(unsafe.Pointer(x), true, "child2"); *x = 2 })
		}}}
	})
	if racy != execs || execs == 0 {
		t.Errorf("sibling writes: reported in %d of %d executions", racy, execs)
	}
}

// Go's RWMutex blocks new readers once a writer waits, so a thread that takes
// the read lock twice deadlocks when a writer arrives in between.
func TestRWMutexWriterPreference(t *testing.T) {
	execs, _, dead := raceCount(t, func() []ThreadSpec {
		var m RWMutex
		return []ThreadSpec{
			{Name: "R", Body: func() { m.RLock(); m.RLock(); m.RUnlock(); m.RUnlock() }},
			{Name: "W", Body: func() { m.Lock(); m.Unlock() }},
		}
	})
	if dead == 0 || dead == execs {
		t.Errorf("recursive read lock with a writer: %d deadlocks in %d executions (want some, not all)", dead, execs)
	}
	// without recursion there is never a deadlock
	execs, _, dead = raceCount(t, func() []ThreadSpec {
		var m RWMutex
		return []ThreadSpec{
			{Name: "R1", Body: func() { m.RLock(); m.RUnlock(); m.RLock(); m.RUnlock() }},
			{Name: "R2", Body: func() { m.RLock(); m.RUnlock() }},
			{Name: "W", Body: func() { m.Lock(); m.Unlock() }},
		}
	})
	if dead != 0 {
		t.Errorf("plain readers and a writer: %d deadlocks in %d executions", dead, execs)
	}
}

// Cond: a waiter that re-checks its predicate never hangs; one that does not misses a signal sent before it waits.
func TestCondModel(t *testing.T) {
	mk := func(recheck bool) func() []ThreadSpec {
		return func() []ThreadSpec {
			var mu Mutex
			c := NewCond(&mu)
			ready := false
			return []ThreadSpec{
				{Name: "W", Body: func() {
					mu.Lock()
					if recheck {
						for !ready {
							c.Wait()
						}
					} else {
						c.Wait()
					}
					mu.Unlock()
				}},
				{Name: "S", Body: func() { mu.Lock(); ready = true; c.Signal(); mu.Unlock() }},
			}
		}
	}
	execs, _, dead := raceCount(t, mk(true))
	if dead != 0 || execs < 2 {
		t.Errorf("waiter with predicate: %d deadlocks in %d executions", dead, execs)
	}
	execs, _, dead = raceCount(t, mk(false))
	if dead == 0 || dead == execs {
		t.Errorf("waiter without predicate: %d deadlocks in %d executions (want some, not all)", dead, execs)
	}
}

// Map and Once: LoadOrStore hands every caller the one stored value; Once runs its function once.
func TestMapAndOnceModel(t *testing.T) {
	bad := 0
	prog := func() ([]ThreadSpec, func(*Exec) []string) {
		var m Map
		var o Once
		runs := 0
		var got [3]any
		th := func(i int) ThreadSpec {
			return ThreadSpec{Name: "T", Body: func() {
				o.Do(func() { runs++ })
				if v, ok := m.Load("k"); ok {
					got[i] = v
					return
				}
				got[i], _ = m.LoadOrStore("k", i)
			}}
		}
		return []ThreadSpec{th(0), th(1), th(2)}, func(ex *Exec) []string {
			if runs != 1 || got[0] != got[1] || got[1] != got[2] || ex.Deadlock || len(ex.Races) > 0 {
				bad++
			}
			return nil
		}
	}
	st := Explore(prog, ExploreOpts{Bound: -1, Race: true})
	if !st.Complete || bad != 0 || st.Executions < 6 {
		t.Errorf("Map/Once model: %d bad of %d executions (complete=%v)", bad, st.Executions, st.Complete)
	}
}

// select on unbuffered channels: a receive clause meets a parked sender exactly once; a closed channel is a
// broadcast; a send clause meets a parked receiver.
func TestSelectRendezvousModel(t *testing.T) {
	bad, execs := 0, 0
	prog := func() ([]ThreadSpec, func(*Exec) []string) {
		data := make(chan int)
		done := make(chan struct{})
		var got []int
		sawDone := 0
		recvSel := func() {
			for {
				sel := Select("t", false, []SelCase{RecvCase(data), RecvCase(done)})
				if sel.Index == 0 {
					v, _ := SelRecv(sel, data)
					got = append(got, v)
					continue
				}
				sawDone++
				return
			}
		}
		return []ThreadSpec{
				{Name: "R1", Body: recvSel},
				{Name: "R2", Body: recvSel},
				{Name: "S", Body: func() { Send(data, 1, "t"); Send(data, 2, "t"); Close(done, "t") }},
			}, func(ex *Exec) []string {
				execs++
				sum := 0
				for _, v := range got {
					sum += v
				}
				if ex.Unmodelled != "" || ex.Deadlock || len(got) != 2 || sum != 3 || sawDone != 2 {
					bad++
				}
				return nil
			}
	}
	st := Explore(prog, ExploreOpts{Bound: -1, Race: true})
	if !st.Complete || bad != 0 || execs < 4 {
		t.Errorf("select receivers with a plain sender: %d bad of %d executions (complete=%v, unmodelled=%q)", bad, execs, st.Complete, st.Unmodelled)
	}
	// a select with a send clause and a plain receiver; the default branch when nobody is there
	bad, execs = 0, 0
	prog2 := func() ([]ThreadSpec, func(*Exec) []string) {
		data := make(chan int)
		sent, defaults, got := 0, 0, 0
		return []ThreadSpec{
				{Name: "S", Body: func() {
					for sent == 0 {
						sel := Select("t", true, []SelCase{SendCase(data, 7)})
						if sel.Index == 0 {
							sent++
						} else {
							defaults++
							Yield()
						}
						if defaults > 3 {
							Send(data, 7, "t")
							sent++
						}
					}
				}},
				{Name: "R", Body: func() { got = Recv(data, "t") }},
			}, func(ex *Exec) []string {
				execs++
				if ex.Unmodelled != "" || ex.Deadlock || got != 7 || sent != 1 {
					bad++
				}
				return nil
			}
	}
	st = Explore(prog2, ExploreOpts{Bound: -1, Race: true})
	if !st.Complete || bad != 0 || execs < 2 {
		t.Errorf("select sender with a plain receiver: %d bad of %d executions (complete=%v, unmodelled=%q)", bad, execs, st.Complete, st.Unmodelled)
	}
}
