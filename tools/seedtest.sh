#!/bin/bash
# tools/seedtest.sh <seed-dir> <property-id> [more ids...]
# 1. confirms in a scratch worktree (outside /repo and /verif) that the change compiles, passes the
#    repository's tests, and that the demonstration fails with it and passes without it;
# 2. applies the change to /repo, runs the quick checks of the given properties, and undoes it.
set -u
HOME_DIR=$(cd "$(dirname "$0")/.." && pwd)
SEED=$1; shift
export GOFLAGS=-mod=mod GOPROXY=off GOSUMDB=off GOTOOLCHAIN=local
# the repository's own tests in scratch worktrees use a scratch build cache that is emptied when it has grown
SCRATCH_CACHE=/tmp/verif-scratch-gocache
[ -d $SCRATCH_CACHE ] && [ "$(du -sm $SCRATCH_CACHE | cut -f1)" -gt 6000 ] && rm -rf $SCRATCH_CACHE
WT=/tmp/vt.$$
git -C /repo worktree add -q --detach $WT HEAD || exit 2
cleanup() { git -C /repo worktree remove --force $WT 2>/dev/null; }
trap cleanup EXIT
DEMO=$(head -1 $SEED/demo_test.go | grep -o 'v4/[A-Za-z0-9_/.-]*_test.go' | head -1)
[ -z "$DEMO" ] && DEMO=v4/collection/seed_demo_test.go
PKG=./$(dirname ${DEMO#v4/})
echo "== demo placed at $DEMO (package $PKG)"
cp $SEED/demo_test.go $WT/$DEMO
( cd $WT/v4 && export GOCACHE=$SCRATCH_CACHE && go test -vet=off -count=1 $PKG 2>&1 | tail -3 ) > /tmp/seedtest.clean.$$ 2>&1
grep -q "^ok" /tmp/seedtest.clean.$$ && echo "demo on clean tree: PASS" || { echo "demo on clean tree: FAIL (bad demo)"; cat /tmp/seedtest.clean.$$; }
rm -f $WT/$DEMO
if ! git -C $WT apply $SEED/patch.diff 2>/dev/null; then
  BASE=$(python3 -c "import json,sys; print(json.load(open('$SEED/meta.json')).get('base_commit',''))" 2>/dev/null)
  [ -n "$BASE" ] || { echo "patch does not apply"; exit 3; }
  echo "patch does not apply to HEAD; using the commit it was written against ($BASE)"
  git -C $WT checkout -q --detach $BASE && git -C $WT apply $SEED/patch.diff || { echo "patch does not apply"; exit 3; }
fi
( cd $WT/v4 && export GOCACHE=$SCRATCH_CACHE && go build ./... && go test -vet=off -count=1 ./... 2>&1 | tail -6 ) > /tmp/seedtest.suite.$$ 2>&1
grep -q "FAIL\|cannot\|error" /tmp/seedtest.suite.$$ && { echo "suite with change: FAIL (not a valid seed)"; cat /tmp/seedtest.suite.$$; } || echo "suite with change: PASS"
cp $SEED/demo_test.go $WT/$DEMO
( cd $WT/v4 && export GOCACHE=$SCRATCH_CACHE && timeout 300 go test -vet=off -count=1 $PKG 2>&1 | tail -15 ) > /tmp/seedtest.demo.$$ 2>&1
grep -q "^ok" /tmp/seedtest.demo.$$ && echo "demo with change: PASS (demo does not show the bug)" || echo "demo with change: FAIL (as intended)"
rm -f /tmp/seedtest.*.$$
# now the checks, against the scratch worktree with the change applied (VERIF_REPO), evidence/replays to a scratch dir
rm -f $WT/$DEMO
OUT=/tmp/seedout.$$; mkdir -p $OUT
for id in "$@"; do
  cd "$HOME_DIR" && VERIF_REPO=$WT/v4 VERIF_OUT=$OUT timeout 1200 ./run.sh $id ${SEED_TIER:-quick} > /tmp/seedrun.$$ 2>&1; rc=$?
  echo "== check $id exit=$rc: $(grep -c '^VIOLATION' /tmp/seedrun.$$) violation signatures"
  grep -A2 "signature:" /tmp/seedrun.$$ | cut -c1-240 | head -9
  tail -1 /tmp/seedrun.$$
done
rm -rf /tmp/seedrun.$$ $OUT
