#!/bin/bash
# tools/benigntest.sh <diff> [ids...]
# Applies a behaviour-preserving change (written by an independent agent) to a scratch worktree of
# /repo HEAD, confirms that the repository's tests pass with it, and runs the quick checks
# (default: all twenty) against that worktree. Any VIOLATION is a candidate false alarm to classify.
set -u
HOME_DIR=$(cd "$(dirname "$0")/.." && pwd)
DIFF=$1; shift
IDS=${@:-C01 C02 C03 C04 C05 C06 C07 C08 C09 C10 C11 C12 C13 C14 C15 C16 C17 C18 C19 C20}
export GOFLAGS=-mod=mod GOPROXY=off GOSUMDB=off GOTOOLCHAIN=local
# the repository's own tests in scratch worktrees use a scratch build cache that is emptied when it has grown
SCRATCH_CACHE=/tmp/verif-scratch-gocache
[ -d $SCRATCH_CACHE ] && [ "$(du -sm $SCRATCH_CACHE | cut -f1)" -gt 6000 ] && rm -rf $SCRATCH_CACHE
WT=/tmp/bt.$$
git -C /repo worktree add -q --detach $WT HEAD || exit 2
OUT=/tmp/benignout.$$; mkdir -p $OUT
cleanup() { git -C /repo worktree remove --force $WT 2>/dev/null; git -C /repo worktree remove --force $WT.base 2>/dev/null; rm -rf $OUT /tmp/benignrun.$$ /tmp/benignbase.$$; }
trap cleanup EXIT
if ! git -C $WT apply $DIFF 2>/dev/null; then
  BASE=$(python3 -c "import json; print(json.load(open('$(dirname $DIFF)/meta.json')).get('base_commit',''))" 2>/dev/null)
  [ -n "$BASE" ] || { echo "patch does not apply"; exit 3; }
  # the newest commit of the repository to which the change still applies (a base that predates later fixes
  # shows the defects those fixes repaired, which says nothing about the change)
  OK=""
  for C in $(git -C /repo rev-list HEAD ^$BASE) $BASE; do
    git -C $WT checkout -q --detach $C && git -C $WT apply --check $DIFF 2>/dev/null && { OK=$C; break; }
  done
  [ -n "$OK" ] || { echo "patch does not apply"; exit 3; }
  echo "patch does not apply to HEAD; using $OK (written against $BASE)"
  git -C $WT apply $DIFF || exit 3
fi
( cd $WT/v4 && export GOCACHE=$SCRATCH_CACHE && go build ./... && go test -vet=off -count=1 ./... 2>&1 | tail -6 ) > /tmp/benignrun.$$ 2>&1
grep -q "FAIL\|cannot\|error" /tmp/benignrun.$$ && { echo "suite with change: FAIL"; cat /tmp/benignrun.$$; exit 3; } || echo "suite with change: PASS"
for id in $IDS; do
  cd "$HOME_DIR" && VERIF_REPO=$WT/v4 VERIF_OUT=$OUT timeout 1800 ./run.sh $id ${TIER:-quick} > /tmp/benignrun.$$ 2>&1; rc=$?
  echo "== $id exit=$rc $(grep -c '^VIOLATION' /tmp/benignrun.$$) violations | $(tail -1 /tmp/benignrun.$$ | cut -c1-200)"
  if [ $rc -ne 0 ]; then grep -B1 -A3 "signature:" /tmp/benignrun.$$ | cut -c1-300 | head -40; grep -v "^VIOLATION\|signature" /tmp/benignrun.$$ | tail -5 | cut -c1-300; fi
  if [ $rc -ne 0 ] && [ -n "${OK:-}" ]; then
    # the change was applied to an older commit: the same check on that commit WITHOUT the change tells
    # whether the violations belong to the old base (defects repaired since) or to the change
    [ -d $WT.base ] || git -C /repo worktree add -q --detach $WT.base $OK
    VERIF_REPO=$WT.base/v4 VERIF_OUT=$OUT timeout 1800 ./run.sh $id ${TIER:-quick} > /tmp/benignbase.$$ 2>&1
    if [ "$(grep 'signature:' /tmp/benignrun.$$ | sed 's/ ([0-9]* cases)//' | sort)" = "$(grep 'signature:' /tmp/benignbase.$$ | sed 's/ ([0-9]* cases)//' | sort)" ]; then
      echo "   $id: the same signatures on commit $OK without the change: they belong to the old base, not to the change"
    else
      echo "   $id: signatures DIFFER from those of commit $OK without the change"
    fi
  fi
done
