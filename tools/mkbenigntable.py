#!/usr/bin/env python3
"""Regenerates the table at the end of DESIGN.md section 12 from benign/*/meta.json (field "result" holds what tools/benigntest.sh reported)."""
import json, glob, os
root = os.path.dirname(os.path.dirname(os.path.abspath(__file__)))
rows = []
for m in sorted(glob.glob(root + '/benign/*/meta.json')):
    d = json.load(open(m))
    rows.append('| %s | %s | %s | %s |' % (d['id'], d['area'], d['change'], d.get('result', 'not run yet')))
p = root + '/DESIGN.md'
s = open(p).read()
head = '| id | area | change | result of the twenty quick checks |\n|---|---|---|---|\n'
i = s.index(head)
j = s.find('\n## ', i)
tail = s[j:] if j >= 0 else '\n'
s = s[:i] + head + '\n'.join(rows) + '\n' + tail
open(p, 'w').write(s)
print(len(rows), 'rows')
