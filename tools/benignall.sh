#!/bin/bash
# runs every stored behaviour-preserving change against all twenty quick checks; one line per (change, check) that is not clean
cd "$(dirname "$0")/.."
for d in benign/*/; do
  id=$(basename $d)
  out=$(tools/benigntest.sh "$PWD/benign/$id/patch.diff" 2>&1 | grep -v WARNING)
  bad=$(echo "$out" | grep "^== \|^   C[0-9]*: \|^patch does not apply to HEAD" | grep -v "exit=0 0 violations")
  echo "$id: $(echo "$out" | grep -c '^== .*exit=0 0 violations') of 20 checks clean$( [ -n "$bad" ] && echo; echo "$bad" | cut -c1-200)"
done
