#!/usr/bin/env python3
"""Regenerates MANIFEST.json from the table below (claimed checks) and properties.jsonl."""
import json, os
root = os.path.dirname(os.path.dirname(os.path.abspath(__file__)))
props = [json.loads(l)['id'] for l in open(os.path.join(root, 'properties.jsonl'))]

SCHED = "stateless model checking of the real code under a cooperative scheduler (all schedules up to a preemption bound, unbounded where it completes) with per-execution race detection"
SEQX = "explicit-state search over the real objects (BFS, every operation in every reachable state, private-state dump as key) against a reference model"
ENUM = "bounded-exhaustive enumeration of a structured input universe on the real code against a reference model"

claimed = {
 "C01": dict(engine="seqx", tech=SEQX, ref="§3/C01",
   text="Every (reachable state, operation) pair of List and Array up to the size bound, for five element types, is executed on the real code and compared with a Go-slice model, including all out-of-range/zero/negative indices, inverted ranges, empty and receiver-aliased operands and every random answer of ShuffleValues; non-termination is decided by a fuel counter. Constructor operands (Concatenate, MakeFromSequence) are guarded through every later transition; observers are called after every replayed step so that cached state is populated along each path. A size ladder (every size 0..40, 130 thorough, x 8 shapes x 22 operations with boundary arguments on fresh objects, and grow/shrink chains through every size on one object) reaches size-dependent code. \"Unchanged\" is judged on what a caller can observe; a private state that differs is a new state of the search.",
   note="bounded sizes (4 quick / 6 thorough) for the full search and 3-value alphabets; the model admits sets of outcomes where the statement is silent (DESIGN §3/C01)"),
 "C02": dict(engine="seqx", tech=SEQX, ref="§3/C02",
   text="All subsets of a 6/7-value universe are reached through every insertion order and every operation is applied in every state of the real Set, for the default, a reversed and a coarse caller-supplied collator and for int, string, []int, any and set-of-set elements, against a sorted-slice model; strict ascent and GetIndex/GetValue agreement are re-checked through the API after every transition. Constructors are also given set sources ordered by another collator.",
   note="universes of 6/7 values; Set[any] order taken from the collator (decided by C07)"),
 "C03": dict(engine="seqx", tech=SEQX, ref="§3/C03",
   text="Every reachable ordered content over 3 insertable keys of the real Catalog times every operation (all key sequences up to length 2/3, every random answer of ShuffleValues), seven key types including pointer keys with equal content; the private key index and the private order are compared on every state in addition to the API-level agreement of all views. What a constructor was given (association objects, a source catalog) is guarded through every later transition.",
   note="4-key universes, 2 values; MakeFromMap order unconstrained"),
 "C14": dict(engine="seqx", tech=SEQX, ref="§3/C14",
   text="The real Map is driven in lock-step with a Go map through every reachable content over 3 insertable keys and every operation (all key sequences), four constructors with repeated keys in every position, and snapshot-then-mutate histories; unordered views are compared as multisets. Maps built from maps and catalogs are guarded against shared storage.",
   note="key types string, int, rune, any"),
 "C17": dict(engine="seqx", tech=SEQX, ref="§3/C17",
   text="Every (size, slot, second-iterator slot) state of the real iterator times every move including ToSlot(k) for all k in -n-2..n+2, on either of two iterators over one collection, plus snapshot scenarios (take iterator, mutate, walk both ways) for all seven kinds and every mutating operation. An iterator taken after a mutation must show the collection as it is now.",
   note="sizes 0..4/6; ToSlot(k<-size) admits 0 or 1"),
 "C04": dict(engine="vsched", tech=SCHED+" + brute-force FIFO linearizability of every history", ref="§3/C04",
   text="All interleavings (at synchronisation granularity) of ~55 small closed client programs on one shared real queue are enumerated; every execution is checked for data races (vector clocks over the instrumenter's access log), for FIFO linearizability with pending operations, for the back-pressure bound and for the literal reading of the observers. Programs include refilling after a completed RemoveAll, close/RemoveAll/reuse histories and capacity 0; programs whose threads start after a completed RemoveAll, observers that look twice; all interleavings are covered by sleep sets + DPOR where that completes, else preemption bound 2. A send is a read and a close a write of the channel for the race detector, as in Go's runtime. Auxiliary (sampling, adds reports only): the terminating programs run free under Go's race detector.",
   note="sequentially consistent interleavings; races detected on struct fields, package variables, maps, captured locals and slice elements with pure indices; 2-5 threads; RemoveAll and close-vs-send findings listed in known_findings.json"),
 "C05": dict(engine="vsched", tech=SCHED+"; blocking decided by the scheduler, never by a clock", ref="§3/C05",
   text="The same exhaustive schedule exploration judged by the stuck-call oracle (a parked call is legitimate only if the linearized final state does not permit it to proceed), well-formed pipelines must terminate with everything consumed, and the constructor ladder N=0..64 runs under the scheduler so that a self-deadlock is a scheduler fact. The constructor ladder covers the class-level, module-level and parsed forms for N = 0..64; unbuffered channels are modelled as a rendezvous.",
   note="same bounds as C04"),
 "C06": dict(engine="vsched", tech=SCHED+"; sleep-set partial-order reduction covers all interleavings where it completes", ref="§3/C06",
   text="Every interleaving (one execution per Mazurkiewicz trace, by sleep sets) of {caller, feeder, library helper goroutines, one reader per output} for Fork, Split and Split+Join with fan-out 2..3, capacity 1..2 and stream lengths 0..2 (larger ones in the thorough tier) runs on the real code; each output stream is compared with the expected stream, every thread must finish, the caller's wait group must return to zero, nothing may arrive after closure, and every execution is race-checked. When the caller's Wait() returns no library goroutine may be unfinished (scheduler fact).",
   note="sequentially consistent interleavings at synchronisation granularity; the stress clause (sampling) is not a deciding step"),
 "C07": dict(engine="enum", tech=ENUM+" (all pairs and all triples of per-type boundary universes and of a structured mixed universe) + explicit-state search over the collator's private state", ref="§3/C07",
   text="The full RankValues matrix over every boundary universe (bool, every integer width, floats incl. +-0/Inf/NaN/subnormals, a complex grid incl. signed zeros/Inf/NaN, runes, strings, slices, Go maps in every insertion order, typed collections) and over a structured `any` universe of ~300 nested values is computed on the real collator and checked for reflexivity, mirror symmetry, transitivity on all triples and the natural/lexicographic/key-then-value reference order; rebuilt copies must rank Equal; call histories incl. depth-limit panics must not change later answers. RankValues must be Equal exactly for structurally equal values of the any universe; typed float/complex slices and lists with NaN, nested two-key maps, nil leaves and windows of one backing array (equal-content slices sharing storage, also one level down) are part of the universes.",
   note="only the canonical dynamic types are mixed under the any collator; cross-type order is not specified (laws only)"),
 "C08": dict(engine="enum", tech=ENUM+" (pairs, triples, rebuilt copies, every single-point mutation from a value AST, self-containing values) + explicit-state search over the collator's private state", ref="§3/C08",
   text="The full CompareValues matrix over the C07 universes: equivalence laws on all pairs/triples, agreement with RankValues==Equal, agreement with an independent structural equality on the value AST, equal rebuilt copies (maps and sets in reversed insertion order), every single-point mutation unequal, self-containing values end in the documented depth-limit panic and leave the collator usable. Self-containing values at even and odd depths (catalog inside one or three lists, map in slices, stack in itself), compared with themselves and with separately built twins: both must end with the depth-limit panic.",
   note="same universe assumptions as C07"),
 "C09": dict(engine="enum", tech=ENUM+"; the ranking function and the random source are environments whose every answer sequence is enumerated", ref="§3/C09",
   text="Every array of length 0..9 over 4 values (tagged by position) under four rankers, every answer sequence of an arbitrary ranking function for lengths 0..6, a deterministic ladder of every length to 600 in five shapes, every random answer sequence of ShuffleValues up to length 5, and the Array/List/Catalog methods against the sorter, all on the real sorter; termination by fuel. One sorter instance through a history of sorts (earlier arrays must not change) and every sequence of three reordering calls on one Array, List and Catalog; catalogs whose keys are distinct but rank Equal (mixed integer kinds in any, pointers to equal values, NaN).",
   note="the sampling clause (random arrays up to 5000) is replaced by the deterministic ladder"),
 "C15": dict(engine="enum", tech=ENUM, ref="§3/C15",
   text="All pairs of subsets of a 6-value universe (and the same object twice) times And/Or/Sans/Xor for int and string, all pairs over smaller universes for []int, any, sets of sets and for reversed/coarse collators, on the real class functions; operand dumps compared before/after and results and operands mutated afterwards to expose shared state. Operands ordered differently (same equality); results handed out earlier must survive later calls; all ordered pairs of a family of 15 larger sets over 0..47 (sizes 0,1,16,17,20..48; touching, nested, disjoint ranges; with and without the zero value) for int and string. Operand purity is judged on what a caller can observe.",
   note="operands with different collators are not generated"),
 "C16": dict(engine="enum", tech=ENUM, ref="§3/C16",
   text="All pairs of lists up to length 4 over 3 values, all pairs of catalogs over ordered subsets of 4 keys with operand-specific values (incl. zero values under present keys), every catalog over 3 keys times every key sequence up to length 3 over 4 keys; the expected result is computed from the documented law; purity by observable views and subsequent mutation. Merge and Extract again over pointer, interface (mixed integer kinds), float (signed zeros) and struct keys, where == and structural equality differ.",
   note="int values; string keys for the exhaustive part"),
 "C18": dict(engine="enum+vsched", tech=ENUM+"; stateless model checking (all interleavings) for the sequence returned by Fork/Split", ref="§3/C18",
   text="The full aliasing matrix: every constructor and accessor of the seven kinds that accepts or returns a Go array, Go map or sequence, sizes 0..4, every position, three mutation modes, observed through private-state dumps; every bulk operation with the receiver or a view of it as operand compared with the call on an independent copy. Collection sources of every kind (same-kind and cross-kind) in both directions. The sequence of output queues returned by Queue.Fork/Split is modified by the caller (at once, or after the first value) under every schedule of caller, feeder, helper and readers.",
   note="Catalog association objects are live handles by design (not treated as aliasing)"),
 "C19": dict(engine="vsched", tech=SCHED+"; all interleavings by sleep sets for the script pairs (operations on different objects commute)", ref="§3/C19",
   text="All pairs of thirteen operation families (build, mutate, search, sort via collection, sort via Sorter.Make, compare/rank, String(), FormatValue, ParseSource with an own and with the class notation, a rejected ParseSource, shuffle, iterate) on disjoint instances, for int and []int elements, run in two threads (three in the thorough tier) under the scheduler; every thread's result must equal the script run alone and every execution is race-checked with vector clocks over the instrumenter's access log. First-use programs call the generic class accessors on reset registries with every registry lock a scheduling point (elision off) and must return one class per type. Derived-instances programs (copy, Or result, Concatenate result, GetValues view, iterator, Merge result, two default sorters) used from two threads; a first-use program mints a new Go array type per execution so that per-type caches are written during the explored execution. Auxiliary (sampling, adds reports only): the same script bodies run free in three goroutines under Go's race detector, which also sees memory inside the standard library. Pairs that involve the scanner, parser or formatter classes are explored a second time from a cold start (package-level variables put back to their initial values before every execution).",
   note="2-3 goroutines instead of 2..16; memory outside the source-level access log (whole-slice operations, stdlib internals) is race-checked only by the auxiliary free-running pass"),
 "C20": dict(engine="enum", tech=ENUM+"; every call runs as a one-thread program under the scheduler", ref="§3/C20",
   text="The cross product of the eight universal constructors, every documented argument form, notation argument absent/first/last, seven element/key types and contents of size 0..20 is compared differentially with the class-level constructor or with ParseSource; Association(k,v) for all 49 type pairs. Zero-valued keys and values for Association; Set(collator, data) with collators coarser than or opposite to the natural order in every argument form; the source form called again after an earlier result for the same source was changed (nested collections included).",
   note="source text produced by FormatValue on the class-level collection"),
 "C10": dict(engine="enum+seqx", tech=ENUM+" + explicit-state search over the formatter's private state; parses run as two-thread programs under the scheduler", ref="§3/C10",
   text="A float ladder over every decimal exponent -324..308 (3 mantissas, both signs), a 12x12 complex grid, all 64-bit integer boundaries, every rune 0..0x2ff plus boundary/astral runes, all strings of length <=2 over 10 characters incl. invalid UTF-8, each in value and key positions; all seven kinds at sizes 0..40 and nested in each other to depth 3; chains up to the depth limit: FormatValue -> ParseSource -> independent structural comparison -> text fixpoint. Deeper-than-limit and self-containing values must terminate (fuel) with the elision mark. Every call history over successful, failing and cyclic values on one formatter/notation must give a fresh formatter's output. Elision must not depend on what was formatted before: [X,Y] and [Y,X] must consist of the same lines for every pair of too-deep, cyclic and just-fitting values.",
   note="canonical dynamic types for value equality; Queues within default capacity"),
 "C11": dict(engine="enum+vsched", tech=ENUM+" (grammar derivations generated together with their meaning) + stateless model checking of the scanner/parser goroutine pair", ref="§3/C11",
   text="Every literal alternative and boundary literal (~150) in nine syntactic positions, and all collections over representative literals (seven contexts, empty/inline/multi-line forms, values and associations with repeated keys, nested to depth 2/3) are parsed on the real code and compared with the expected value tree produced by the generator; literals without an exact representation admit a stated set of outcomes. Documents shorter and longer than the token queue are parsed under every schedule of the two goroutines up to a preemption bound with race detection: the result must not depend on the schedule. Both empty forms with all seven contexts; keys that really repeat (first position, last value). Pairs of simultaneous parses (also of Sets that order nested collections) and a parser used again after a rejection are explored too, from warm and from cold package-level state. Auxiliary (sampling, adds reports only): simultaneous parses run free under Go's race detector.",
   note="Set items are same-type literals; preemption bound 2 (1 for the 34-token document) quick, 3/2 thorough"),
 "C12": dict(engine="enum+vsched", tech=ENUM+"; every parse runs as a two-thread program (parser + scanner) under the cooperative scheduler", ref="§3/C12",
   text="All strings of <=4 lexemes over an 18-lexeme alphabet (<=5 when starting with '['; <=5/<=6 thorough), all strings of <=3 raw characters, every prefix, single-character deletion, insertion and substitution, context swap and illegal-character injection of a 16-document corpus (incl. documents with more than 16 tokens after every position) and a nesting ladder are parsed on the real scanner+parser; outcome must be a value or a textual diagnostic whose token header matches the source at the reported line/column; a scanner thread still parked after the call is a leak by scheduler fact; non-termination by fuel. One parser instance reused after failing calls must behave like a fresh one; Set/Catalog/List items nested up to 24 deep; non-ASCII text before the error point; tokens long in bytes but short in characters (and the reverse) as the unexpected token; sources of 1..70 one-rune tokens around the token queue's capacity; at the instant ParseSource returns or panics no goroutine it started may be alive.",
   note="the fuzzing clause is replaced by the larger deterministic enumeration; nesting ladder stops at 233 (2000 thorough) levels"),
 "C13": dict(engine="seqx", tech=SEQX, ref="§3/C13",
   text="Every reachable stack content for capacities 1..4 (7 thorough) times every operation, plus all constructors with 0..33 initial values followed by pushes past capacity and pops past empty, on the real Stack against a slice model with a capacity. Stacks copied from stacks are guarded against shared storage.",
   note="two pushed values; capacities as listed"),
}

checks = []
for pid in props:
    if pid not in claimed:
        continue
    c = claimed[pid]
    checks.append({
        "property_id": pid,
        "quick_cmd": f"./run.sh {pid} quick",
        "thorough_cmd": f"./run.sh {pid} thorough",
        "evidence_file": f"/verif/evidence/{pid}.json",
        "replay_cmd_template": "./run.sh replay {path}",
        "engine": c["engine"],
        "level_claimed": {"category": "model_checking", "text": c["text"], "design_ref": "DESIGN.md " + c["ref"]},
        "level_note": c["note"],
        "technique": c["tech"],
    })
m = {
 "version": 1,
 "setup_cmd": "./setup.sh",
 "hooks": {
  "guard": "none - no hook commits: instrumentation (sync/channel/go/rand shims, fuel ticks, access log) is generated from /repo's working tree at check time by cmd/vinstr and applied with `go build -overlay`; /repo is never written",
  "enable": "./run.sh <id> <tier> runs bin/vinstr over /repo/v4, then `go build -overlay <tmp>/overlay.json ./cmd/vcheck`",
  "baseline_off_cmd": "cd /repo/v4 && GOFLAGS=-mod=mod GOPROXY=off GOSUMDB=off GOTOOLCHAIN=local go test -vet=off -count=1 ./...",
  "source_commits": [],
  "add_only": True,
 },
 "engines": [
  {"name": "vinstr", "path": "cmd/vinstr", "serves_properties": props, "kind_free_text": "source instrumenter producing a go build overlay (scheduler shims, fuel, access log)"},
  {"name": "vsched", "path": "_rt", "serves_properties": ["C04", "C05", "C06", "C11", "C12", "C19"], "kind_free_text": "cooperative scheduler + DFS schedule explorer with preemption bounding + vector-clock race detector"},
  {"name": "seqx", "path": "engine/seqx", "serves_properties": ["C01", "C02", "C03", "C13", "C14", "C17"], "kind_free_text": "explicit-state BFS over real objects keyed by a private-state dump"},
  {"name": "enum", "path": "checks", "serves_properties": ["C07", "C08", "C09", "C10", "C11", "C12", "C15", "C16", "C18", "C20"], "kind_free_text": "bounded-exhaustive input and answer-sequence enumeration"},
 ],
 "checks": checks,
 "not_applicable": [{"property_id": p, "reason": "check not built yet (work in progress; see DESIGN.md section 9)"} for p in props if p not in claimed],
 "notes": "fix: commits in /repo are listed in known_findings.json (fixed entries suppress nothing). Exit 2 from a check means the machinery could not run (never a verdict).",
}
json.dump(m, open(os.path.join(root, 'MANIFEST.json'), 'w'), indent=1)
print("claimed:", [c["property_id"] for c in checks])
