#!/usr/bin/env python3
"""Regenerates the table at the end of DESIGN.md section 11 from seeded/*/meta.json."""
import json, glob, os, re
root = os.path.dirname(os.path.dirname(os.path.abspath(__file__)))
rows = []
for m in sorted(glob.glob(root + '/seeded/*/meta.json')):
    d = json.load(open(m))
    det = d['detected_by']
    if d.get('missed_at_first') and '(missed at first)' not in det:
        det += ' **(missed at first)**'
    rows.append('| %s | %s | %s | %s |' % (d['id'], d['change'], d['needs_to_manifest'], det))
p = root + '/DESIGN.md'
s = open(p).read()
head = '| id | change | needs | detected by |\n|---|---|---|---|\n'
i = s.index(head)
j = s.find('\n## ', i)   # the table ends where the next section starts
tail = s[j:] if j >= 0 else '\n'
s = s[:i] + head + '\n'.join(rows) + '\n' + tail
open(p, 'w').write(s)
print(len(rows), 'rows')
