#!/bin/bash
# runs every seeded change against its own property's quick check; prints one line per seed
cd "$(dirname "$0")/.."
for d in seeded/*/; do
  id=$(basename $d); prop=${id%-*}
  out=$(tools/seedtest.sh "$PWD/seeded/$id" $prop 2>&1)
  nviol=$(echo "$out" | grep -o "exit=[0-9]*: [0-9]* violation" | head -1)
  suite=$(echo "$out" | grep -c "suite with change: PASS")
  demo=$(echo "$out" | grep -c "demo with change: FAIL")
  echo "$id suite_ok=$suite demo_fails=$demo check: $nviol"
done
