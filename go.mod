module verif

go 1.23

require (
	github.com/craterdog/go-collection-framework/v4 v4.0.0
	golang.org/x/tools v0.29.0
)

require (
	golang.org/x/mod v0.22.0 // indirect
	golang.org/x/sync v0.10.0 // indirect
)

replace github.com/craterdog/go-collection-framework/v4 => /repo/v4
