package c01

import (
	"fmt"
	"sort"

	age "github.com/craterdog/go-collection-framework/v4/agent"
	col "github.com/craterdog/go-collection-framework/v4/collection"
	rt "github.com/craterdog/go-collection-framework/v4/verifrt"
	"verif/checks/common"
	"verif/engine"
)

// The explicit-state search covers every history up to a small size. Code that
// depends on the size (growth policies, run lengths of the sorter, thresholds)
// is reached by this second enumeration: every size 0..maxN x every shape x
// every operation of a fixed list with boundary arguments, each on a fresh
// object and compared with the slice model, plus grow/shrink chains that pass
// through every size on one object.

type ladderCase struct {
	Kind  string `json:"kind"`
	N     int    `json:"n"`
	Shape string `json:"shape"`
	Op    string `json:"op"`
}

func shapes(n int) map[string][]int {
	mk := func(f func(i int) int) []int {
		a := make([]int, n)
		for i := range a {
			a[i] = f(i)
		}
		return a
	}
	m := map[string][]int{
		"ascending":  mk(func(i int) int { return i + 1 }),
		"descending": mk(func(i int) int { return n - i }),
		"rotated":    mk(func(i int) int { return (i+1)%max(n, 1) + 1 }),
		"organ-pipe": mk(func(i int) int { return min(i, n-1-i) + 1 }),
		"two-values": mk(func(i int) int { return 2 - i%2 }),
		"all-equal":  mk(func(i int) int { return 7 }),
	}
	if n >= 2 {
		a := mk(func(i int) int { return i + 1 })
		a[n-1], a[n-2] = a[n-2], a[n-1]
		m["last-two-swapped"] = a
		b := mk(func(i int) int { return i + 1 })
		b[0], b[1] = b[1], b[0]
		m["first-two-swapped"] = b
	}
	return m
}

func eqInts(a, b []int) bool {
	if len(a) != len(b) {
		return false
	}
	for i := range a {
		if a[i] != b[i] {
			return false
		}
	}
	return true
}

func ladder(r *engine.Rec, array bool, maxN int) {
	kind := "List"
	if array {
		kind = "Array"
	}
	L := col.List[int](common.N())
	A := col.Array[int](common.N())
	build := func(vals []int) seqLike[int] {
		if array {
			return A.MakeFromArray(append([]int(nil), vals...))
		}
		return L.MakeFromArray(append([]int(nil), vals...))
	}
	type opT struct {
		name string
		list bool // List only
		ok   func(n int) bool
		// run applies the operation to obj and to the model slice m; it returns both results
		run func(obj seqLike[int], m []int) (res any, want any, state []int)
	}
	asc := func(m []int) []int { s := append([]int(nil), m...); sort.Ints(s); return s }
	ops := []opT{
		{"SortValues", false, nil, func(o seqLike[int], m []int) (any, any, []int) { o.SortValues(); return nil, nil, asc(m) }},
		{"SortValuesWithRanker(descending)", false, nil, func(o seqLike[int], m []int) (any, any, []int) {
			o.SortValuesWithRanker(func(a, b int) age.Rank {
				switch {
				case a > b:
					return age.LesserRank
				case a < b:
					return age.GreaterRank
				}
				return age.EqualRank
			})
			s := asc(m)
			for i, j := 0, len(s)-1; i < j; i, j = i+1, j-1 {
				s[i], s[j] = s[j], s[i]
			}
			return nil, nil, s
		}},
		{"ReverseValues", false, nil, func(o seqLike[int], m []int) (any, any, []int) {
			o.ReverseValues()
			s := append([]int(nil), m...)
			for i, j := 0, len(s)-1; i < j; i, j = i+1, j-1 {
				s[i], s[j] = s[j], s[i]
			}
			return nil, nil, s
		}},
		{"GetValues(1,-1)", false, func(n int) bool { return n > 0 }, func(o seqLike[int], m []int) (any, any, []int) {
			return o.GetValues(1, -1).AsArray(), append([]int(nil), m...), m
		}},
		{"GetValues(mid,-2)", false, func(n int) bool { return n >= 3 }, func(o seqLike[int], m []int) (any, any, []int) {
			k := len(m)/2 + 1
			if k > len(m)-1 {
				k = len(m) - 1
			}
			return o.GetValues(k, -2).AsArray(), append([]int(nil), m[k-1:len(m)-1]...), m
		}},
		{"SetValues(mid,[91,92])", false, func(n int) bool { return n >= 4 }, func(o seqLike[int], m []int) (any, any, []int) {
			k := len(m) / 2
			o.SetValues(k, L.MakeFromArray([]int{91, 92}))
			s := append([]int(nil), m...)
			s[k-1], s[k] = 91, 92
			return nil, nil, s
		}},
		{"SetValue(-1,93)", false, func(n int) bool { return n >= 1 }, func(o seqLike[int], m []int) (any, any, []int) {
			o.SetValue(-1, 93)
			s := append([]int(nil), m...)
			s[len(s)-1] = 93
			return nil, nil, s
		}},
		{"GetIndex(last value)", true, func(n int) bool { return n >= 1 }, func(o seqLike[int], m []int) (any, any, []int) {
			want := 0
			for i, x := range m {
				if x == m[len(m)-1] {
					want = i + 1
					break
				}
			}
			return any(o).(col.ListLike[int]).GetIndex(m[len(m)-1]), want, m
		}},
		{"GetIndex(absent)", true, nil, func(o seqLike[int], m []int) (any, any, []int) {
			return any(o).(col.ListLike[int]).GetIndex(-5), 0, m
		}},
		{"ContainsAll([first,last,first,last])", true, func(n int) bool { return n >= 1 }, func(o seqLike[int], m []int) (any, any, []int) {
			arg := []int{m[0], m[len(m)-1], m[0], m[len(m)-1]}
			return any(o).(col.ListLike[int]).ContainsAll(L.MakeFromArray(arg)), true, m
		}},
		{"ContainsAll(receiver twice over)", true, func(n int) bool { return n >= 1 }, func(o seqLike[int], m []int) (any, any, []int) {
			arg := append(append([]int(nil), m...), m...)
			return any(o).(col.ListLike[int]).ContainsAll(L.MakeFromArray(arg)), true, m
		}},
		{"ContainsAny([absent,last])", true, func(n int) bool { return n >= 1 }, func(o seqLike[int], m []int) (any, any, []int) {
			return any(o).(col.ListLike[int]).ContainsAny(L.MakeFromArray([]int{-5, m[len(m)-1]})), true, m
		}},
		{"InsertValue(0,94)", true, nil, func(o seqLike[int], m []int) (any, any, []int) {
			any(o).(col.ListLike[int]).InsertValue(0, 94)
			return nil, nil, append([]int{94}, m...)
		}},
		{"InsertValue(mid,94)", true, nil, func(o seqLike[int], m []int) (any, any, []int) {
			k := len(m) / 2
			any(o).(col.ListLike[int]).InsertValue(uint(k), 94)
			return nil, nil, append(append(append([]int(nil), m[:k]...), 94), m[k:]...)
		}},
		{"InsertValue(n,94)", true, nil, func(o seqLike[int], m []int) (any, any, []int) {
			any(o).(col.ListLike[int]).InsertValue(uint(len(m)), 94)
			return nil, nil, append(append([]int(nil), m...), 94)
		}},
		{"InsertValues(mid,receiver)", true, nil, func(o seqLike[int], m []int) (any, any, []int) {
			k := len(m) / 2
			any(o).(col.ListLike[int]).InsertValues(uint(k), o)
			return nil, nil, append(append(append([]int(nil), m[:k]...), m...), m[k:]...)
		}},
		{"AppendValues(receiver)", true, nil, func(o seqLike[int], m []int) (any, any, []int) {
			any(o).(col.ListLike[int]).AppendValues(o)
			return nil, nil, append(append([]int(nil), m...), m...)
		}},
		{"RemoveValue(1)", true, func(n int) bool { return n >= 1 }, func(o seqLike[int], m []int) (any, any, []int) {
			return any(o).(col.ListLike[int]).RemoveValue(1), m[0], append([]int(nil), m[1:]...)
		}},
		{"RemoveValue(-1)", true, func(n int) bool { return n >= 1 }, func(o seqLike[int], m []int) (any, any, []int) {
			return any(o).(col.ListLike[int]).RemoveValue(-1), m[len(m)-1], append([]int(nil), m[:len(m)-1]...)
		}},
		{"RemoveValue(mid)", true, func(n int) bool { return n >= 1 }, func(o seqLike[int], m []int) (any, any, []int) {
			k := len(m)/2 + 1
			return any(o).(col.ListLike[int]).RemoveValue(k), m[k-1], append(append([]int(nil), m[:k-1]...), m[k:]...)
		}},
		{"RemoveValues(2,-2)", true, func(n int) bool { return n >= 3 }, func(o seqLike[int], m []int) (any, any, []int) {
			return any(o).(col.ListLike[int]).RemoveValues(2, -2).AsArray(), append([]int(nil), m[1:len(m)-1]...), []int{m[0], m[len(m)-1]}
		}},
		{"RemoveAll;AppendValue(95)", true, nil, func(o seqLike[int], m []int) (any, any, []int) {
			l := any(o).(col.ListLike[int])
			l.RemoveAll()
			l.AppendValue(95)
			return nil, nil, []int{95}
		}},
	}
	check := func(c ladderCase, o seqLike[int], want []int) bool {
		got := o.AsArray()
		if !eqInts(got, want) || o.GetSize() != len(want) || o.IsEmpty() != (len(want) == 0) {
			r.Violation(kind+" "+c.Op+" wrong resulting sequence (size ladder)", fmt.Sprintf("%+v: got %v want %v", c, got, want), c)
			return false
		}
		it := o.GetIterator()
		for i := range want {
			if !it.HasNext() || it.GetNext() != want[i] || o.GetValue(i+1) != want[i] || o.GetValue(i-len(want)) != want[i] {
				r.Violation(kind+" "+c.Op+": iterator or GetValue disagree with the array view (size ladder)", fmt.Sprintf("%+v: position %d of %v", c, i+1, want), c)
				return false
			}
		}
		return true
	}
	for n := 0; n <= maxN; n++ {
		for sname, vals := range shapes(n) {
			for _, op := range ops {
				if (op.list && array) || (op.ok != nil && !op.ok(n)) {
					continue
				}
				c := ladderCase{Kind: kind, N: n, Shape: sname, Op: op.name}
				o := build(vals)
				var res, want any
				var state []int
				out := rt.Protect(fuelBudget*10, func() { res, want, state = op.run(o, append([]int(nil), vals...)) })
				r.Evals++
				r.Transitions++
				if out.Fuel {
					r.Violation(kind+" "+op.name+" does not terminate (size ladder)", fmt.Sprintf("%+v", c), c)
					continue
				}
				if out.Panicked {
					r.Violation(kind+" "+op.name+" panics on a valid call (size ladder)", fmt.Sprintf("%+v: %s", c, out.Value), c)
					continue
				}
				if want != nil {
					var okRes bool
					if w, isArr := want.([]int); isArr {
						g, _ := res.([]int)
						okRes = eqInts(g, w)
					} else {
						okRes = res == want
					}
					if !okRes {
						r.Violation(kind+" "+op.name+" wrong result (size ladder)", fmt.Sprintf("%+v: got %v want %v", c, res, want), c)
						continue
					}
				}
				check(c, o, state)
			}
		}
	}
	// two collections of one element type sorted one after the other, every size to 140 (what a sorter keeps
	// between calls - a scratch buffer, a pool - shows as the second sort rewriting the first collection)
	crossN := max(maxN, 140)
	for n := 2; n <= crossN; n++ {
		for _, m := range []int{n, n - 1, (n + 1) / 2} {
			c := ladderCase{Kind: kind, N: n, Shape: fmt.Sprintf("then a second collection of %d values", m), Op: "SortValues on each"}
			xs := make([]int, n)
			for i := range xs {
				xs[i] = (n - i) * 2 // descending, even
			}
			ys := make([]int, m)
			for i := range ys {
				ys[i] = 100001 + (m-i)*2 // descending, odd, disjoint from xs
			}
			X, Y := build(xs), build(ys)
			var view []int
			out := rt.Protect(fuelBudget*20, func() {
				X.SortValues()
				view = X.AsArray()
				Y.SortValues()
			})
			r.Evals++
			r.Transitions++
			if out.Panicked || out.Fuel {
				r.Violation(kind+" SortValues fails (two collections, size ladder)", fmt.Sprintf("%+v: %s", c, out.Value), c)
				break
			}
			wantX := make([]int, n)
			for i := range wantX {
				wantX[i] = (i + 1) * 2
			}
			wantY := make([]int, m)
			for i := range wantY {
				wantY[i] = 100001 + (i+1)*2
			}
			switch {
			case !eqInts(X.AsArray(), wantX):
				r.Violation(kind+" SortValues on one collection changes another collection of the same element type (size ladder)", fmt.Sprintf("%+v: the first collection is now %v", c, X.AsArray()), c)
			case !eqInts(view, wantX):
				r.Violation(kind+": an array view taken before another collection was sorted has changed (size ladder)", fmt.Sprintf("%+v: %v", c, view), c)
			case !eqInts(Y.AsArray(), wantY):
				r.Violation(kind+" SortValues wrong resulting sequence for the second of two collections (size ladder)", fmt.Sprintf("%+v: %v", c, Y.AsArray()), c)
			default:
				continue
			}
			break
		}
	}
	if array {
		return
	}
	// chains through every size on one object
	chain := func(name string, step func(l col.ListLike[int], m []int, i int) []int, steps int) {
		l := L.Make()
		var m []int
		for i := 0; i < steps; i++ {
			c := ladderCase{Kind: kind, N: i, Shape: "chain", Op: name}
			var nm []int
			out := rt.Protect(fuelBudget*10, func() { nm = step(l, m, i) })
			r.Evals++
			r.Transitions++
			if out.Panicked || out.Fuel {
				r.Violation(kind+" chain "+name+" fails (size ladder)", fmt.Sprintf("step %d: %s", i, out.Value), c)
				return
			}
			m = nm
			if !check(c, any(l).(seqLike[int]), m) {
				return
			}
		}
	}
	up := maxN
	chain("append up, remove from the front down, append again", func(l col.ListLike[int], m []int, i int) []int {
		switch {
		case i < up:
			l.AppendValue(i)
			return append(append([]int(nil), m...), i)
		case i < 2*up:
			l.RemoveValue(1)
			return append([]int(nil), m[1:]...)
		}
		l.AppendValue(-i)
		return append(append([]int(nil), m...), -i)
	}, 2*up+5)
	chain("insert in the middle up, remove from the back down", func(l col.ListLike[int], m []int, i int) []int {
		if i < up {
			k := len(m) / 2
			l.InsertValue(uint(k), i)
			return append(append(append([]int(nil), m[:k]...), i), m[k:]...)
		}
		l.RemoveValue(-1)
		return append([]int(nil), m[:len(m)-1]...)
	}, 2*up)
	chain("grow by appending the list to itself, shrink by removing the middle half", func(l col.ListLike[int], m []int, i int) []int {
		if len(m) == 0 {
			l.AppendValue(i)
			return []int{i}
		}
		if len(m) < up {
			l.AppendValues(l)
			return append(append([]int(nil), m...), m...)
		}
		a, b := len(m)/4+1, 3*len(m)/4
		l.RemoveValues(a, b)
		return append(append([]int(nil), m[:a-1]...), m[b:]...)
	}, 24)
}
