package c01

import (
	"fmt"

	age "github.com/craterdog/go-collection-framework/v4/agent"
	col "github.com/craterdog/go-collection-framework/v4/collection"
	rt "github.com/craterdog/go-collection-framework/v4/verifrt"
	"verif/checks/common"
	"verif/engine"
)

// keptResults: what a List or Array handed out earlier - an iterator, an array
// view, the sequence returned by GetValues or RemoveValues, a copy - is the
// caller's: every later operation on the collection "touches exactly the
// addressed positions" of the collection and nothing of what was handed out
// before. For every size 0..5, every kind of handle (with every range), and
// every sequence of one or two later operations, each handle still shows what
// it showed when it was obtained.

type keptCase struct {
	Kind   string   `json:"kind"`
	Size   int      `json:"size"`
	Handle string   `json:"handle"`
	Ops    []string `json:"later_operations"`
}

type keptOp struct {
	name  string
	list  func(l col.ListLike[int])
	array func(a col.ArrayLike[int]) // nil: not available on an Array
}

func keptOps(n int) []keptOp {
	ops := []keptOp{
		{"AppendValue(91)", func(l col.ListLike[int]) { l.AppendValue(91) }, nil},
		{"AppendValue(92)", func(l col.ListLike[int]) { l.AppendValue(92) }, nil},
		{"AppendValues([93 94])", func(l col.ListLike[int]) { l.AppendValues(col.List[int](common.N()).MakeFromArray([]int{93, 94})) }, nil},
		{"InsertValue(0, 95)", func(l col.ListLike[int]) { l.InsertValue(0, 95) }, nil},
		{"RemoveAll", func(l col.ListLike[int]) { l.RemoveAll() }, nil},
		{"SortValues", func(l col.ListLike[int]) { l.SortValues() }, func(a col.ArrayLike[int]) { a.SortValues() }},
		{"ReverseValues", func(l col.ListLike[int]) { l.ReverseValues() }, func(a col.ArrayLike[int]) { a.ReverseValues() }},
	}
	if n > 0 {
		ops = append(ops,
			keptOp{"SetValue(1, 96)", func(l col.ListLike[int]) { l.SetValue(1, 96) }, func(a col.ArrayLike[int]) { a.SetValue(1, 96) }},
			keptOp{"SetValue(-1, 97)", func(l col.ListLike[int]) { l.SetValue(-1, 97) }, func(a col.ArrayLike[int]) { a.SetValue(-1, 97) }},
			keptOp{"RemoveValue(-1)", func(l col.ListLike[int]) { l.RemoveValue(-1) }, nil},
			keptOp{"RemoveValue(1)", func(l col.ListLike[int]) { l.RemoveValue(1) }, nil},
			keptOp{"InsertValue(size, 98)", func(l col.ListLike[int]) { l.InsertValue(uint(l.GetSize()), 98) }, nil},
		)
	}
	if n > 1 {
		ops = append(ops,
			keptOp{"SetValues(1, [81 82])", func(l col.ListLike[int]) { l.SetValues(1, col.List[int](common.N()).MakeFromArray([]int{81, 82})) },
				func(a col.ArrayLike[int]) { a.SetValues(1, col.List[int](common.N()).MakeFromArray([]int{81, 82})) }},
			keptOp{"RemoveValues(2, -1)", func(l col.ListLike[int]) { l.RemoveValues(2, -1) }, nil},
			keptOp{"RemoveValues(1, 1)", func(l col.ListLike[int]) { l.RemoveValues(1, 1) }, nil},
		)
	}
	return ops
}

func walk(it age.IteratorLike[int]) []int {
	out := []int{}
	it.ToStart()
	for n := 0; it.HasNext() && n < 100; n++ {
		out = append(out, it.GetNext())
	}
	return out
}

func keptResults(r *engine.Rec) {
	N := common.N
	maxN := 4
	if r.Tier == "thorough" {
		maxN = 6
	}
	cases := 0
	for _, kind := range []string{"List", "Array"} {
		for n := 0; n <= maxN; n++ {
			vals := make([]int, n)
			for i := range vals {
				vals[i] = 10 * (n - i) // descending, so that sorting changes something
			}
			// handles: name -> (obtain it from the fresh collection, possibly changing the collection; read it)
			type handle struct {
				name string
				get  func(l col.ListLike[int], a col.ArrayLike[int]) func() string
			}
			hs := []handle{
				{"iterator", func(l col.ListLike[int], a col.ArrayLike[int]) func() string {
					var it age.IteratorLike[int]
					if l != nil {
						it = l.GetIterator()
					} else {
						it = a.GetIterator()
					}
					return func() string { return fmt.Sprint(walk(it)) }
				}},
				{"iterator already moved", func(l col.ListLike[int], a col.ArrayLike[int]) func() string {
					var it age.IteratorLike[int]
					if l != nil {
						it = l.GetIterator()
					} else {
						it = a.GetIterator()
					}
					if it.HasNext() {
						it.GetNext()
					}
					return func() string { return fmt.Sprint(walk(it)) }
				}},
				{"AsArray", func(l col.ListLike[int], a col.ArrayLike[int]) func() string {
					var arr []int
					if l != nil {
						arr = l.AsArray()
					} else {
						arr = a.AsArray()
					}
					return func() string { return fmt.Sprint(arr) }
				}},
				{"copy (MakeFromSequence)", func(l col.ListLike[int], a col.ArrayLike[int]) func() string {
					var cp any
					if l != nil {
						cp = col.List[int](N()).MakeFromSequence(l)
					} else {
						cp = col.Array[int](N()).MakeFromSequence(a)
					}
					return func() string { return common.View(cp) }
				}},
			}
			for first := 1; first <= n; first++ {
				for last := first; last <= n; last++ {
					first, last := first, last
					hs = append(hs, handle{fmt.Sprintf("GetValues(%d, %d)", first, last), func(l col.ListLike[int], a col.ArrayLike[int]) func() string {
						var s col.Sequential[int]
						if l != nil {
							s = l.GetValues(first, last)
						} else {
							s = a.GetValues(first, last)
						}
						return func() string { return common.View(s) }
					}})
					if kind == "List" {
						hs = append(hs, handle{fmt.Sprintf("RemoveValues(%d, %d)", first, last), func(l col.ListLike[int], a col.ArrayLike[int]) func() string {
							s := l.RemoveValues(first, last)
							return func() string { return common.View(s) }
						}}, handle{fmt.Sprintf("RemoveValues(%d, %d)", first-n-1, last-n-1), func(l col.ListLike[int], a col.ArrayLike[int]) func() string {
							s := l.RemoveValues(first-n-1, last-n-1)
							return func() string { return common.View(s) }
						}})
					}
				}
			}
			ops := keptOps(n)
			for _, h := range hs {
				var seqs [][]int
				for i := range ops {
					seqs = append(seqs, []int{i})
					for j := range ops {
						seqs = append(seqs, []int{i, j})
					}
				}
				for _, sq := range seqs {
					var names []string
					usable := true
					for _, i := range sq {
						names = append(names, ops[i].name)
						if kind == "Array" && ops[i].array == nil {
							usable = false
						}
					}
					if !usable {
						continue
					}
					c := keptCase{kind, n, h.name, names}
					if !r.Wanted(c) {
						continue
					}
					cases++
					var before, after string
					out := rt.Protect(fuelBudget*4, func() {
						var l col.ListLike[int]
						var a col.ArrayLike[int]
						if kind == "List" {
							l = col.List[int](N()).MakeFromArray(append([]int(nil), vals...))
						} else {
							a = col.Array[int](N()).MakeFromArray(append([]int(nil), vals...))
						}
						read := h.get(l, a)
						before = read()
						for _, i := range sq {
							// a later operation may be out of range for what the handle left of the list: not judged here
							rt.Protect(fuelBudget, func() {
								if l != nil {
									ops[i].list(l)
								} else {
									ops[i].array(a)
								}
							})
						}
						after = read()
					})
					r.Evals++
					switch {
					case out.Panicked || out.Fuel:
						// obtaining the handle itself is decided by the search units
					case before != after:
						r.Violation("something handed out earlier ("+handleClass(h.name)+") changes when the collection is changed later", fmt.Sprintf("%+v: was %s, now %s", c, before, after), c)
					}
				}
			}
		}
	}
	r.States += int64(cases)
	r.Distinct += int64(cases)
	r.Transitions += r.Evals
	r.Sample(keptCase{"List", 4, "RemoveValues(3, 4)", []string{"AppendValue(91)"}})
}

func handleClass(name string) string {
	for i, ch := range name {
		if ch == '(' {
			return name[:i]
		}
	}
	return name
}
