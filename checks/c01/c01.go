// Package c01: List and Array behave as an ordinal-indexed sequence under
// every history. Explicit-state search over the real objects against a Go
// slice (DESIGN §3/C01).
package c01

import (
	"fmt"
	"math"
	"reflect"
	"sort"
	"time"

	age "github.com/craterdog/go-collection-framework/v4/agent"
	col "github.com/craterdog/go-collection-framework/v4/collection"
	rt "github.com/craterdog/go-collection-framework/v4/verifrt"
	"verif/checks/common"
	"verif/engine"
	"verif/engine/dump"
	"verif/engine/seqx"
)

// Op is one operation of the alphabet (JSON-serialisable for replays).
type Op struct {
	K string `json:"k"`
	I int    `json:"i,omitempty"`
	J int    `json:"j,omitempty"`
	V int    `json:"v,omitempty"` // index into the value alphabet
	S int    `json:"s,omitempty"` // operand sequence selector
	R []int  `json:"r,omitempty"` // answers of the random source (ShuffleValues)
}

func (o Op) String() string {
	return fmt.Sprintf("%s(i=%d,j=%d,v=%d,s=%d,r=%v)", o.K, o.I, o.J, o.V, o.S, o.R)
}

type cfg[V any] struct {
	name  string
	alpha []V
	less  func(a, b V) bool // natural order, nil = use the collator as ranker
	array bool              // Array (fixed size) instead of List
}

const fuelBudget = 400000

// operand sequences: 0 empty, 1 [a0], 2 [a1,a0], 3 receiver itself, 4 receiver.GetValues(1,n), 5 a Set, 6 [a2,a2,a1]
const nOperands = 7

func operand[V any](c *cfg[V], sel int, recv col.Sequential[V], model []V) (seq col.Sequential[V], content []V, ok bool) {
	L := col.List[V](common.N())
	switch sel {
	case 0:
		return L.Make(), nil, true
	case 1:
		v := []V{c.alpha[0]}
		return L.MakeFromArray(v), v, true
	case 2:
		v := []V{c.alpha[1], c.alpha[0]}
		return L.MakeFromArray(v), v, true
	case 3:
		return recv, append([]V(nil), model...), true
	case 4:
		if len(model) == 0 {
			return nil, nil, false
		}
		acc := recv.(col.Accessible[V])
		return acc.GetValues(1, len(model)), append([]V(nil), model...), true
	case 5:
		s := col.Set[V](common.N()).MakeFromArray([]V{c.alpha[1], c.alpha[0]})
		return s, s.AsArray(), true
	case 6:
		v := []V{c.alpha[2], c.alpha[2], c.alpha[1]}
		return col.Array[V](common.N()).MakeFromArray(v), v, true
	}
	return nil, nil, false
}

func eqSlices[V any](a, b []V) bool {
	if len(a) == 0 && len(b) == 0 {
		return true
	}
	return reflect.DeepEqual(a, b)
}

func norm(i, n int) (int, bool) {
	if i >= 1 && i <= n {
		return i, true
	}
	if i <= -1 && i >= -n {
		return i + n + 1, true
	}
	return 0, false
}

type expect[V any] struct {
	mustPanic bool
	mayPanic  bool // {panic, return as described}
	result    any  // expected result when returning (nil = none)
	state     []V  // expected state when returning
	permOnly  bool // state must be a permutation of `state` (shuffle)
	sorted    func(a, b V) bool
}

type seqLike[V any] interface {
	col.Sequential[V]
	col.Accessible[V]
	col.Updatable[V]
	col.Sortable[V]
}

// model computes the admissible outcomes of op in state m.
func model[V any](c *cfg[V], op Op, m []V, opnd []V, eq func(a, b V) bool) expect[V] {
	n := len(m)
	cp := func() []V { return append([]V(nil), m...) }
	val := func() V { return c.alpha[op.V%len(c.alpha)] }
	switch op.K {
	case "GetValue":
		p, ok := norm(op.I, n)
		if !ok {
			return expect[V]{mustPanic: true}
		}
		return expect[V]{result: m[p-1], state: cp()}
	case "GetValues", "RemoveValues":
		pf, ok1 := norm(op.I, n)
		pl, ok2 := norm(op.J, n)
		if !ok1 || !ok2 {
			return expect[V]{mustPanic: true}
		}
		if pf > pl {
			return expect[V]{mayPanic: true, result: []V{}, state: cp()}
		}
		res := append([]V(nil), m[pf-1:pl]...)
		if op.K == "GetValues" {
			return expect[V]{result: res, state: cp()}
		}
		return expect[V]{result: res, state: append(append([]V(nil), m[:pf-1]...), m[pl:]...)}
	case "SetValue":
		p, ok := norm(op.I, n)
		if !ok {
			return expect[V]{mustPanic: true}
		}
		s := cp()
		s[p-1] = val()
		return expect[V]{state: s}
	case "SetValues":
		if len(opnd) == 0 {
			// nothing to write: the statement is silent about an in-range index; an index outside the sequence panics
			if _, ok := norm(op.I, n); !ok {
				return expect[V]{mustPanic: true}
			}
			return expect[V]{mayPanic: true, state: cp()}
		}
		p, ok := norm(op.I, n)
		if !ok || p+len(opnd)-1 > n {
			return expect[V]{mustPanic: true}
		}
		s := cp()
		copy(s[p-1:], opnd)
		return expect[V]{state: s}
	case "InsertValue":
		if op.I < 0 || op.I > n {
			return expect[V]{mustPanic: true}
		}
		s := append(append(append([]V(nil), m[:op.I]...), val()), m[op.I:]...)
		return expect[V]{state: s}
	case "InsertValues":
		if op.I < 0 || op.I > n {
			return expect[V]{mustPanic: true} // "a call whose ... slot ... lies outside the sequence panics" - whatever it was asked to insert
		}
		s := append(append(append([]V(nil), m[:op.I]...), opnd...), m[op.I:]...)
		return expect[V]{state: s}
	case "AppendValue":
		return expect[V]{state: append(cp(), val())}
	case "AppendValues":
		return expect[V]{state: append(cp(), opnd...)}
	case "RemoveValue":
		p, ok := norm(op.I, n)
		if !ok {
			return expect[V]{mustPanic: true}
		}
		return expect[V]{result: m[p-1], state: append(append([]V(nil), m[:p-1]...), m[p:]...)}
	case "RemoveAll":
		return expect[V]{state: []V{}}
	case "GetIndex", "ContainsValue":
		idx := 0
		for i, x := range m {
			if eq(x, val()) {
				idx = i + 1
				break
			}
		}
		if op.K == "GetIndex" {
			return expect[V]{result: idx, state: cp()}
		}
		return expect[V]{result: idx > 0, state: cp()}
	case "ContainsAny", "ContainsAll":
		anyv, allv := false, true
		for _, o := range opnd {
			found := false
			for _, x := range m {
				if eq(x, o) {
					found = true
				}
			}
			anyv = anyv || found
			allv = allv && found
		}
		if op.K == "ContainsAny" {
			return expect[V]{result: anyv, state: cp()}
		}
		return expect[V]{result: allv, state: cp()}
	case "ReverseValues":
		s := cp()
		for i, j := 0, len(s)-1; i < j; i, j = i+1, j-1 {
			s[i], s[j] = s[j], s[i]
		}
		return expect[V]{state: s}
	case "ShuffleValues":
		return expect[V]{state: cp(), permOnly: true}
	}
	return expect[V]{state: cp()}
}

func isPerm[V any](a, b []V) bool {
	if len(a) != len(b) {
		return false
	}
	used := make([]bool, len(b))
outer:
	for _, x := range a {
		for j, y := range b {
			if !used[j] && reflect.DeepEqual(x, y) {
				used[j] = true
				continue outer
			}
		}
		return false
	}
	return true
}

// apply runs op on the real object; returns result and outcome.
func apply[V any](c *cfg[V], op Op, obj seqLike[V], opnd col.Sequential[V], ranker age.RankingFunction[V]) (res any, out rt.Outcome) {
	val := c.alpha[op.V%len(c.alpha)]
	list, _ := any(obj).(col.ListLike[V])
	ri := 0
	rt.RandHook = func(max int64) int64 {
		if ri < len(op.R) {
			ri++
			return int64(op.R[ri-1]) % max
		}
		return 0
	}
	defer func() { rt.RandHook = nil }()
	out = rt.Protect(fuelBudget, func() {
		switch op.K {
		case "GetValue":
			res = obj.GetValue(op.I)
		case "GetValues":
			res = obj.GetValues(op.I, op.J).AsArray()
		case "SetValue":
			obj.SetValue(op.I, val)
		case "SetValues":
			obj.SetValues(op.I, opnd)
		case "InsertValue":
			list.InsertValue(uint(op.I), val)
		case "InsertValues":
			list.InsertValues(uint(op.I), opnd)
		case "AppendValue":
			list.AppendValue(val)
		case "AppendValues":
			list.AppendValues(opnd)
		case "RemoveValue":
			res = list.RemoveValue(op.I)
		case "RemoveValues":
			res = list.RemoveValues(op.I, op.J).AsArray()
		case "RemoveAll":
			list.RemoveAll()
		case "GetIndex":
			res = list.GetIndex(val)
		case "ContainsValue":
			res = list.ContainsValue(val)
		case "ContainsAny":
			res = list.ContainsAny(opnd)
		case "ContainsAll":
			res = list.ContainsAll(opnd)
		case "SortValues":
			obj.SortValues()
		case "SortReverse":
			obj.SortValuesWithRanker(func(a, b V) age.Rank {
				switch ranker(a, b) {
				case age.LesserRank:
					return age.GreaterRank
				case age.GreaterRank:
					return age.LesserRank
				}
				return age.EqualRank
			})
		case "ReverseValues":
			obj.ReverseValues()
		case "ShuffleValues":
			obj.ShuffleValues()
		case "AsArray":
			res = obj.AsArray()
		case "Iterate":
			it := obj.GetIterator()
			var a []V
			for it.HasNext() {
				a = append(a, it.GetNext())
			}
			res = a
		case "GetSize":
			res = obj.GetSize()
		case "IsEmpty":
			res = obj.IsEmpty()
		}
	})
	return
}

// guard is an operand of a constructor that must stay independent of the constructed sequence
type guard[V any] struct {
	seq  col.Sequential[V]
	want []V
}

func construct[V any](c *cfg[V], op Op) (obj seqLike[V], m []V, out rt.Outcome) {
	obj, m, _, out = constructG(c, op)
	return
}

func constructG[V any](c *cfg[V], op Op) (obj seqLike[V], m []V, guards []guard[V], out rt.Outcome) {
	mk := func(k int) []V {
		v := make([]V, k)
		for i := range v {
			v[i] = c.alpha[(i+op.V)%len(c.alpha)]
		}
		return v
	}
	out = rt.Protect(fuelBudget, func() {
		if c.array {
			A := col.Array[V](common.N())
			switch op.K {
			case "Make":
				obj = A.Make(uint(op.I))
				m = make([]V, op.I)
			case "MakeFromArray":
				m = mk(op.I)
				obj = A.MakeFromArray(mk(op.I))
			case "MakeFromSequence":
				m = mk(op.I)
				obj = A.MakeFromSequence(col.List[V](common.N()).MakeFromArray(mk(op.I)))
			}
			return
		}
		L := col.List[V](common.N())
		switch op.K {
		case "Make":
			obj = L.Make()
		case "MakeFromArray":
			m = mk(op.I)
			obj = L.MakeFromArray(mk(op.I))
		case "MakeFromSequence":
			m = mk(op.I)
			src := col.Array[V](common.N()).MakeFromArray(mk(op.I))
			obj = L.MakeFromSequence(src)
			guards = append(guards, guard[V]{src, mk(op.I)})
		case "Concatenate":
			a, b := mk(op.I), mk(op.J)
			m = append(append([]V(nil), a...), b...)
			la, lb := L.MakeFromArray(a), L.MakeFromArray(b)
			obj = L.Concatenate(la, lb)
			guards = append(guards, guard[V]{la, a}, guard[V]{lb, b})
		}
	})
	return
}

func classIdx(i, n int) string {
	switch {
	case i == 0:
		return "zero"
	case i > n:
		return ">size"
	case i < -n:
		return "<-size"
	case i < 0:
		return "negative"
	}
	return "positive"
}

func opClass(op Op, n int, opndLen int) string {
	switch op.K {
	case "GetValue", "SetValue", "RemoveValue":
		return fmt.Sprintf("%s index=%s", op.K, classIdx(op.I, n))
	case "GetValues", "RemoveValues":
		return fmt.Sprintf("%s first=%s last=%s", op.K, classIdx(op.I, n), classIdx(op.J, n))
	case "InsertValue":
		if op.I > n {
			return "InsertValue slot>size"
		}
		return "InsertValue slot<=size"
	case "InsertValues", "SetValues":
		e := "nonempty"
		if opndLen == 0 {
			e = "empty"
		}
		al := ""
		if op.S == 3 || op.S == 4 {
			al = " aliased"
		}
		if op.K == "InsertValues" {
			s := "slot<=size"
			if op.I > n {
				s = "slot>size"
			}
			return fmt.Sprintf("InsertValues %s operand=%s%s", s, e, al)
		}
		fit := "fits"
		if p, ok := norm(op.I, n); !ok || p+opndLen-1 > n {
			fit = "nofit"
		}
		return fmt.Sprintf("SetValues index=%s %s operand=%s%s", classIdx(op.I, n), fit, e, al)
	case "AppendValues", "ContainsAny", "ContainsAll":
		if op.S == 3 || op.S == 4 {
			return op.K + " aliased"
		}
	}
	return op.K
}

func run[V any](r *engine.Rec, c *cfg[V], maxN int) {
	collator := age.Collator[V]().Make()
	eq := func(a, b V) bool { return reflect.DeepEqual(a, b) }
	ranker := collator.RankValues
	if c.less != nil {
		ranker = func(a, b V) age.Rank {
			switch {
			case c.less(a, b):
				return age.LesserRank
			case c.less(b, a):
				return age.GreaterRank
			}
			return age.EqualRank
		}
	}
	kind := "List"
	if c.array {
		kind = "Array"
	}
	name := kind + "[" + c.name + "]"
	s := &seqx.Search[Op]{Name: name, MaxSize: maxN}
	// constructors
	s.Inits = append(s.Inits, Op{K: "Make"})
	for k := 0; k <= 3; k++ {
		for v := 0; v < len(c.alpha); v++ {
			if k == 0 && v > 0 {
				continue
			}
			s.Inits = append(s.Inits, Op{K: "MakeFromArray", I: k, V: v}, Op{K: "MakeFromSequence", I: k, V: v})
			if c.array {
				continue
			}
			for j := 0; j <= 2; j++ {
				s.Inits = append(s.Inits, Op{K: "Concatenate", I: k, J: j, V: v})
			}
		}
	}
	if c.array {
		for k := 1; k <= maxN; k++ {
			s.Inits = append(s.Inits, Op{K: "Make", I: k})
		}
		for k := 4; k <= maxN; k++ {
			s.Inits = append(s.Inits, Op{K: "MakeFromArray", I: k, V: 0})
		}
	}
	s.Ops = func(n int) []Op {
		var ops []Op
		na := len(c.alpha)
		for i := -n - 2; i <= n+2; i++ {
			ops = append(ops, Op{K: "GetValue", I: i})
			for v := 0; v < na; v++ {
				ops = append(ops, Op{K: "SetValue", I: i, V: v})
			}
			for sI := 0; sI < nOperands; sI++ {
				ops = append(ops, Op{K: "SetValues", I: i, S: sI})
			}
			for j := -n - 2; j <= n+2; j++ {
				ops = append(ops, Op{K: "GetValues", I: i, J: j})
				if !c.array {
					ops = append(ops, Op{K: "RemoveValues", I: i, J: j})
				}
			}
			if !c.array {
				ops = append(ops, Op{K: "RemoveValue", I: i})
			}
		}
		// the ends of the integer range (a slot is unsigned: -1 and MinInt stand for the two largest magnitudes)
		for _, i := range []int{math.MinInt, math.MinInt + 1, math.MaxInt} {
			ops = append(ops, Op{K: "GetValue", I: i}, Op{K: "SetValue", I: i}, Op{K: "GetValues", I: i, J: 1}, Op{K: "GetValues", I: 1, J: i}, Op{K: "SetValues", I: i, S: 1})
			if !c.array {
				ops = append(ops, Op{K: "RemoveValue", I: i}, Op{K: "RemoveValues", I: 1, J: i})
			}
		}
		if !c.array {
			for _, slot := range []int{-1, math.MinInt, math.MaxInt} {
				ops = append(ops, Op{K: "InsertValue", I: slot}, Op{K: "InsertValues", I: slot, S: 1}, Op{K: "InsertValues", I: slot, S: 0})
			}
			for slot := 0; slot <= n+2; slot++ {
				for v := 0; v < na; v++ {
					ops = append(ops, Op{K: "InsertValue", I: slot, V: v})
				}
				for sI := 0; sI < nOperands; sI++ {
					ops = append(ops, Op{K: "InsertValues", I: slot, S: sI})
				}
			}
			for v := 0; v < na; v++ {
				ops = append(ops, Op{K: "AppendValue", V: v}, Op{K: "GetIndex", V: v}, Op{K: "ContainsValue", V: v})
			}
			for sI := 0; sI < nOperands; sI++ {
				ops = append(ops, Op{K: "AppendValues", S: sI}, Op{K: "ContainsAny", S: sI}, Op{K: "ContainsAll", S: sI})
			}
			ops = append(ops, Op{K: "RemoveAll"})
		}
		ops = append(ops, Op{K: "SortValues"}, Op{K: "SortReverse"}, Op{K: "ReverseValues"},
			Op{K: "AsArray"}, Op{K: "Iterate"}, Op{K: "GetSize"}, Op{K: "IsEmpty"})
		// ShuffleValues under every answer sequence of the random source
		if n <= 4 {
			total := 1
			for i := 0; i < n; i++ {
				total *= n
			}
			for code := 0; code < total; code++ {
				r := make([]int, n)
				x := code
				for i := range r {
					r[i] = x % n
					x /= n
				}
				ops = append(ops, Op{K: "ShuffleValues", R: r})
			}
		} else {
			ops = append(ops, Op{K: "ShuffleValues", R: make([]int, n)})
		}
		return ops
	}
	// A bystander: a second collection of the same class, built by the same operations over a rotated value
	// alphabet. What is kept per class (shared by all instances of one element type) instead of per instance
	// shows as an operation on one collection changing the other.
	rot := *c
	rot.alpha = append(append([]V(nil), c.alpha[1:]...), c.alpha[0])
	replayOn := func(cc *cfg[V], path []Op) (obj seqLike[V], m []V, ok bool) {
		var out rt.Outcome
		obj, m, _, out = constructG(cc, path[0])
		if out.Panicked {
			return nil, nil, false
		}
		for _, p := range path[1:] {
			opnd, content, okk := operand[V](cc, p.S, obj, m)
			if !okk {
				return nil, nil, false
			}
			exp := model(cc, p, m, content, eq)
			_, o := apply(cc, p, obj, opnd, ranker)
			if o.Fuel {
				return nil, nil, false
			}
			if o.Panicked {
				continue
			}
			if exp.permOnly || p.K == "SortValues" || p.K == "SortReverse" {
				m = obj.AsArray()
			} else {
				m = exp.state
			}
		}
		return obj, m, true
	}
	s.Exec = func(path []Op, op Op) seqx.Step {
		cs := seqx.Case[Op]{Search: name, Path: path, Op: op}
		viol := func(sig, detail string) seqx.Step {
			r.Violation(name+" "+sig, fmt.Sprintf("%s\npath: %v\nop: %v", detail, path, op), cs)
			return seqx.Step{}
		}
		if len(path) == 0 {
			obj, m, out := construct(c, op)
			if out.Panicked {
				r.Outcome("ctor-panic")
				return viol("constructor "+op.K+" "+failKind(out), out.Value)
			}
			if !eqSlices(obj.AsArray(), m) || obj.GetSize() != len(m) {
				return viol("constructor "+op.K+" wrong contents", fmt.Sprintf("got %v want %v", obj.AsArray(), m))
			}
			r.Outcome("ctor")
			return seqx.Step{Key: ctorKey(op) + dump.Dump(obj), Size: len(m), Expand: true}
		}
		// rebuild
		obj, m, guards, out := constructG(c, path[0])
		if out.Panicked {
			return seqx.Step{}
		}
		for _, p := range path[1:] {
			opnd, content, ok := operand[V](c, p.S, obj, m)
			if !ok {
				return seqx.Step{}
			}
			exp := model(c, p, m, content, eq)
			_, o := apply(c, p, obj, opnd, ranker)
			// observe after every replayed step, so that anything the object caches is populated along the path
			rt.Protect(fuelBudget, func() {
				obj.AsArray()
				obj.GetSize()
				it := obj.GetIterator()
				for it.HasNext() {
					it.GetNext()
				}
			})
			if o.Panicked {
				continue // the state is unchanged (was checked when this transition was first executed)
			}
			if exp.permOnly || p.K == "SortValues" || p.K == "SortReverse" {
				m = obj.AsArray()
			} else {
				m = exp.state
			}
		}
		n := len(m)
		by, bm, okBy := replayOn(&rot, path)
		if okBy && !eqSlices(obj.AsArray(), m) {
			return viol("building and using another "+kind+" of the same element type changes this one", fmt.Sprintf("got %v want %v (the other one holds %v)", obj.AsArray(), m, bm))
		}
		opnd, content, ok := operand[V](c, op.S, obj, m)
		if !ok {
			return seqx.Step{}
		}
		before := dump.Dump(obj)
		exp := model(c, op, m, content, eq)
		res, o := apply(c, op, obj, opnd, ranker)
		r.Max("fuel_ticks", o.Ticks)
		class := opClass(op, n, len(content))
		after := dump.Dump(obj)
		if o.Fuel {
			r.Outcome("nonterminating")
			return viol(class+" does not terminate", "fuel exhausted")
		}
		if o.Panicked {
			r.Outcome("panic")
			if !exp.mustPanic && !exp.mayPanic {
				return viol(class+" panics on a valid call", o.Value)
			}
			// "leaves the sequence unchanged": what a caller can observe, not the private representation
			if got := obj.AsArray(); !eqSlices(got, m) || obj.GetSize() != len(m) {
				return viol(class+" panics but changes the sequence", fmt.Sprintf("before %v\nafter  %v", m, got))
			}
			// private state that differs (and is not observable yet) is a new state of the search
			return seqx.Step{Key: ctorKey(path[0]) + after, Size: n, Expand: after != before}
		}
		r.Outcome("return")
		if exp.mustPanic {
			return viol(class+" returns normally instead of panicking", fmt.Sprintf("state before %v, after %v, result %v", m, obj.AsArray(), res))
		}
		got := obj.AsArray()
		switch {
		case op.K == "SortValues" || op.K == "SortReverse":
			if !isPerm(got, m) {
				return viol(class+" loses or invents values", fmt.Sprintf("before %v after %v", m, got))
			}
			for i := 0; i+1 < len(got); i++ {
				rk := ranker(got[i], got[i+1])
				if (op.K == "SortValues" && rk == age.GreaterRank) || (op.K == "SortReverse" && rk == age.LesserRank) {
					return viol(class+" result not ordered", fmt.Sprintf("before %v after %v", m, got))
				}
			}
			if c.less != nil && op.K == "SortValues" {
				want := append([]V(nil), m...)
				sort.SliceStable(want, func(i, j int) bool { return c.less(want[i], want[j]) })
				if !eqSlices(got, want) {
					return viol(class+" differs from the natural order", fmt.Sprintf("got %v want %v", got, want))
				}
			}
			exp.state = got
		case exp.permOnly:
			if !isPerm(got, m) {
				return viol(class+" is not a permutation", fmt.Sprintf("before %v after %v answers %v", m, got, op.R))
			}
			exp.state = got
		default:
			if !eqSlices(got, exp.state) {
				return viol(class+" wrong resulting sequence", fmt.Sprintf("before %v operand %v: got %v want %v", m, content, got, exp.state))
			}
		}
		if exp.result != nil {
			okRes := reflect.DeepEqual(res, exp.result)
			if a, isArr := exp.result.([]V); isArr {
				b, _ := res.([]V)
				okRes = eqSlices(a, b)
			}
			if !okRes {
				return viol(class+" wrong result", fmt.Sprintf("state %v: got %v want %v", m, res, exp.result))
			}
		}
		switch op.K {
		case "AsArray", "Iterate":
			a, _ := res.([]V)
			if !eqSlices(a, m) {
				return viol(op.K+" wrong view", fmt.Sprintf("got %v want %v", a, m))
			}
		case "GetSize":
			if res != len(m) {
				return viol("GetSize wrong", fmt.Sprint(res, len(m)))
			}
		case "IsEmpty":
			if res != (len(m) == 0) {
				return viol("IsEmpty wrong", fmt.Sprint(res, len(m)))
			}
		}
		// (a query may change private state - a cache, a counter - as long as no observer can tell:
		// the observers below compare with the model, and a changed private state is a new state of the search)
		// all observers agree with the new state
		ns := exp.state
		if obj.GetSize() != len(ns) || obj.IsEmpty() != (len(ns) == 0) {
			return viol(class+" size/emptiness disagree with contents", fmt.Sprint(obj.GetSize(), obj.IsEmpty(), ns))
		}
		it := obj.GetIterator()
		for i := 0; i < len(ns); i++ {
			if !it.HasNext() || !reflect.DeepEqual(it.GetNext(), ns[i]) {
				return viol(class+" iterator disagrees with contents", fmt.Sprint(ns))
			}
			if !reflect.DeepEqual(obj.GetValue(i+1), ns[i]) || !reflect.DeepEqual(obj.GetValue(i-len(ns)), ns[i]) {
				return viol(class+" GetValue disagrees with contents", fmt.Sprint(ns))
			}
		}
		if it.HasNext() {
			return viol(class+" iterator longer than contents", fmt.Sprint(ns))
		}
		if why := common.TwoLiveIterators[V](func() age.IteratorLike[V] { return obj.GetIterator() }, ns, true); why != "" {
			return viol(class+": two iterators over one sequence influence each other", why)
		}
		if okBy && !eqSlices(by.AsArray(), bm) {
			return viol(class+" changes another "+kind+" of the same element type", fmt.Sprintf("the other one: got %v want %v", by.AsArray(), bm))
		}
		if okBy {
			// ... and the same operation on the other one must leave this one alone
			if bopnd, bcontent, okk := operand[V](&rot, op.S, by, bm); okk {
				bexp := model(&rot, op, bm, bcontent, eq)
				_, bo := apply(&rot, op, by, bopnd, ranker)
				switch {
				case !eqSlices(obj.AsArray(), exp.state):
					return viol(class+" on another "+kind+" of the same element type changes this one", fmt.Sprintf("got %v want %v", obj.AsArray(), exp.state))
				case !bo.Panicked && !bo.Fuel && !bexp.permOnly && op.K != "SortValues" && op.K != "SortReverse" && !eqSlices(by.AsArray(), bexp.state):
					return viol(class+" wrong resulting sequence on a second "+kind+" of the same element type", fmt.Sprintf("got %v want %v", by.AsArray(), bexp.state))
				}
			}
		}
		// the operand sequence of this call stays the caller's: the call leaves it as it was, and changing it
		// afterwards (or changing the receiver) does not show through on the other side (obj is rebuilt per step)
		if op.S != 3 && len(content) > 0 {
			if !eqSlices(opnd.AsArray(), content) {
				return viol(class+" changes its operand sequence", fmt.Sprintf("operand %v want %v", opnd.AsArray(), content))
			}
			other := func(v V) V {
				for _, a := range c.alpha {
					if !reflect.DeepEqual(a, v) {
						return a
					}
				}
				return v
			}
			wantOp := append([]V(nil), content...)
			if up, isUp := opnd.(col.Updatable[V]); isUp {
				wantOp[0] = other(content[0])
				up.SetValue(1, wantOp[0])
				if so, isSo := opnd.(col.Sortable[V]); isSo {
					so.ReverseValues()
					for i, j := 0, len(wantOp)-1; i < j; i, j = i+1, j-1 {
						wantOp[i], wantOp[j] = wantOp[j], wantOp[i]
					}
				}
				if !eqSlices(obj.AsArray(), exp.state) {
					return viol(class+": changing the operand sequence afterwards changes the receiver (shared storage)", fmt.Sprintf("got %v want %v", obj.AsArray(), exp.state))
				}
			}
			if len(exp.state) > 0 {
				wantObj := append([]V(nil), exp.state...)
				wantObj[len(wantObj)-1] = other(wantObj[len(wantObj)-1])
				obj.SetValue(-1, wantObj[len(wantObj)-1])
				obj.ReverseValues()
				for i, j := 0, len(wantObj)-1; i < j; i, j = i+1, j-1 {
					wantObj[i], wantObj[j] = wantObj[j], wantObj[i]
				}
				if !eqSlices(opnd.AsArray(), wantOp) {
					return viol(class+": changing the receiver afterwards changes the operand sequence (shared storage)", fmt.Sprintf("operand %v want %v", opnd.AsArray(), wantOp))
				}
				if !eqSlices(obj.AsArray(), wantObj) {
					return viol(class+": after the operand sequence was changed the receiver does not follow its own operations", fmt.Sprintf("got %v want %v", obj.AsArray(), wantObj))
				}
			}
		}
		for gi, g := range guards {
			if !eqSlices(g.seq.AsArray(), g.want) {
				return viol(class+" changes an operand of the constructor "+path[0].K+" (shared storage)", fmt.Sprintf("operand %d: %v want %v", gi, g.seq.AsArray(), g.want))
			}
		}
		if len(r.Samples) < 2 && len(path) >= 2 {
			r.Sample(map[string]any{"search": name, "path": fmt.Sprint(path), "op": op.String(), "state_after": fmt.Sprint(ns)})
		}
		return seqx.Step{Key: ctorKey(path[0]) + after, Size: len(ns), Expand: true}
	}
	s.Run(r)
}

// ctorKey keeps states whose constructor operands are guarded apart from structurally equal ones
func ctorKey(op Op) string {
	if op.K == "Concatenate" || op.K == "MakeFromSequence" {
		return "guarded:"
	}
	return ""
}

func failKind(o rt.Outcome) string {
	if o.Fuel {
		return "does not terminate"
	}
	return "panics"
}

func units(tier string) []engine.Unit {
	maxN := 4
	if tier == "thorough" {
		maxN = 6
	}
	var us []engine.Unit
	add := func(name string, f func(r *engine.Rec)) { us = append(us, engine.Unit{Name: name, Run: f}) }
	for _, arr := range []bool{false, true} {
		arr := arr
		pre := "List"
		if arr {
			pre = "Array"
		}
		add(pre+"[int]", func(r *engine.Rec) {
			run(r, &cfg[int]{name: "int", alpha: []int{1, 2, 3}, less: func(a, b int) bool { return a < b }, array: arr}, maxN)
		})
		add(pre+"[string]", func(r *engine.Rec) {
			run(r, &cfg[string]{name: "string", alpha: []string{"a", "b", ""}, less: func(a, b string) bool { return a < b }, array: arr}, maxN)
		})
		add(pre+"[float64]", func(r *engine.Rec) {
			run(r, &cfg[float64]{name: "float64", alpha: []float64{-1.5, 0, 2.25}, less: func(a, b float64) bool { return a < b }, array: arr}, maxN)
		})
		add(pre+"[[]int]", func(r *engine.Rec) {
			run(r, &cfg[[]int]{name: "[]int", alpha: [][]int{{1}, {1, 2}, {0, 5}}, array: arr}, maxN)
		})
		add(pre+"[any]", func(r *engine.Rec) {
			run(r, &cfg[any]{name: "any", alpha: []any{int64(1), "x", 2.5}, array: arr}, maxN)
		})
		add(pre+"[any holding slices and maps]", func(r *engine.Rec) {
			// dynamic types that Go's == cannot compare
			run(r, &cfg[any]{name: "any holding slices and maps", alpha: []any{[]int{3, 4}, map[string]int{"k": 1}, []int{6}}, array: arr}, min(maxN, 3))
		})
	}
	ladderN := 40
	if tier == "thorough" {
		ladderN = 130
	}
	add("List[int] size ladder", func(r *engine.Rec) { ladder(r, false, ladderN) })
	add("Array[int] size ladder", func(r *engine.Rec) { ladder(r, true, ladderN) })
	add("what was handed out earlier stays as it was", keptResults)
	return us
}

func init() {
	engine.Register(&engine.Check{
		ID:        "C01",
		Technique: "explicit-state search over the real List/Array objects: BFS from every constructor, every operation of the alphabet (all indices -n-2..n+2, all slots 0..n+2, empty/aliased/foreign operand sequences, every random answer sequence for ShuffleValues) in every reachable state, states keyed by a dump of the private fields, each transition compared with a Go-slice reference model; plus a size ladder (every size 0..40, 130 thorough, x 8 shapes x 22 operations with boundary arguments on fresh objects, and grow/shrink chains through every size on one object)",
		Rule:      "state = canonical dump of the object's private fields; transition = (state, operation) executed on a freshly rebuilt real object; distinct = distinct dumps",
		Assume:    []string{"sizes up to the bound of the tier; value alphabets of 3 values per element type; NaN excluded (C07/C08)", "fuel budget 4e5 ticks per call decides non-termination"},
		Budget: func(tier string) time.Duration {
			if tier == "thorough" {
				return 20 * time.Minute
			}
			return 2 * time.Minute
		},
		Units: units,
	})
}
