// Package c15: set algebra equals intersection, union, difference and
// symmetric difference; operands are left unchanged and nothing is shared.
package c15

import (
	"fmt"
	"math"
	"reflect"
	"time"

	age "github.com/craterdog/go-collection-framework/v4/agent"
	col "github.com/craterdog/go-collection-framework/v4/collection"
	rt "github.com/craterdog/go-collection-framework/v4/verifrt"
	"verif/checks/c02"
	"verif/checks/common"
	"verif/engine"
)

type pairCase struct {
	Type  string `json:"type"`
	A     int    `json:"a_mask"`
	B     int    `json:"b_mask"`
	Alias bool   `json:"same_object"`
	Op    string `json:"op"`
}

type cfg[V any] struct {
	name     string
	universe []V
	class    func(v V) string // equivalence class under the collator
	exact    bool             // classes are single values
	collator func() age.CollatorLike[V]
	// collatorB, when set, orders the second operand differently (same equality, another order)
	collatorB func() age.CollatorLike[V]
}

var ops = []string{"And", "Or", "Sans", "Xor"}

func run[V any](r *engine.Rec, c *cfg[V]) {
	n := len(c.universe)
	S := col.Set[V](common.N())
	mkWith := func(mask int, second bool) col.SetLike[V] {
		var s col.SetLike[V]
		if second && c.collatorB != nil {
			s = S.MakeWithCollator(c.collatorB())
		} else if c.collator != nil {
			s = S.MakeWithCollator(c.collator())
		} else {
			s = S.Make()
		}
		// insert in descending universe order so that the set has to order them
		for i := n - 1; i >= 0; i-- {
			if mask&(1<<i) != 0 {
				s.AddValue(c.universe[i])
			}
		}
		return s
	}
	mk := func(mask int) col.SetLike[V] { return mkWith(mask, false) }
	prevRes := map[string]col.SetLike[V]{}
	prevDump := map[string]string{}
	prevCase := map[string]pairCase{}
	classes := func(vals []V) map[string]bool {
		m := map[string]bool{}
		for _, v := range vals {
			m[c.class(v)] = true
		}
		return m
	}
	pairs := 0
	for a := 0; a < 1<<n; a++ {
		if a%8 == 0 && r.TimeUp() {
			r.Incomplete("time budget")
			break
		}
		for b := 0; b < 1<<n; b++ {
			for _, alias := range []bool{false, true} {
				if alias && a != b {
					continue
				}
				pairs++
				for _, op := range ops {
					pc := pairCase{c.name, a, b, alias, op}
					if !r.Wanted(pc) {
						continue
					}
					A := mk(a)
					B := mkWith(b, true)
					if alias {
						B = A
					}
					ca, cb := classes(A.AsArray()), classes(B.AsArray())
					da, db := common.View(A), common.View(B)
					var res col.SetLike[V]
					out := rt.Protect(4000000, func() {
						switch op {
						case "And":
							res = S.And(A, B)
						case "Or":
							res = S.Or(A, B)
						case "Sans":
							res = S.Sans(A, B)
						case "Xor":
							res = S.Xor(A, B)
						}
					})
					r.Evals++
					r.Max("fuel_ticks", out.Ticks)
					if out.Panicked {
						r.Violation(op+" fails", out.Value, pc)
						continue
					}
					if common.View(A) != da || common.View(B) != db {
						r.Violation(op+" changes an operand", fmt.Sprintf("%+v", pc), pc)
						continue
					}
					// a result handed out earlier must keep its contents when the function is called again
					if pr, ok := prevRes[op]; ok && common.View(pr) != prevDump[op] {
						r.Violation("a later call of "+op+" changes the set returned by an earlier call", fmt.Sprintf("earlier %+v, now %+v: earlier result is now %v", prevCase[op], pc, pr.AsArray()), pc)
					}
					delete(prevRes, op)
					if any(res) == any(A) || any(res) == any(B) {
						r.Violation(op+" returns an operand instead of a new set", fmt.Sprintf("%+v", pc), pc)
						continue
					}
					want := map[string]bool{}
					for k := range ca {
						switch op {
						case "And":
							if cb[k] {
								want[k] = true
							}
						case "Or":
							want[k] = true
						case "Sans", "Xor":
							if !cb[k] {
								want[k] = true
							}
						}
					}
					for k := range cb {
						switch op {
						case "Or":
							want[k] = true
						case "Xor":
							if !ca[k] {
								want[k] = true
							}
						}
					}
					got := res.AsArray()
					if !reflect.DeepEqual(classes(got), want) || len(got) != len(want) {
						r.Violation(op+" wrong contents", fmt.Sprintf("%+v: A=%v B=%v result=%v", pc, A.AsArray(), B.AsArray(), got), pc)
						continue
					}
					coll := res.GetCollator()
					asc := true
					for i := 0; i+1 < len(got); i++ {
						if coll.RankValues(got[i], got[i+1]) != age.LesserRank {
							asc = false
						}
					}
					if !asc {
						r.Violation(op+" result not strictly ascending", fmt.Sprint(got), pc)
						continue
					}
					if keep := S; keep != nil && len(got) > 0 {
						// remember an untouched result of this call (built again, since the one above gets mutated below)
						var again col.SetLike[V]
						rt.Protect(4000000, func() {
							switch op {
							case "And":
								again = S.And(A, B)
							case "Or":
								again = S.Or(A, B)
							case "Sans":
								again = S.Sans(A, B)
							case "Xor":
								again = S.Xor(A, B)
							}
						})
						if again != nil {
							prevRes[op], prevDump[op], prevCase[op] = again, common.View(again), pc
						}
					}
					// later changes to the result do not affect the operands and vice versa: each kind of change as the
					// FIRST change after the operation (a copy-on-write scheme is undone by whichever mutator forgets it)
					{
						L := col.List[V](common.N())
						mutators := map[string]func(s col.SetLike[V]){
							"AddValue":     func(s col.SetLike[V]) { s.AddValue(c.universe[0]); s.AddValue(c.universe[n-1]) },
							"RemoveValue":  func(s col.SetLike[V]) { s.RemoveValue(c.universe[0]); s.RemoveValue(c.universe[n-1]) },
							"AddValues":    func(s col.SetLike[V]) { s.AddValues(L.MakeFromArray(append([]V(nil), c.universe...))) },
							"RemoveValues": func(s col.SetLike[V]) { s.RemoveValues(L.MakeFromArray(append([]V(nil), c.universe...))) },
							"RemoveAll":    func(s col.SetLike[V]) { s.RemoveAll() },
						}
						compute := func(X, Y col.SetLike[V]) (out col.SetLike[V]) {
							rt.Protect(4000000, func() {
								switch op {
								case "And":
									out = S.And(X, Y)
								case "Or":
									out = S.Or(X, Y)
								case "Sans":
									out = S.Sans(X, Y)
								case "Xor":
									out = S.Xor(X, Y)
								}
							})
							return
						}
						bad := false
						for mn, mut := range mutators {
							for _, target := range []string{"result", "first operand", "second operand"} {
								A2, B2 := mk(a), mkWith(b, true)
								if alias {
									B2 = A2
								}
								res2 := compute(A2, B2)
								if res2 == nil {
									continue
								}
								va, vb, vr := common.View(A2), common.View(B2), common.View(res2)
								switch target {
								case "result":
									rt.Protect(1000000, func() { mut(res2) })
									if common.View(A2) != va || common.View(B2) != vb {
										r.Violation("changing the result of "+op+" changes an operand ("+mn+" first)", fmt.Sprintf("%+v", pc), pc)
										bad = true
									}
								case "first operand":
									rt.Protect(1000000, func() { mut(A2) })
									if common.View(res2) != vr {
										r.Violation("changing an operand changes the result of "+op+" ("+mn+" first)", fmt.Sprintf("%+v", pc), pc)
										bad = true
									}
								case "second operand":
									rt.Protect(1000000, func() { mut(B2) })
									if common.View(res2) != vr {
										r.Violation("changing an operand changes the result of "+op+" ("+mn+" first)", fmt.Sprintf("%+v", pc), pc)
										bad = true
									}
								}
								r.Evals++
							}
						}
						if bad {
							continue
						}
					}
					for i, v := range c.universe {
						rt.Protect(1000000, func() {
							if i%2 == 0 {
								res.AddValue(v)
							} else {
								res.RemoveValue(v)
							}
						})
					}
					if common.View(A) != da || common.View(B) != db {
						r.Violation("changing the result of "+op+" changes an operand", fmt.Sprintf("%+v", pc), pc)
						continue
					}
					dr := common.View(res)
					for i, v := range c.universe {
						rt.Protect(1000000, func() {
							if i%2 == 0 {
								A.RemoveValue(v)
								B.AddValue(v)
							} else {
								A.AddValue(v)
								B.RemoveValue(v)
							}
						})
					}
					if common.View(res) != dr {
						r.Violation("changing an operand changes the result of "+op, fmt.Sprintf("%+v", pc), pc)
					}
					r.Outcome(op)
				}
			}
		}
	}
	r.States += int64(pairs)
	r.Distinct += int64(pairs)
	r.Transitions += r.Evals
	r.Sample(map[string]any{"type": c.name, "A_mask": 0b101100 % (1 << n), "B_mask": 0b011010 % (1 << n), "ops": ops})
}

func units(tier string) []engine.Unit {
	var us []engine.Unit
	add := func(name string, f func(r *engine.Rec)) { us = append(us, engine.Unit{Name: name, Run: f}) }
	cmpInt := func(a, b int) age.Rank {
		switch {
		case a < b:
			return age.LesserRank
		case a > b:
			return age.GreaterRank
		}
		return age.EqualRank
	}
	add("int", func(r *engine.Rec) {
		u := []int{-3, 0, 1, 2, 10, 11}
		if tier == "thorough" {
			u = append(u, 12, 100)
		}
		run(r, &cfg[int]{name: "int", universe: u, class: func(v int) string { return fmt.Sprint(v) }})
	})
	add("int-extremes", func(r *engine.Rec) {
		// members whose difference does not fit the type: an order computed by subtraction wraps
		run(r, &cfg[int]{name: "int at the ends of its range", universe: []int{math.MinInt, -1, 0, 2, math.MaxInt}, class: func(v int) string { return fmt.Sprint(v) }})
		run(r, &cfg[int8]{name: "int8 at the ends of its range", universe: []int8{math.MinInt8, -1, 0, 1, math.MaxInt8}, class: func(v int8) string { return fmt.Sprint(v) }})
		run(r, &cfg[uint]{name: "uint at the ends of its range", universe: []uint{0, 1, math.MaxInt, math.MaxInt + 1, math.MaxUint}, class: func(v uint) string { return fmt.Sprint(v) }})
		run(r, &cfg[float64]{name: "float64 at the ends of its range", universe: []float64{math.Inf(-1), -math.MaxFloat64, 0, math.MaxFloat64, math.Inf(1)}, class: func(v float64) string { return fmt.Sprint(v) }})
	})
	add("string", func(r *engine.Rec) {
		run(r, &cfg[string]{name: "string", universe: []string{"", "a", "ab", "b", "c", "ca"}, class: func(v string) string { return fmt.Sprintf("%q", v) }})
	})
	add("int-reversed", func(r *engine.Rec) {
		rev := func(a, b int) age.Rank { return cmpInt(b, a) }
		run(r, &cfg[int]{name: "int reversed collator", universe: []int{1, 2, 3, 4, 5}, class: func(v int) string { return fmt.Sprint(v) },
			collator: func() age.CollatorLike[int] { return &c02.FnCollator[int]{Name: "rev", F: rev} }})
	})
	add("int-coarse", func(r *engine.Rec) {
		coarse := func(a, b int) age.Rank { return cmpInt(a/2, b/2) }
		run(r, &cfg[int]{name: "int coarse collator", universe: []int{1, 2, 3, 4, 5, 6}, class: func(v int) string { return fmt.Sprint(v / 2) },
			collator: func() age.CollatorLike[int] { return &c02.FnCollator[int]{Name: "coarse", F: coarse} }})
	})
	add("int-first-natural-second-reversed", func(r *engine.Rec) {
		rev := func(a, b int) age.Rank { return cmpInt(b, a) }
		run(r, &cfg[int]{name: "int, operands ordered differently (same equality)", universe: []int{1, 2, 3, 4, 5}, class: func(v int) string { return fmt.Sprint(v) },
			collatorB: func() age.CollatorLike[int] { return &c02.FnCollator[int]{Name: "rev", F: rev} }})
	})
	add("int-first-reversed-second-natural", func(r *engine.Rec) {
		rev := func(a, b int) age.Rank { return cmpInt(b, a) }
		nat := func(a, b int) age.Rank { return cmpInt(a, b) }
		run(r, &cfg[int]{name: "int, first operand reversed, second natural", universe: []int{1, 2, 3, 4, 5}, class: func(v int) string { return fmt.Sprint(v) },
			collator:  func() age.CollatorLike[int] { return &c02.FnCollator[int]{Name: "rev", F: rev} },
			collatorB: func() age.CollatorLike[int] { return &c02.FnCollator[int]{Name: "nat", F: nat} }})
	})
	add("slice", func(r *engine.Rec) {
		run(r, &cfg[[]int]{name: "[]int", universe: [][]int{{}, {1}, {1, 2}, {2}}, class: func(v []int) string { return fmt.Sprint(v) }})
	})
	add("any", func(r *engine.Rec) {
		run(r, &cfg[any]{name: "any", universe: []any{int64(1), "a", 2.5, true}, class: func(v any) string { return fmt.Sprintf("%T:%v", v, v) }})
	})
	add("set-of-sets", func(r *engine.Rec) {
		SI := col.Set[int](common.N())
		var uni []col.SetLike[int]
		for _, e := range [][]int{{}, {1}, {2}, {1, 2}} {
			uni = append(uni, SI.MakeFromArray(e))
		}
		run(r, &cfg[col.SetLike[int]]{name: "SetLike[int]", universe: uni, class: func(v col.SetLike[int]) string { return fmt.Sprint(v.AsArray()) }})
	})
	add("large-operands", largeUnit)
	add("again-after-a-change-of-an-operand", againAfterChange)
	add("floats-with-not-a-number", func(r *engine.Rec) {
		// the collator ranks not-a-number equal to itself: it is a member like any other (Go's == never finds it)
		run(r, &cfg[float64]{name: "float64 with NaN", universe: []float64{math.NaN(), -1, 0, 2, math.Inf(1)}, class: func(v float64) string { return fmt.Sprint(v) }})
	})
	return us
}

func init() {
	engine.Register(&engine.Check{
		ID:        "C15",
		Technique: "bounded-exhaustive enumeration on the real Set class functions: all pairs of subsets of a 6-value universe (incl. the same object passed twice) x And/Or/Sans/Xor for int and string, all pairs over smaller universes for []int, any, sets of sets and for reversed/coarse caller-supplied collators; operand and result views compared before/after, then mutated to expose sharing; plus all ordered pairs of a family of 15 larger sets over 0..47 (sizes 0,1,16,17,20..48; overlapping, touching, nested, disjoint ranges; with and without the zero value) for int and string",
		Rule:      "case = (element type, subset A, subset B, same-object flag, operation); distinct = distinct (A,B,alias) triples",
		Assume:    []string{"operands whose collators disagree on equality are not generated (no defined result); operands ordered differently with the same equality are"},
		Budget:    func(string) time.Duration { return 4 * time.Minute },
		Units:     units,
	})
}
