package c15

import (
	"fmt"
	"sort"

	col "github.com/craterdog/go-collection-framework/v4/collection"
	rt "github.com/craterdog/go-collection-framework/v4/verifrt"
	"verif/checks/common"
	"verif/engine"
)

// againAfterChange: the four operations are functions of what their operands
// contain NOW. An operation is called, one operand is then changed in a way
// that keeps its size (one member replaced by a non-member; emptied and
// refilled with other values) or changes it, and the operation is called
// again - for every operation first and every operation second, on every pair
// of subsets of a five-value universe. Whatever a set remembers from an
// earlier call must not show.

type againCase struct {
	A, B   []int
	First  string `json:"first_call"`
	Change string `json:"change"`
	Second string `json:"second_call"`
}

func againAfterChange(r *engine.Rec) {
	N := common.N
	S := col.Set[int](N())
	u := []int{1, 2, 3, 4, 5}
	ops := map[string]func(a, b col.SetLike[int]) col.SetLike[int]{"And": S.And, "Or": S.Or, "Sans": S.Sans, "Xor": S.Xor}
	model := func(op string, a, b map[int]bool) []int {
		out := []int{}
		for _, v := range append(append([]int{}, u...), 6, 7) {
			var in bool
			switch op {
			case "And":
				in = a[v] && b[v]
			case "Or":
				in = a[v] || b[v]
			case "Sans":
				in = a[v] && !b[v]
			case "Xor":
				in = a[v] != b[v]
			}
			if in {
				out = append(out, v)
			}
		}
		return out
	}
	toSet := func(vs []int) map[int]bool {
		m := map[int]bool{}
		for _, v := range vs {
			m[v] = true
		}
		return m
	}
	members := func(m map[int]bool) []int {
		out := []int{}
		for v := range m {
			out = append(out, v)
		}
		sort.Ints(out)
		return out
	}
	// changes of an operand: (name, applies to the real set and to the model)
	type change struct {
		name string
		f    func(s col.SetLike[int], m map[int]bool) bool // false: not applicable
	}
	changes := []change{
		{"replace the least member by a non-member (same size)", func(s col.SetLike[int], m map[int]bool) bool {
			if len(m) == 0 {
				return false
			}
			least := members(m)[0]
			for _, x := range []int{6, 7} {
				if !m[x] {
					s.RemoveValue(least)
					s.AddValue(x)
					delete(m, least)
					m[x] = true
					return true
				}
			}
			return false
		}},
		{"replace the greatest member by a smaller non-member (same size)", func(s col.SetLike[int], m map[int]bool) bool {
			if len(m) == 0 {
				return false
			}
			ms := members(m)
			greatest := ms[len(ms)-1]
			for _, x := range u {
				if !m[x] && x < greatest {
					s.RemoveValue(greatest)
					s.AddValue(x)
					delete(m, greatest)
					m[x] = true
					return true
				}
			}
			return false
		}},
		{"empty and refill with as many other values", func(s col.SetLike[int], m map[int]bool) bool {
			n := len(m)
			if n == 0 || n > 3 {
				return false
			}
			s.RemoveAll()
			for v := range m {
				delete(m, v)
			}
			for _, x := range []int{7, 6, 5}[:n] {
				s.AddValue(x)
				m[x] = true
			}
			return true
		}},
		{"add a non-member", func(s col.SetLike[int], m map[int]bool) bool { s.AddValue(6); m[6] = true; return true }},
		{"remove a member", func(s col.SetLike[int], m map[int]bool) bool {
			if len(m) == 0 {
				return false
			}
			v := members(m)[0]
			s.RemoveValue(v)
			delete(m, v)
			return true
		}},
	}
	cases := 0
	for ma := 0; ma < 1<<len(u); ma++ {
		for mb := 0; mb < 1<<len(u); mb++ {
			var av, bv []int
			for i, v := range u {
				if ma&(1<<i) != 0 {
					av = append(av, v)
				}
				if mb&(1<<i) != 0 {
					bv = append(bv, v)
				}
			}
			for first := range ops {
				for _, ch := range changes {
					for _, which := range []string{"second operand", "first operand"} {
						c := againCase{av, bv, first, ch.name + " of the " + which, "all four"}
						if !r.Wanted(c) {
							continue
						}
						cases++
						a, b := S.MakeFromArray(append([]int(nil), av...)), S.MakeFromArray(append([]int(nil), bv...))
						am, bm := toSet(av), toSet(bv)
						var firstRes []int
						applicable := true
						got := map[string][]int{}
						o := rt.Protect(4000000, func() {
							firstRes = ops[first](a, b).AsArray()
							if which == "second operand" {
								applicable = ch.f(b, bm)
							} else {
								applicable = ch.f(a, am)
							}
							if !applicable {
								return
							}
							for name, f := range ops {
								got[name] = f(a, b).AsArray()
							}
						})
						r.Evals += 5
						if o.Panicked || o.Fuel {
							r.Violation("a set operation fails when called again after an operand was changed", fmt.Sprintf("%+v: %s", c, o.Value), c)
							continue
						}
						if !applicable {
							continue
						}
						_ = firstRes
						for name := range ops {
							want := model(name, am, bm)
							if fmt.Sprint(got[name]) != fmt.Sprint(want) && !(len(got[name]) == 0 && len(want) == 0) {
								c.Second = name
								r.Violation(name+" called after an earlier operation and a change of an operand does not describe the operands as they are now", fmt.Sprintf("%+v: operands now %v and %v: got %v want %v", c, members(am), members(bm), got[name], want), c)
							}
						}
					}
				}
			}
		}
	}
	r.States += int64(cases)
	r.Distinct += int64(cases)
	r.Transitions += r.Evals
	r.Sample(againCase{[]int{1, 2, 3, 4}, []int{2, 3}, "Sans", "replace the greatest member by a smaller non-member (same size) of the second operand", "Sans"})
}
