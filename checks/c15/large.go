package c15

import (
	"fmt"
	"sort"

	col "github.com/craterdog/go-collection-framework/v4/collection"
	rt "github.com/craterdog/go-collection-framework/v4/verifrt"
	"verif/checks/common"
	"verif/engine"
)

// The exhaustive units use universes of at most eight values. Code paths that
// depend on the size of an operand (batch insertion above a threshold, merge
// strategies, the default capacity 16) are reached here: a family of larger
// sets over 0..47 - ranges that overlap, touch, nest and are disjoint, sets of
// exactly 16 and 17 values, sets that do and do not contain the zero value of
// the element type - in all ordered pairs (and each set with itself).

type largeCase struct {
	Type  string `json:"type"`
	A     string `json:"a"`
	B     string `json:"b"`
	Alias bool   `json:"same_object"`
	Op    string `json:"op"`
}

func largeFamily() map[string][]int {
	rng := func(lo, hi, step int) []int {
		var a []int
		for v := lo; v <= hi; v += step {
			a = append(a, v)
		}
		return a
	}
	return map[string][]int{
		"empty":     {},
		"{0}":       {0},
		"0..15":     rng(0, 15, 1),
		"0..16":     rng(0, 16, 1),
		"1..17":     rng(1, 17, 1),
		"0..19":     rng(0, 19, 1),
		"10..29":    rng(10, 29, 1),
		"19..40":    rng(19, 40, 1),
		"20..39":    rng(20, 39, 1),
		"0..47":     rng(0, 47, 1),
		"evens":     rng(0, 46, 2),
		"odds":      rng(1, 47, 2),
		"threes":    rng(0, 45, 3),
		"30..47":    rng(30, 47, 1),
		"1..3+40..": append(rng(1, 3, 1), rng(40, 47, 1)...),
	}
}

func large[V comparable](r *engine.Rec, tname string, conv func(int) V) {
	S := col.Set[V](common.N())
	fam := largeFamily()
	var names []string
	for k := range fam {
		names = append(names, k)
	}
	sort.Strings(names)
	build := func(name string) col.SetLike[V] {
		s := S.Make()
		vals := fam[name]
		for i := len(vals) - 1; i >= 0; i-- { // descending, so that the set has to order them
			s.AddValue(conv(vals[i]))
		}
		return s
	}
	for _, an := range names {
		for _, bn := range names {
			for _, alias := range []bool{false, true} {
				if alias && an != bn {
					continue
				}
				for _, op := range ops {
					c := largeCase{tname, an, bn, alias, op}
					if !r.Wanted(c) {
						continue
					}
					A, B := build(an), build(bn)
					if alias {
						B = A
					}
					va, vb := common.View(A), common.View(B)
					var res col.SetLike[V]
					out := rt.Protect(40000000, func() {
						switch op {
						case "And":
							res = S.And(A, B)
						case "Or":
							res = S.Or(A, B)
						case "Sans":
							res = S.Sans(A, B)
						case "Xor":
							res = S.Xor(A, B)
						}
					})
					r.Evals++
					if out.Panicked || out.Fuel {
						r.Violation(op+" fails (large operands)", fmt.Sprintf("%+v: %s", c, out.Value), c)
						continue
					}
					inA, inB := map[int]bool{}, map[int]bool{}
					for _, v := range fam[an] {
						inA[v] = true
					}
					for _, v := range fam[bn] {
						inB[v] = true
					}
					var want []V
					for v := 0; v <= 47; v++ {
						keep := false
						switch op {
						case "And":
							keep = inA[v] && inB[v]
						case "Or":
							keep = inA[v] || inB[v]
						case "Sans":
							keep = inA[v] && !inB[v]
						case "Xor":
							keep = inA[v] != inB[v]
						}
						if keep {
							want = append(want, conv(v))
						}
					}
					got := res.AsArray()
					same := len(got) == len(want) && res.GetSize() == len(want)
					for i := 0; same && i < len(got); i++ {
						same = got[i] == want[i]
					}
					switch {
					case !same:
						r.Violation(op+" wrong contents (large operands)", fmt.Sprintf("%+v: got %v want %v", c, got, want), c)
					case common.View(A) != va || common.View(B) != vb:
						r.Violation(op+" changes an operand (large operands)", fmt.Sprintf("%+v", c), c)
					case any(res) == any(A) || any(res) == any(B):
						r.Violation(op+" returns an operand instead of a new set (large operands)", fmt.Sprintf("%+v", c), c)
					default:
						// the result is a working set of its own: membership agrees with its contents, removal takes effect
						for _, v := range want {
							if !res.ContainsValue(v) {
								r.Violation(op+" result does not contain one of its own values (large operands)", fmt.Sprintf("%+v: %v", c, v), c)
								break
							}
						}
						if len(want) > 0 {
							res.RemoveValue(want[len(want)/2])
							if res.ContainsValue(want[len(want)/2]) || res.GetSize() != len(want)-1 {
								r.Violation(op+" result still contains a value after RemoveValue (large operands)", fmt.Sprintf("%+v: %v", c, want[len(want)/2]), c)
							}
						}
						if common.View(A) != va || common.View(B) != vb {
							r.Violation("changing the result of "+op+" changes an operand (large operands)", fmt.Sprintf("%+v", c), c)
						}
					}
				}
			}
		}
	}
	r.States += int64(len(names) * len(names))
	r.Distinct += int64(len(names) * len(names))
	r.Transitions += r.Evals
}

func largeUnit(r *engine.Rec) {
	large(r, "int", func(i int) int { return i })
	// "" is the zero value and the least string; the others keep the numeric order
	large(r, "string", func(i int) string {
		if i == 0 {
			return ""
		}
		return fmt.Sprintf("k%02d", i)
	})
	r.Sample(largeCase{"int", "0..19", "10..29", false, "Sans"})
}
