// Package c10: CDCN round trip (parsing formatted output reproduces value and
// text) and FormatValue as a total, pure function.
package c10

import (
	"fmt"
	"math"
	"reflect"
	"sort"
	"strings"
	"time"

	cdc "github.com/craterdog/go-collection-framework/v4/cdcn"
	col "github.com/craterdog/go-collection-framework/v4/collection"
	rt "github.com/craterdog/go-collection-framework/v4/verifrt"
	"verif/checks/cdcnx"
	"verif/checks/common"
	"verif/engine"
	"verif/engine/dump"
)

type rtCase struct {
	Part string `json:"part"`
	Desc string `json:"value"`
}

// roundTrip formats v, parses the text, compares value and text.
func roundTrip(r *engine.Rec, part, desc, class string, v any) {
	c := rtCase{part, desc}
	if !r.Wanted(c) {
		return
	}
	text, fo := cdcnx.Format(v, 4000000)
	r.Evals++
	switch {
	case fo.Fuel:
		r.Violation("FormatValue does not terminate"+class, desc, c)
		return
	case fo.Panicked:
		r.Violation("FormatValue fails on a supported value"+class+": "+common.PanicClass(fo.Value), desc+": "+fo.Value, c)
		return
	}
	res := cdcnx.Parse(text)
	r.Evals++
	r.Max("fuel_ticks", res.Out.Ticks)
	switch {
	case res.ParserHung || res.Out.Fuel:
		r.Violation("ParseSource(FormatValue(v)) never returns"+class, fmt.Sprintf("%s\ntext %q", desc, text), c)
		return
	case res.Out.Panicked:
		r.Outcome("rejected")
		r.Violation("ParseSource rejects the formatter's own output"+class, fmt.Sprintf("%s\ntext %q\n%s", desc, text, firstLine(res.Out.Value)), c)
		return
	}
	if res.Leaked {
		r.Violation("scanner goroutine left behind after parsing formatted output", desc, c)
	}
	if d := cdcnx.Same(v, res.Value, "$"); d != "" {
		r.Outcome("different")
		r.Violation("the parsed value differs from the formatted value"+class, fmt.Sprintf("%s\ntext %q\n%s", desc, text, d), c)
		return
	}
	again, fo2 := cdcnx.Format(res.Value, 4000000)
	if fo2.Panicked || !cdcnx.SameText(text, again) {
		r.Violation("formatting the parsed value does not reproduce the text"+class, fmt.Sprintf("%s\nfirst  %q\nsecond %q", desc, text, again), c)
		return
	}
	r.Outcome("roundtrip")
}

func firstLine(s string) string {
	if i := strings.IndexByte(s, '\n'); i >= 0 {
		return s[:i]
	}
	return s
}

func N() col.NotationLike { return common.N() }

// wrap places a leaf in the syntactic positions: singleton list, multi-line list item, catalog key and value.
func leafDocs(r *engine.Rec, part, class string, leaf any, asKey bool) {
	d := fmt.Sprintf("%T(%#v)", leaf, leaf)
	roundTrip(r, part, "List["+d+"]", class, col.List[any](N()).MakeFromArray([]any{leaf}))
	roundTrip(r, part, "Array["+d+", nil, "+d+"]", class, col.Array[any](N()).MakeFromArray([]any{leaf, nil, leaf}))
	if asKey {
		c := col.Catalog[any, any](N()).Make()
		c.SetValue(leaf, leaf)
		roundTrip(r, part, "Catalog{"+d+": "+d+"}", class, c)
	}
}

func floatClass(f float64) string {
	s := fmt.Sprintf("%G", f)
	_ = s
	return ""
}

func floats(r *engine.Rec) {
	n := 0
	step := 1
	if r.Tier != "thorough" {
		step = 1
	}
	for e := -324; e <= 308; e += step {
		mants := []float64{1, 1.5, 9.999999999999999}
		if r.Tier == "thorough" {
			mants = []float64{1, 1.5, 2, 2.5, 4.000000000000001, 7.25, 9.999999999999999, 1.0000000000000002, 5e-1}
		}
		for _, m := range mants {
			for _, sgn := range []float64{1, -1} {
				f := sgn * m * math.Pow(10, float64(e))
				if math.IsInf(f, 0) || f == 0 {
					continue
				}
				// reconstruct exactly via decimal text to hit the strconv boundaries
				n++
				leafDocs(r, "float-ladder", " (float)", f, n%7 == 0)
			}
		}
	}
	for _, f := range []float64{0, math.Copysign(0, -1), math.SmallestNonzeroFloat64, math.MaxFloat64, -math.MaxFloat64, 1e6, 1e21, 1e-5, 123456789, 0.1, 1.0 / 3} {
		n++
		leafDocs(r, "float-special", " (float)", f, true)
	}
	// complex grid
	grid := []float64{0, math.Copysign(0, -1), 1, -1, 1.5, -2.25, 1e6, 1e-7, 1e21, -1e300, 5e-324, 123.456}
	for _, re := range grid {
		for _, im := range grid {
			n++
			leafDocs(r, "complex-grid", " (complex)", complex(re, im), n%5 == 0)
		}
	}
	r.States += int64(n)
	r.Distinct += int64(n)
	r.Transitions += r.Evals
	r.Sample(rtCase{"float-ladder", "List[float64(1.5e-07)]"})
}

func integersRunesStrings(r *engine.Rec) {
	n := 0
	ints := []int64{0, 1, -1, 9, -9, 10, -10, math.MaxInt8, math.MinInt8, math.MaxInt16, math.MinInt16, math.MaxInt32 + 1, math.MinInt32 - 1, math.MaxInt64, math.MinInt64}
	for _, i := range ints {
		n++
		leafDocs(r, "integers", " (integer)", i, true)
	}
	for _, u := range []uint64{0, 1, 0xff, 0xffff, 0xffffffff, math.MaxUint64} {
		n++
		leafDocs(r, "unsigned", " (unsigned)", u, true)
	}
	for _, b := range []any{true, false, nil} {
		n++
		leafDocs(r, "bool-nil", "", b, b != nil)
	}
	// narrow widths: text fixpoint and canonical value
	for _, v := range []any{int(7), int8(-8), int16(300), uint(9), uint8(200), uint16(60000), uint32(1 << 31), float32(1.5), float32(0.1), complex64(complex(1, -2))} {
		n++
		leafDocs(r, "narrow-widths", " (narrow numeric width)", v, false)
	}
	var runes []rune
	for c := rune(0); c <= 0x2ff; c++ {
		runes = append(runes, c)
	}
	runes = append(runes, 0xd7ff, 0xe000, 0xfffd, 0xffff, 0x10000, 0x10ffff)
	for _, c := range runes {
		n++
		leafDocs(r, "runes", " (rune)", c, n%16 == 0)
	}
	alpha := []string{"a", "\"", "\\", "'", "\n", "\t", "\x00", "é", "😀", "\xff"}
	strs := []string{""}
	for _, a := range alpha {
		strs = append(strs, a)
		for _, b := range alpha {
			strs = append(strs, a+b)
		}
	}
	if r.Tier == "thorough" {
		base := append([]string(nil), strs...)
		for _, a := range alpha {
			for _, b := range base {
				if len([]rune(b)) == 2 || len(b) >= 2 {
					strs = append(strs, a+b)
				}
			}
		}
		for c := rune(0x300); c <= 0x2fff; c += 7 {
			runes = append(runes, c)
		}
		for _, c := range runes[len(runes)-1700:] {
			n++
			leafDocs(r, "runes", " (rune)", c, false)
		}
	}
	for _, s := range strs {
		n++
		leafDocs(r, "strings", " (string)", s, true)
	}
	r.States += int64(n)
	r.Distinct += int64(n)
	r.Transitions += r.Evals
	r.Sample(rtCase{"strings", `List[string("\"\xff")]`})
}

var kinds = []string{"Array", "List", "Set", "Stack", "Queue", "Catalog", "Map"}

func mkKind(kind string, items []any) any {
	switch kind {
	case "Array":
		return col.Array[any](N()).MakeFromArray(items)
	case "List":
		return col.List[any](N()).MakeFromArray(items)
	case "Set":
		return col.Set[any](N()).MakeFromArray(items)
	case "Stack":
		return col.Stack[any](N()).MakeFromArray(items)
	case "Queue":
		return col.Queue[any](N()).MakeFromArray(items)
	case "Catalog":
		c := col.Catalog[any, any](N()).Make()
		for i, it := range items {
			c.SetValue(fmt.Sprint("k", i), it)
		}
		return c
	case "Map":
		m := col.Map[any, any](N()).Make()
		for i, it := range items {
			m.SetValue(int64(i), it)
		}
		return m
	}
	return nil
}

func shapes(r *engine.Rec) {
	n := 0
	leafSets := map[string][]any{
		"ints":    {int64(3), int64(1), int64(2)},
		"strings": {"b", "", "a"},
		"floats":  {2.5, -1.25, 0.5},
		"mixed":   {int64(1), "x", nil},
		"bools":   {true, false, true},
		"runes":   {'z', 'a', 'm'},
	}
	for _, k := range kinds {
		for lname, ls := range leafSets {
			for size := 0; size <= 3; size++ {
				n++
				items := append([]any(nil), ls[:size]...)
				if k == "Set" && lname == "bools" && size == 3 {
					continue
				}
				roundTrip(r, "kinds", fmt.Sprintf("%s of %d %s", k, size, lname), "", mkKind(k, items))
			}
		}
		// sizes up to 40 (Queues stay within their default capacity: larger ones fall under C05)
		maxSize := 40
		if r.Tier == "thorough" {
			maxSize = 120
		}
		if k == "Queue" {
			maxSize = 16
		}
		for size := 4; size <= maxSize; size++ {
			items := make([]any, size)
			for i := range items {
				items[i] = int64((i * 7) % 41)
			}
			n++
			roundTrip(r, "sizes", fmt.Sprintf("%s of %d ints", k, size), "", mkKind(k, items))
		}
	}
	// keys of every leaf kind (nil included) in Catalogs and Maps of one to three associations
	keySets := map[string][]any{
		"nil first": {nil, "a", int64(2)},
		"nil last":  {"a", int64(2), nil},
		"booleans":  {true, false},
		"runes":     {'b', 'a', 'c'},
		"floats":    {1.5, -2.5, 0.0},
		"strings":   {"", "b", "a"},
		"mixed":     {int64(1), "1", '1'},
		"unsigned":  {uint64(7), uint64(0)},
		"complex":   {complex(1, 2), complex(0, -1)},
	}
	for kname, ks := range keySets {
		for size := 1; size <= len(ks); size++ {
			n++
			cat := col.Catalog[any, any](N()).Make()
			mp := col.Map[any, any](N()).Make()
			for i, k := range ks[:size] {
				cat.SetValue(k, int64(10+i))
				if kname != "nested lists" { // a Go map cannot take a pointer-to-list key by content
					mp.SetValue(k, int64(10+i))
				}
			}
			roundTrip(r, "keys", fmt.Sprintf("Catalog with %d keys (%s)", size, kname), "", cat)
			if kname != "nested lists" {
				roundTrip(r, "keys", fmt.Sprintf("Map with %d keys (%s)", size, kname), "", mp)
				roundTrip(r, "keys", fmt.Sprintf("List holding a Map with %d keys (%s)", size, kname), "", mkKind("List", []any{mp, int64(0)}))
			}
		}
	}
	// every kind nested in every kind in every kind (<= 2 children)
	for _, k1 := range kinds {
		for _, k2 := range kinds {
			n++
			roundTrip(r, "nesting-2", k1+"["+k2+"[1]]", "", mkKind(k1, []any{mkKind(k2, []any{int64(1)})}))
			roundTrip(r, "nesting-2", k1+"["+k2+"[], "+k2+"[1,2]]", "", mkKind(k1, []any{mkKind(k2, nil), mkKind(k2, []any{int64(1), int64(2)})}))
			for _, k3 := range kinds {
				n++
				roundTrip(r, "nesting-3", k1+"["+k2+"["+k3+"[\"a\"], 2]]", "", mkKind(k1, []any{mkKind(k2, []any{mkKind(k3, []any{"a"}), int64(2)})}))
			}
		}
	}
	// chains within the depth limit
	for depth := 0; depth <= 8; depth++ {
		var single, double any = int64(5), int64(5)
		for i := 0; i < depth; i++ {
			single = mkKind("List", []any{single})
			double = mkKind("List", []any{double, int64(i)})
		}
		if depth > 0 {
			n++
			roundTrip(r, "chains", fmt.Sprintf("singleton chain of depth %d", depth), "", single)
			roundTrip(r, "chains", fmt.Sprintf("two-item chain of depth %d", depth), "", double)
		}
	}
	r.States += int64(n)
	r.Distinct += int64(n)
	r.Transitions += r.Evals
	r.Sample(rtCase{"nesting-3", "Catalog[Set[Stack[\"a\"], 2]]"})
}

// totality: values nested deeper than the limit and self-containing values
// must be formatted in bounded time, with the elision mark.
func totality(r *engine.Rec) {
	type tc struct {
		name   string
		class  string
		build  func() any
		elided bool
	}
	var cases []tc
	for _, depth := range []int{9, 10, 12, 20} {
		depth := depth
		cases = append(cases, tc{fmt.Sprintf("two-item chain of depth %d", depth), "", func() any {
			var v any = int64(5)
			for i := 0; i < depth; i++ {
				v = mkKind("List", []any{v, int64(i)})
			}
			return v
		}, true})
		cases = append(cases, tc{fmt.Sprintf("singleton chain of depth %d", depth), "", func() any {
			var v any = int64(5)
			for i := 0; i < depth; i++ {
				v = mkKind("List", []any{v})
			}
			return v
		}, true})
	}
	cyc := func(name, class string, f func() any) { cases = append(cases, tc{name, class, f, true}) }
	cyc("list containing itself (cycle length 1, alone)", " (cycle through singleton sequences only)", func() any {
		l := col.List[any](N()).Make()
		l.AppendValue(l)
		return l
	})
	cyc("list containing itself among siblings", "", func() any {
		l := col.List[any](N()).Make()
		l.AppendValue(int64(1))
		l.AppendValue(l)
		l.AppendValue("z")
		return l
	})
	cyc("cycle of length 2 through singleton lists", " (cycle through singleton sequences only)", func() any {
		a := col.List[any](N()).Make()
		b := col.List[any](N()).Make()
		a.AppendValue(b)
		b.AppendValue(a)
		return a
	})
	cyc("cycle of length 3 with siblings", "", func() any {
		a := col.List[any](N()).Make()
		b := col.List[any](N()).Make()
		c := col.List[any](N()).Make()
		a.AppendValue(b)
		a.AppendValue(int64(1))
		b.AppendValue(c)
		b.AppendValue(int64(2))
		c.AppendValue(a)
		c.AppendValue(int64(3))
		return a
	})
	cyc("catalog containing itself (alone)", " (cycle through singleton sequences only)", func() any {
		c := col.Catalog[any, any](N()).Make()
		c.SetValue("self", c)
		return c
	})
	cyc("catalog containing itself next to a sibling", "", func() any {
		c := col.Catalog[any, any](N()).Make()
		c.SetValue("a", int64(1))
		c.SetValue("self", c)
		return c
	})
	cyc("set inside a list inside the set's own list (cycle length 2, siblings)", "", func() any {
		l := col.List[any](N()).Make()
		arr := col.Array[any](N()).Make(2)
		arr.SetValue(1, l)
		arr.SetValue(2, int64(7))
		l.AppendValue(arr)
		l.AppendValue(int64(8))
		return l
	})
	n := 0
	for _, c := range cases {
		cs := rtCase{"totality", c.name}
		if !r.Wanted(cs) {
			continue
		}
		n++
		text, fo := cdcnx.Format(c.build(), 1000000)
		r.Evals++
		r.Max("fuel_ticks_totality", fo.Ticks)
		switch {
		case fo.Fuel:
			r.Outcome("nonterminating")
			r.Violation("FormatValue does not terminate"+c.class, c.name, cs)
		case fo.Panicked:
			r.Violation("FormatValue fails instead of eliding"+c.class, c.name+": "+fo.Value, cs)
		case c.elided && !strings.Contains(text, "..."):
			r.Violation("FormatValue output lacks the elision mark for a value deeper than its limit"+c.class, c.name+"\n"+text, cs)
		default:
			r.Outcome("terminates")
		}
	}
	// Elision is a function of the nesting depth only: the text of an item does not depend on what was formatted
	// before it. For a two-item list the text is the two items' blocks in order, so [X, Y] and [Y, X] must
	// consist of the same lines.
	lines := func(v any) ([]string, bool) {
		text, fo := cdcnx.Format(v, 1000000)
		if fo.Panicked {
			return nil, false
		}
		ls := strings.Split(text, "\n")
		sort.Strings(ls)
		return ls, true
	}
	for i, x := range cases {
		for j, y := range cases {
			if i >= j {
				continue
			}
			cs := rtCase{"elision-order", x.name + " | " + y.name}
			if !r.Wanted(cs) {
				continue
			}
			xy, ok1 := lines(mkKind("List", []any{x.build(), y.build()}))
			yx, ok2 := lines(mkKind("List", []any{y.build(), x.build()}))
			r.Evals += 2
			n++
			if ok1 && ok2 && !reflect.DeepEqual(xy, yx) {
				r.Violation("the text of an item depends on what was formatted before it (elision spreads to siblings)", cs.Desc, cs)
			}
		}
	}
	// items just within the limit next to items beyond it
	fits := func(depth int) any {
		var v any = int64(5)
		for i := 0; i < depth; i++ {
			v = mkKind("List", []any{v, int64(i)})
		}
		return v
	}
	for da := 5; da <= 10; da++ {
		for db := 5; db <= 10; db++ {
			cs := rtCase{"elision-order", fmt.Sprintf("chains of depth %d and %d", da, db)}
			if !r.Wanted(cs) {
				continue
			}
			xy, ok1 := lines(mkKind("List", []any{fits(da), fits(db)}))
			yx, ok2 := lines(mkKind("List", []any{fits(db), fits(da)}))
			r.Evals += 2
			n++
			if ok1 && ok2 && !reflect.DeepEqual(xy, yx) {
				r.Violation("the text of an item depends on what was formatted before it (elision spreads to siblings)", cs.Desc, cs)
			}
		}
	}
	r.States += int64(n)
	r.Distinct += int64(n)
	r.Transitions += r.Evals
	r.Sample(rtCase{"totality", "cycle of length 3 with siblings"})
}

type purOp struct {
	V int `json:"v"`
}

// purity: explicit-state search over the private state of one formatter (and
// one notation): every successful output equals a fresh formatter's.
func purity(r *engine.Rec) {
	type unsupported struct{ X int }
	values := []struct {
		name string
		mk   func() any
	}{
		{"[1 2](List)", func() any { return mkKind("List", []any{int64(1), int64(2)}) }},
		{"Catalog{a:[ ](Set)}", func() any { c := col.Catalog[any, any](N()).Make(); c.SetValue("a", mkKind("Set", nil)); return c }},
		{"[[1 2] 3](Array) nested", func() any { return mkKind("Array", []any{mkKind("List", []any{int64(1), int64(2)}), int64(3)}) }},
		{"list whose 2nd item has an unsupported type (panics after writing text at depth 1)", func() any { return mkKind("List", []any{int64(1), unsupported{1}}) }},
		{"nested list whose inner 2nd item is unsupported (panics at depth 2)", func() any {
			return mkKind("List", []any{int64(0), mkKind("List", []any{int64(1), unsupported{2}})})
		}},
		{"cyclic list with siblings", func() any {
			l := col.List[any](N()).Make()
			l.AppendValue(int64(1))
			l.AppendValue(l)
			return l
		}},
	}
	type res struct{ text, panic string }
	runOn := func(f interface{ FormatValue(any) string }, i int) res {
		var out res
		o := rt.Protect(1000000, func() { out.text = f.FormatValue(values[i].mk()) })
		if o.Panicked {
			out.panic = common.PanicClass(o.Value)
			if o.Fuel {
				out.panic = "nontermination"
			}
		}
		return out
	}
	for _, target := range []string{"formatter", "notation"} {
		mk := func() interface{ FormatValue(any) string } {
			if target == "formatter" {
				return cdc.Formatter().Make()
			}
			return cdc.Notation().Make()
		}
		fresh := make([]res, len(values))
		for i := range values {
			fresh[i] = runOn(mk(), i)
		}
		seen := map[string]bool{dump.Dump(mk()): true}
		type node struct{ path []int }
		frontier := []node{{nil}}
		for len(frontier) > 0 && len(seen) < 300 {
			n := frontier[0]
			frontier = frontier[1:]
			for i := range values {
				c := map[string]any{"target": target, "path": n.path, "then": i}
				if !r.Wanted(c) {
					continue
				}
				f := mk()
				for _, p := range n.path {
					runOn(f, p)
				}
				got := runOn(f, i)
				r.Evals++
				r.Transitions++
				if got != fresh[i] {
					hist := "after successful calls only"
					for _, p := range n.path {
						if fresh[p].panic != "" {
							hist = "after an earlier failed call"
						}
					}
					r.Violation("FormatValue output depends on earlier calls on the same "+target+" ("+hist+")",
						fmt.Sprintf("history %v then %q:\n got  %q %s\n want %q %s", n.path, values[i].name, got.text, got.panic, fresh[i].text, fresh[i].panic), c)
					continue
				}
				k := dump.Dump(f)
				if !seen[k] {
					seen[k] = true
					frontier = append(frontier, node{append(append([]int(nil), n.path...), i)})
				}
			}
		}
		r.States += int64(len(seen))
		r.Distinct += int64(len(seen))
	}
	r.Sample(map[string]any{"history": "FormatValue(list with unsupported 2nd item) panics; then FormatValue([1 2](List)) must equal a fresh formatter's text"})
}

func init() {
	engine.Register(&engine.Check{
		ID:        "C10",
		Technique: "bounded-exhaustive enumeration on the real formatter+scanner+parser (each parse a two-thread program under the scheduler): a float ladder over every decimal exponent -324..308 x 3 mantissas x 2 signs, a complex grid, all 64-bit integer boundaries, every rune 0..0x2ff plus astral/boundary runes, all strings of length <=2 over a 10-character alphabet incl. invalid UTF-8, all seven kinds at sizes 0..40 and nested in each other to depth 3, chains to the depth limit, compared by an independent structural comparator plus the text fixpoint; deeper-than-limit and self-containing values for termination (fuel) and elision; explicit-state search over the formatter's private state for purity",
		Rule:      "case = one generated value (or one call history on one formatter); round trip = same kinds, order, pairing, exact leaves and identical re-formatted text",
		Assume:    []string{"equality on the canonical dynamic types; narrow widths are checked for the canonical value and the text fixpoint", "Queues stay within their default capacity"},
		Budget:    func(string) time.Duration { return 5 * time.Minute },
		Units: func(string) []engine.Unit {
			return []engine.Unit{{Name: "floats-complex", Run: floats}, {Name: "integers-runes-strings", Run: integersRunesStrings},
				{Name: "shapes", Run: shapes}, {Name: "totality", Run: totality}, {Name: "purity", Run: purity}, {Name: "items-held-through-typed-interfaces", Run: typedElements}}
		},
	})
}
