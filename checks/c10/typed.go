package c10

import (
	"fmt"

	col "github.com/craterdog/go-collection-framework/v4/collection"
	"verif/checks/cdcnx"
	"verif/checks/common"
	"verif/engine"
)

// Collections whose element type is one of the library's own interfaces
// (ListLike[int], MapLike[string,int], Sequential[int], ...) instead of `any`:
// reflection meets the items through a typed interface, not as the concrete
// value. The text must be the text of the same content held in `any`, and it
// must round-trip.

type typedCase struct {
	Holder  string `json:"holder"`
	Content string `json:"content"`
}

func typedElements(r *engine.Rec) {
	type ML = col.MapLike[string, int]
	type LL = col.ListLike[int]
	type SL = col.SetLike[int]
	type SQ = col.Sequential[int]
	n := 0
	for _, size := range []int{0, 1, 3, 17} {
		vals := make([]int, size)
		for i := range vals {
			vals[i] = (i*7 + 3) % 23
		}
		mkM := func() ML {
			m := col.Map[string, int](N()).Make()
			if size > 0 {
				m.SetValue("k", vals[0]) // one association: the text of a Map with more depends on its (unordered) iteration
			}
			return m
		}
		mkL := func() LL { return col.List[int](N()).MakeFromArray(append([]int(nil), vals...)) }
		mkS := func() SL { return col.Set[int](N()).MakeFromArray(append([]int(nil), vals...)) }
		pairs := map[string][2]func() any{
			"List[MapLike]":           {func() any { return col.List[ML](N()).MakeFromArray([]ML{mkM(), mkM()}) }, func() any { return col.List[any](N()).MakeFromArray([]any{mkM(), mkM()}) }},
			"List[ListLike]":          {func() any { return col.List[LL](N()).MakeFromArray([]LL{mkL()}) }, func() any { return col.List[any](N()).MakeFromArray([]any{mkL()}) }},
			"Array[SetLike]":          {func() any { return col.Array[SL](N()).MakeFromArray([]SL{mkS(), mkS()}) }, func() any { return col.Array[any](N()).MakeFromArray([]any{mkS(), mkS()}) }},
			"Stack[Sequential]":       {func() any { return col.Stack[SQ](N()).MakeFromArray([]SQ{mkL(), mkS()}) }, func() any { return col.Stack[any](N()).MakeFromArray([]any{mkL(), mkS()}) }},
			"Queue[ListLike]":         {func() any { return col.Queue[LL](N()).MakeFromArray([]LL{mkL()}) }, func() any { return col.Queue[any](N()).MakeFromArray([]any{mkL()}) }},
			"Catalog[string,SetLike]": {func() any { c := col.Catalog[string, SL](N()).Make(); c.SetValue("k", mkS()); return c }, func() any { c := col.Catalog[string, any](N()).Make(); c.SetValue("k", mkS()); return c }},
			"Catalog[string,MapLike]": {func() any { c := col.Catalog[string, ML](N()).Make(); c.SetValue("k", mkM()); return c }, func() any { c := col.Catalog[string, any](N()).Make(); c.SetValue("k", mkM()); return c }},
			"Map[string,ListLike]":    {func() any { c := col.Map[string, LL](N()).Make(); c.SetValue("k", mkL()); return c }, func() any { c := col.Map[string, any](N()).Make(); c.SetValue("k", mkL()); return c }},
			"[]ListLike":              {func() any { return []LL{mkL(), mkL()} }, func() any { return []any{mkL(), mkL()} }},
			"map[string]SetLike":      {func() any { return map[string]SL{"k": mkS()} }, func() any { return map[string]any{"k": mkS()} }},
			"List[Sequential] holding a Map's keys": {func() any {
				return col.List[col.Sequential[string]](N()).MakeFromArray([]col.Sequential[string]{mkM().GetKeys()})
			}, func() any { return col.List[any](N()).MakeFromArray([]any{mkM().GetKeys()}) }},
		}
		for hn, p := range pairs {
			c := typedCase{hn, fmt.Sprint("size ", size)}
			if !r.Wanted(c) {
				continue
			}
			n++
			typed, to := cdcnx.Format(p[0](), 4000000)
			plain, po := cdcnx.Format(p[1](), 4000000)
			r.Evals += 2
			switch {
			case po.Panicked || po.Fuel:
				continue // decided by the other units
			case to.Fuel:
				r.Violation("FormatValue does not terminate (items held through a typed interface)", fmt.Sprintf("%+v", c), c)
				continue
			case to.Panicked:
				r.Violation("FormatValue fails on a collection whose items are held through a typed interface: "+common.PanicClass(to.Value), fmt.Sprintf("%+v: %s", c, to.Value), c)
				continue
			case !cdcnx.SameText(typed, plain):
				r.Violation("the text of a collection depends on whether its items are held in `any` or in one of the library's interfaces", fmt.Sprintf("%+v\ntyped %q\nany   %q", c, typed, plain), c)
				continue
			}
			if hn == "[]ListLike" || hn == "map[string]SetLike" {
				continue // the structural comparison of the round trip knows Go arrays and maps of `any` only; the text is decided above
			}
			roundTrip(r, "typed-elements", hn+fmt.Sprint(" size ", size), " (items held through a typed interface)", p[0]())
		}
	}
	r.States += int64(n)
	r.Distinct += int64(n)
	r.Transitions += r.Evals
	r.Sample(typedCase{"List[MapLike]", "size 3"})
}
