package c13

import (
	"fmt"

	age "github.com/craterdog/go-collection-framework/v4/agent"
	col "github.com/craterdog/go-collection-framework/v4/collection"
	rt "github.com/craterdog/go-collection-framework/v4/verifrt"
	"verif/checks/common"
	"verif/engine"
)

// keptViews: "the array view and iteration list the values from top to
// bottom" - of the stack as it was when they were obtained. An array view, an
// iterator (fresh or already moved) and a copy of the stack, obtained at any
// size, still list the same values after every sequence of up to three later
// pushes, pops and RemoveAll calls.

type keptCase struct {
	Size   int      `json:"size"`
	Handle string   `json:"handle"`
	Ops    []string `json:"later_operations"`
}

func keptViews(r *engine.Rec) {
	N := common.N
	ops := map[string]func(s col.StackLike[int]){
		"AddValue(91)": func(s col.StackLike[int]) { s.AddValue(91) },
		"AddValue(92)": func(s col.StackLike[int]) { s.AddValue(92) },
		"RemoveTop":    func(s col.StackLike[int]) { s.RemoveTop() },
		"RemoveAll":    func(s col.StackLike[int]) { s.RemoveAll() },
	}
	names := []string{"AddValue(91)", "AddValue(92)", "RemoveTop", "RemoveAll"}
	var seqs [][]string
	for _, a := range names {
		seqs = append(seqs, []string{a})
		for _, b := range names {
			seqs = append(seqs, []string{a, b})
			for _, c := range names {
				seqs = append(seqs, []string{a, b, c})
			}
		}
	}
	walk := func(it age.IteratorLike[int]) []int {
		out := []int{}
		it.ToStart()
		for n := 0; it.HasNext() && n < 100; n++ {
			out = append(out, it.GetNext())
		}
		return out
	}
	handles := map[string]func(s col.StackLike[int]) func() string{
		"AsArray": func(s col.StackLike[int]) func() string {
			a := s.AsArray()
			return func() string { return fmt.Sprint(a) }
		},
		"iterator": func(s col.StackLike[int]) func() string {
			it := s.GetIterator()
			return func() string { return fmt.Sprint(walk(it)) }
		},
		"iterator already moved": func(s col.StackLike[int]) func() string {
			it := s.GetIterator()
			if it.HasNext() {
				it.GetNext()
			}
			return func() string { return fmt.Sprint(walk(it)) }
		},
		"copy (MakeFromSequence)": func(s col.StackLike[int]) func() string {
			cp := col.Stack[int](N()).MakeFromSequence(s)
			return func() string { return common.View(cp) }
		},
		"List made from the stack": func(s col.StackLike[int]) func() string {
			l := col.List[int](N()).MakeFromSequence(s)
			return func() string { return common.View(l) }
		},
	}
	cases := 0
	for _, how := range []string{"pushed", "MakeFromArray"} {
		for size := 0; size <= 5; size++ {
			for hn, get := range handles {
				for _, sq := range seqs {
					c := keptCase{size, hn + " of a stack " + how, sq}
					if !r.Wanted(c) {
						continue
					}
					cases++
					var before, after string
					o := rt.Protect(fuel, func() {
						var s col.StackLike[int]
						if how == "pushed" {
							s = col.Stack[int](N()).MakeWithCapacity(7)
							for i := 1; i <= size; i++ {
								s.AddValue(10 * i)
							}
						} else {
							vals := make([]int, size)
							for i := range vals {
								vals[i] = 10 * (size - i)
							}
							s = col.Stack[int](N()).MakeFromArray(vals)
						}
						read := get(s)
						before = read()
						for _, op := range sq {
							rt.Protect(fuel, func() { ops[op](s) }) // a pop on an empty stack panics by design
						}
						after = read()
					})
					r.Evals++
					if !o.Panicked && !o.Fuel && before != after {
						r.Violation("something a stack handed out earlier changes when the stack is changed later", fmt.Sprintf("%+v: was %s, now %s", c, before, after), c)
					}
				}
			}
		}
	}
	r.States += int64(cases)
	r.Distinct += int64(cases)
	r.Transitions += r.Evals
	r.Sample(keptCase{3, "AsArray of a stack pushed", []string{"RemoveTop", "AddValue(91)"}})
}
