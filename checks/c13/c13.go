// Package c13: Stack is LIFO and never holds more values than its capacity.
package c13

import (
	"fmt"
	"reflect"
	"time"

	age "github.com/craterdog/go-collection-framework/v4/agent"
	col "github.com/craterdog/go-collection-framework/v4/collection"
	rt "github.com/craterdog/go-collection-framework/v4/verifrt"
	"verif/checks/common"
	"verif/engine"
	"verif/engine/dump"
	"verif/engine/seqx"
)

type Op struct {
	K string `json:"k"`
	I int    `json:"i,omitempty"`
	V int    `json:"v,omitempty"`
}

const fuel = 400000

type model struct {
	vals []int // top first
	cap  int
}

// gkey keeps states with a guarded source apart from structurally equal ones without
func gkey() string {
	if guardSrc != nil {
		return "guarded:" + guardDump + ":"
	}
	return ""
}

// guards: the source stack of a copy constructor must stay independent of the copy
var guardSrc col.StackLike[int]
var guardDump string

func construct(op Op) (s col.StackLike[int], m model, out rt.Outcome) {
	guardSrc, guardDump = nil, ""
	C := col.Stack[int](common.N())
	mk := func(n int) []int {
		a := make([]int, n)
		for i := range a {
			a[i] = 100 + i
		}
		return a
	}
	out = rt.Protect(fuel, func() {
		switch op.K {
		case "Make":
			s = C.Make()
			m = model{cap: int(C.DefaultCapacity())}
		case "MakeWithCapacity":
			s = C.MakeWithCapacity(uint(op.I))
			m = model{cap: op.I}
		case "MakeFromArray":
			s = C.MakeFromArray(mk(op.I))
			m = model{vals: mk(op.I), cap: -1}
		case "MakeFromSequence":
			s = C.MakeFromSequence(col.List[int](common.N()).MakeFromArray(mk(op.I)))
			m = model{vals: mk(op.I), cap: -1}
		case "MakeFromStack":
			// the source is itself a stack, filled to its own small capacity
			src := C.MakeWithCapacity(uint(op.I + 1))
			vals := mk(op.I)
			for i := len(vals) - 1; i >= 0; i-- {
				src.AddValue(vals[i])
			}
			s = C.MakeFromSequence(src)
			m = model{vals: vals, cap: -1}
			guardSrc, guardDump = src, common.View(src)
		case "MakeFromArrayCollectionThenChangeSource", "MakeFromListThenChangeSource", "MakeFromGetValuesThenChangeSource":
			// the sequence a stack was made from stays the caller's: changing it in place afterwards (before the stack
			// itself has been changed once) does not change the stack
			vals := mk(op.I)
			var src col.Sequential[int]
			switch op.K {
			case "MakeFromArrayCollectionThenChangeSource":
				src = col.Array[int](common.N()).MakeFromArray(append([]int(nil), vals...))
			case "MakeFromListThenChangeSource":
				src = col.List[int](common.N()).MakeFromArray(append([]int(nil), vals...))
			default:
				l := col.List[int](common.N()).MakeFromArray(append(append([]int{-1}, vals...), -2))
				if len(vals) == 0 {
					src = col.List[int](common.N()).Make()
				} else {
					src = l.GetValues(2, len(vals)+1)
				}
			}
			s = C.MakeFromSequence(src)
			if u, ok := src.(interface {
				SetValue(int, int)
				ReverseValues()
			}); ok && len(vals) > 0 {
				u.ReverseValues()
				u.SetValue(1, -7)
			}
			m = model{vals: vals, cap: -1}
		case "MakeFromStackThenPushSource", "MakeFromArrayOfStackThenPushSource", "MakeFromOwnArrayViewThenPush":
			// a copy of a stack that has room to spare, and then BOTH grow: each keeps its own values
			src := C.MakeWithCapacity(uint(op.I + 3))
			vals := mk(op.I)
			for i := len(vals) - 1; i >= 0; i-- {
				src.AddValue(vals[i])
			}
			switch op.K {
			case "MakeFromStackThenPushSource":
				s = C.MakeFromSequence(src)
			case "MakeFromArrayOfStackThenPushSource":
				s = C.MakeFromArray(src.AsArray())
			default:
				view := src.AsArray()
				s = C.MakeFromArray(view)
				for i := range view {
					view[i] = -7 // the caller's array is the caller's
				}
			}
			src.AddValue(77)
			m = model{vals: vals, cap: -1}
			guardSrc, guardDump = src, common.View(src)
		}
	})
	return
}

func apply(op Op, s col.StackLike[int]) (res any, out rt.Outcome) {
	out = rt.Protect(fuel, func() {
		switch op.K {
		case "AddValue":
			s.AddValue(op.V)
		case "RemoveTop":
			res = s.RemoveTop()
		case "RemoveAll":
			s.RemoveAll()
		case "AsArray":
			res = s.AsArray()
		case "Iterate":
			it := s.GetIterator()
			a := []int{}
			for it.HasNext() {
				a = append(a, it.GetNext())
			}
			res = a
		case "GetSize":
			res = s.GetSize()
		case "IsEmpty":
			res = s.IsEmpty()
		case "GetCapacity":
			res = int(s.GetCapacity())
		}
	})
	return
}

func step(m model, op Op) (nm model, mustPanic bool, result any) {
	nm = model{append([]int(nil), m.vals...), m.cap}
	switch op.K {
	case "AddValue":
		if len(m.vals) >= m.cap {
			return nm, true, nil
		}
		nm.vals = append([]int{op.V}, nm.vals...)
	case "RemoveTop":
		if len(m.vals) == 0 {
			return nm, true, nil
		}
		result = m.vals[0]
		nm.vals = nm.vals[1:]
	case "RemoveAll":
		nm.vals = nil
	case "AsArray", "Iterate":
		result = append([]int{}, m.vals...)
	case "GetSize":
		result = len(m.vals)
	case "IsEmpty":
		result = len(m.vals) == 0
	case "GetCapacity":
		result = m.cap
	}
	return
}

func eq(a, b []int) bool { return (len(a) == 0 && len(b) == 0) || reflect.DeepEqual(a, b) }

// exec runs every transition as a one-thread program under the scheduler: a call that blocks for good (on a lock
// that an earlier, rejected call left held) parks the thread, which the scheduler reports - outside the scheduler
// it would hang the search.
func exec(r *engine.Rec, name string) func(path []Op, op Op) seqx.Step {
	body := execBody(r, name)
	return func(path []Op, op Op) seqx.Step {
		var st seqx.Step
		ex := rt.RunOnce(rt.Config{Elide: true}, nil, []rt.ThreadSpec{{Name: "caller", Body: func() { st = body(path, op) }}})
		if len(ex.Panics) > 0 {
			// a call that the search makes outside its guarded steps (an observer on the replayed state) panics: the stack is corrupt
			r.Violation("a call on a stack panics although its history is valid: "+common.PanicClass(ex.Panics[0].Value), fmt.Sprintf("%s\npath: %+v\nop: %+v", ex.Panics[0].Value, path, op), seqx.Case[Op]{Search: name, Path: path, Op: op})
			return seqx.Step{}
		}
		if len(ex.Stuck) > 0 {
			r.Violation("a call on a stack never returns (after a rejected call: something was left held)", fmt.Sprintf("stuck: %v\npath: %+v\nop: %+v", ex.SortedStuck(), path, op), seqx.Case[Op]{Search: name, Path: path, Op: op})
			return seqx.Step{}
		}
		return st
	}
}

func execBody(r *engine.Rec, name string) func(path []Op, op Op) seqx.Step {
	return func(path []Op, op Op) seqx.Step {
		cs := seqx.Case[Op]{Search: name, Path: path, Op: op}
		viol := func(sig, detail string) seqx.Step {
			r.Violation(sig, fmt.Sprintf("%s\npath: %+v\nop: %+v", detail, path, op), cs)
			return seqx.Step{}
		}
		if len(path) == 0 {
			s, m, out := construct(op)
			big := ""
			if op.I > 16 {
				big = " (more values than the default capacity)"
			}
			if out.Panicked {
				return viol("constructor "+op.K+" panics"+big, out.Value)
			}
			capv := int(s.GetCapacity())
			if m.cap < 0 {
				m.cap = capv
			}
			if capv != m.cap {
				return viol("constructor "+op.K+" wrong capacity", fmt.Sprint(capv, m.cap))
			}
			if s.GetSize() > capv {
				r.Outcome("ctor-over-capacity")
				return viol("constructor "+op.K+" produces a stack holding more values than its capacity"+big,
					fmt.Sprintf("size %d capacity %d", s.GetSize(), capv))
			}
			if !eq(s.AsArray(), m.vals) {
				return viol("constructor "+op.K+" wrong contents (first array element must be the top)", fmt.Sprint(s.AsArray(), m.vals))
			}
			r.Outcome("ctor")
			return seqx.Step{Key: gkey() + dump.Dump(s), Size: len(m.vals), Expand: true}
		}
		s, m, out := construct(path[0])
		if out.Panicked {
			return seqx.Step{}
		}
		if m.cap < 0 {
			m.cap = int(s.GetCapacity())
		}
		for _, p := range path[1:] {
			nm, mp, _ := step(m, p)
			_, o := apply(p, s)
			rt.Protect(fuel, func() { s.AsArray(); s.GetSize(); s.GetIterator(); s.GetCapacity() })
			if !o.Panicked && !mp {
				m = nm
			}
		}
		before := dump.Dump(s)
		nm, mustPanic, want := step(m, op)
		res, o := apply(op, s)
		after := dump.Dump(s)
		full := ""
		if op.K == "AddValue" && len(m.vals) >= m.cap {
			full = " on a full stack"
		}
		if op.K == "RemoveTop" && len(m.vals) == 0 {
			full = " on an empty stack"
		}
		if o.Fuel {
			return viol(op.K+full+" does not terminate", "fuel")
		}
		if o.Panicked {
			r.Outcome("panic")
			if !mustPanic {
				return viol(op.K+full+" panics on a valid call", o.Value)
			}
			// "leave the stack unchanged": what a caller can observe, not the private representation
			if !eq(s.AsArray(), m.vals) || s.GetSize() != len(m.vals) || int(s.GetCapacity()) != m.cap {
				return viol(op.K+full+" panics but changes the stack", fmt.Sprintf("before %v cap %d after %v cap %d", m.vals, m.cap, s.AsArray(), s.GetCapacity()))
			}
			// private state that differs without being observable yet is a new state of the search
			return seqx.Step{Key: gkey() + after, Size: len(m.vals), Expand: before != after, Rejected: true}
		}
		r.Outcome("return")
		if mustPanic {
			return viol(op.K+full+" returns normally instead of panicking", fmt.Sprintf("before %v cap %d after %v", m.vals, m.cap, s.AsArray()))
		}
		if want != nil {
			ok := reflect.DeepEqual(res, want)
			if a, isA := want.([]int); isA {
				b, _ := res.([]int)
				ok = eq(a, b)
			}
			if !ok {
				return viol(op.K+" wrong result", fmt.Sprintf("state %v: got %v want %v", m.vals, res, want))
			}
		}
		if !eq(s.AsArray(), nm.vals) || s.GetSize() != len(nm.vals) || s.IsEmpty() != (len(nm.vals) == 0) {
			return viol(op.K+" wrong resulting stack", fmt.Sprintf("got %v want %v", s.AsArray(), nm.vals))
		}
		if s.GetSize() > int(s.GetCapacity()) {
			return viol("size exceeds capacity after "+op.K, fmt.Sprint(s.GetSize(), s.GetCapacity()))
		}
		if why := seqx.Interference(func() (func() string, func(), bool) {
			st, _, out := construct(path[0])
			if out.Panicked {
				return nil, nil, false
			}
			for _, p := range path[1:] {
				apply(p, st)
			}
			return func() string { return common.View(st) }, func() { apply(op, st) }, true
		}, []func() func() string{
			func() func() string {
				b := col.Stack[int](common.N()).MakeWithCapacity(3)
				b.AddValue(71)
				b.AddValue(72)
				return func() string { return common.View(b) }
			},
			func() func() string {
				b := col.Stack[int](common.N()).MakeFromArray([]int{81, 82, 83})
				b.RemoveAll()
				b.AddValue(84)
				return func() string { return common.View(b) }
			},
			func() func() string {
				b := col.Stack[int](common.N()).MakeFromSequence(col.List[int](common.N()).MakeFromArray([]int{91, 92}))
				b.RemoveTop()
				return func() string { return common.View(b) }
			},
		}); why != "" {
			return viol("stacks of one element type are not independent of each other", why)
		}
		if why := common.TwoLiveIterators[int](func() age.IteratorLike[int] { return s.GetIterator() }, nm.vals, true); why != "" {
			return viol("two iterators over one stack influence each other", why)
		}
		if guardSrc != nil && common.View(guardSrc) != guardDump {
			return viol(op.K+" on a stack built from another stack changes that other stack (shared storage)", fmt.Sprintf("source now %v", guardSrc.AsArray()))
		}
		if len(r.Samples) < 2 && len(path) > 2 {
			r.Sample(map[string]any{"path": fmt.Sprintf("%+v", path), "op": fmt.Sprintf("%+v", op), "stack": fmt.Sprint(nm.vals)})
		}
		return seqx.Step{Key: gkey() + after, Size: len(nm.vals), Expand: true}
	}
}

var allOps = func(int) []Op {
	return []Op{{K: "AddValue", V: 1}, {K: "AddValue", V: 2}, {K: "RemoveTop"}, {K: "RemoveAll"}, {K: "AsArray"}, {K: "Iterate"}, {K: "GetSize"}, {K: "IsEmpty"}, {K: "GetCapacity"}}
}

func units(tier string) []engine.Unit {
	var us []engine.Unit
	maxCap := 4
	if tier == "thorough" {
		maxCap = 9
	}
	for c := 1; c <= maxCap; c++ {
		c := c
		name := fmt.Sprintf("capacity-%d", c)
		us = append(us, engine.Unit{Name: name, Run: func(r *engine.Rec) {
			s := &seqx.Search[Op]{Name: name, MaxSize: 1 << 30, Ops: allOps, Exec: exec(r, name),
				Inits: []Op{{K: "MakeWithCapacity", I: c}}}
			s.Run(r)
		}})
	}
	// constructors with 0..2*16+1 initial values, then push one value up to and past capacity, pop down to and past empty
	us = append(us, engine.Unit{Name: "constructors", Run: func(r *engine.Rec) {
		name := "constructors"
		oneVal := func(int) []Op {
			return []Op{{K: "AddValue", V: 1}, {K: "RemoveTop"}, {K: "RemoveAll"}, {K: "AsArray"}, {K: "GetSize"}, {K: "GetCapacity"}, {K: "Iterate"}}
		}
		var inits []Op
		inits = append(inits, Op{K: "Make"})
		for n := 0; n <= 33; n++ {
			inits = append(inits, Op{K: "MakeFromArray", I: n}, Op{K: "MakeFromSequence", I: n})
		}
		for n := 0; n <= 5; n++ {
			inits = append(inits, Op{K: "MakeFromArrayCollectionThenChangeSource", I: n}, Op{K: "MakeFromListThenChangeSource", I: n}, Op{K: "MakeFromGetValuesThenChangeSource", I: n})
			inits = append(inits, Op{K: "MakeFromStack", I: n}, Op{K: "MakeFromStackThenPushSource", I: n}, Op{K: "MakeFromArrayOfStackThenPushSource", I: n}, Op{K: "MakeFromOwnArrayViewThenPush", I: n})
		}
		s := &seqx.Search[Op]{Name: name, MaxSize: 1 << 30, Ops: oneVal, Exec: exec(r, name), Inits: inits}
		s.Run(r)
	}})
	us = append(us, fromBusyQueue(int(col.Stack[int](common.N()).DefaultCapacity())), fromBusyQueue(3))
	us = append(us, engine.Unit{Name: "what-was-handed-out-earlier", Run: keptViews})
	us = append(us, engine.Unit{Name: "capacity-0", Run: func(r *engine.Rec) {
		// MakeWithCapacity(0) is documented to panic
		_, _, out := construct(Op{K: "MakeWithCapacity", I: 0})
		r.Evals++
		r.States++
		r.Transitions++
		if !out.Panicked {
			r.Violation("MakeWithCapacity(0) returns a stack of capacity zero", "", Op{K: "MakeWithCapacity"})
		}
		r.Distinct += 2
	}})
	return us
}

func init() {
	engine.Register(&engine.Check{
		ID:        "C13",
		Technique: "explicit-state search over the real Stack: every reachable content for capacities 1..4 (quick) x every operation, all constructors with 0..33 initial values followed by pushes past capacity and pops past empty; Go-slice reference model; copies of stacks with spare room after which both grow; a stack made from a full queue with a parked producer under every schedule; every transition is a one-thread program under the scheduler, every operation is applied once more after a rejected call",
		Rule:      "state = dump of private fields; transition = (state, op) on a rebuilt real stack",
		Assume:    []string{"two pushed values; capacities as listed"},
		Budget: func(tier string) time.Duration {
			// the quick search finishes in seconds; the budget only bounds a search whose state space a change of
			// the library has made unbounded (a private modification counter): reported as not exhaustive
			if tier == "thorough" {
				return 15 * time.Minute
			}
			return 90 * time.Second
		},
		Units: units,
	})
}
