package c13

import (
	"fmt"
	"reflect"

	col "github.com/craterdog/go-collection-framework/v4/collection"
	rt "github.com/craterdog/go-collection-framework/v4/verifrt"
	"verif/checks/common"
	"verif/engine"
	"verif/engine/schedx"
)

// fromBusyQueue: the sequence a stack is built from may be a blocking queue
// that other goroutines are still adding to, among them a producer parked on
// the full queue. Whatever the constructor sees of it, the stack it returns
// lists a prefix-closed run of the queue's values, top first, and holds no more
// values than its capacity; a push on it when it is full panics.
func fromBusyQueue(qcap int) engine.Unit {
	name := fmt.Sprintf("stack made from a full queue of capacity %d with a producer still adding", qcap)
	return engine.Unit{Name: name, Run: func(r *engine.Rec) {
		prog := func() ([]rt.ThreadSpec, func(*rt.Exec) []string) {
			q := col.Queue[int](common.N()).MakeWithCapacity(uint(qcap))
			var filled rt.WaitGroup
			filled.Add(1)
			var s col.StackLike[int]
			var size, capacity int
			var arr []int
			var out, push rt.Outcome
			return []rt.ThreadSpec{
					{Name: "builder", Body: func() {
						for i := 1; i <= qcap; i++ {
							q.AddValue(i)
						}
						filled.Done()
						out = rt.Protect(fuel, func() {
							s = col.Stack[int](common.N()).MakeFromSequence(q)
							size, capacity, arr = s.GetSize(), int(s.GetCapacity()), s.AsArray()
						})
						if !out.Panicked && size >= capacity {
							push = rt.Protect(fuel, func() { s.AddValue(-1) })
						}
						q.RemoveHead()
					}},
					{Name: "producer", Body: func() {
						filled.Wait()
						q.AddValue(qcap + 1)
					}},
				}, func(ex *rt.Exec) []string {
					var what []string
					detail := fmt.Sprintf("size %d capacity %d values %v", size, capacity, arr)
					switch {
					case out.Panicked || out.Fuel:
						what = append(what, "MakeFromSequence of a queue fails\x00"+out.Value)
					case size > capacity:
						what = append(what, "constructor produces a stack holding more values than its capacity\x00"+detail)
					case len(arr) != size:
						what = append(what, "array view and size of a stack made from a queue disagree\x00"+detail)
					case size >= capacity && !push.Panicked:
						what = append(what, "AddValue on a full stack made from a queue does not panic\x00"+detail)
					default:
						want := make([]int, 0, qcap+1)
						for i := 1; i <= size; i++ {
							want = append(want, i)
						}
						if (size != qcap && size != qcap+1) || !reflect.DeepEqual(arr, want) {
							what = append(what, "stack made from a queue does not list the queue's values top first\x00"+detail)
						}
					}
					if len(ex.Stuck) > 0 {
						what = append(what, "threads stuck after a stack was made from a queue\x00"+fmt.Sprint(ex.SortedStuck()))
					}
					return what
				}
		}
		schedx.Explore(r, prog, schedx.Opts{Name: name, Desc: name, SigPrefix: "", CapA: 20000, Bounds: []int{1, 2}, CapB: 20000})
	}}
}
