// Package c12: ParseSource is total: any input ends in a value or a located
// syntax diagnostic; no scanner goroutine is left behind.
package c12

import (
	"fmt"
	"regexp"
	"strconv"
	"strings"
	"sync"
	"time"

	cdc "github.com/craterdog/go-collection-framework/v4/cdcn"
	rt "github.com/craterdog/go-collection-framework/v4/verifrt"
	"verif/checks/cdcnx"
	"verif/checks/common"
	"verif/engine"
	"verif/engine/dump"
	"verif/engine/schedx"
)

type inCase struct {
	Part string `json:"part"`
	Src  string `json:"source"`
}

var header = regexp.MustCompile(`Token \[type: ([a-zA-Z]+), line: (\d+), position: (\d+)\]: ("(?:[^"\\]|\\.)*"(?:\.\.\.)?)`)

var placeholders = map[string]string{"<NULL>": "\x00", "<BELL>": "\a", "<BKSP>": "\b", "<HTAB>": "\t", "<FMFD>": "\f", "<EOLN>": "\n", "<CRTN>": "\r", "<VTAB>": "\v"}

// located checks the diagnostic header against the source: the quoted token
// text must start at the reported line and column (columns count runes).
func located(src, msg string) string {
	m := header.FindStringSubmatch(msg)
	if m == nil {
		return "no token header (type, line, position, text) in the diagnostic"
	}
	line, _ := strconv.Atoi(m[2])
	pos, _ := strconv.Atoi(m[3])
	quoted := m[4]
	truncated := strings.HasSuffix(quoted, "...")
	quoted = strings.TrimSuffix(quoted, "...")
	text, err := strconv.Unquote(quoted)
	if err != nil {
		return "token text is not a quoted string: " + quoted
	}
	if p, ok := placeholders[text]; ok {
		text = p
	}
	lines := strings.Split(src, "\n")
	if line < 1 || line > len(lines) {
		return fmt.Sprintf("reported line %d is outside the source (%d lines)", line, len(lines))
	}
	runes := []rune(lines[line-1])
	if m[1] == "EOF" {
		// the end-of-file token has no text: it must be positioned at the end of the source
		if line == len(lines) && pos == len(runes)+1 && text == "" {
			return ""
		}
		return fmt.Sprintf("EOF token reported at line %d position %d but the source ends at line %d position %d", line, pos, len(lines), len([]rune(lines[len(lines)-1]))+1)
	}
	if pos < 1 || pos > len(runes)+1 {
		return fmt.Sprintf("reported position %d is outside line %d (%d characters)", pos, line, len(runes))
	}
	rest := string(runes[pos-1:])
	if text == "\n" {
		if pos == len(runes)+1 && line < len(lines) {
			return ""
		}
		return fmt.Sprintf("EOL token reported at line %d position %d where the line does not end", line, pos)
	}
	_ = truncated
	// a token can span lines only for EOL; compare within the rest of the source from that point
	full := rest
	if line < len(lines) {
		full = rest + "\n" + strings.Join(lines[line:], "\n")
	}
	if !strings.HasPrefix(full, text) {
		return fmt.Sprintf("the source does not have %q at line %d position %d (it has %q)", text, line, pos, clip(full))
	}
	return ""
}

func clip(s string) string {
	if len(s) > 12 {
		return s[:12]
	}
	return s
}

// judge classifies one input; class is for the outcome statistics.
func judge(r *engine.Rec, part, src string, injected int) string {
	c := inCase{part, src}
	res := cdcnx.Parse(src)
	r.Evals++
	r.Max("fuel_ticks", res.Out.Ticks)
	class := "value"
	o := res.Out
	switch {
	case res.ParserHung:
		class = "hang"
		r.Violation("ParseSource never returns (the caller is parked forever)"+over16(src), fmt.Sprintf("%q", src), c)
	case o.Fuel:
		class = "nontermination"
		r.Violation("ParseSource does not terminate", fmt.Sprintf("%q", src), c)
	case o.Panicked && o.Runtime:
		class = "runtime-error"
		r.Violation("ParseSource fails with a Go runtime error: "+common.PanicClass(o.Value)+inputClass(src), fmt.Sprintf("%q: %s", src, o.Value), c)
	case o.Panicked && !o.IsString:
		class = "non-string-panic"
		r.Violation("ParseSource panics with a non-textual value", fmt.Sprintf("%q: %s", src, o.Value), c)
	case o.Panicked:
		class = "diagnostic"
		if !strings.Contains(o.Value, "An unexpected token was received by the parser") {
			class = "other-panic"
			r.Violation("ParseSource panics with an internal message instead of a syntax diagnostic: "+common.PanicClass(o.Value), fmt.Sprintf("%q: %s", src, o.Value), c)
		} else if why := located(src, o.Value); why != "" {
			r.Violation("syntax diagnostic does not locate the offending text", fmt.Sprintf("%q: %s\n%s", src, why, firstLine(o.Value)), c)
		} else if injected > 0 {
			m := header.FindStringSubmatch(o.Value)
			line, _ := strconv.Atoi(m[2])
			pos, _ := strconv.Atoi(m[3])
			wl, wp := lineCol(src, injected-1)
			if line != wl || pos != wp {
				r.Violation("an illegal character is not reported at its own line and column", fmt.Sprintf("%q: reported %d:%d, injected at %d:%d", src, line, pos, wl, wp), c)
			}
		}
	}
	if res.LibPanic != "" {
		r.Violation("the scanner goroutine panics: "+common.PanicClass(res.LibPanic), fmt.Sprintf("%q: %s", src, res.LibPanic), c)
	}
	if res.LiveAtEnd > 0 && !res.Leaked && !res.ParserHung && !o.Fuel {
		r.Violation("a goroutine started by ParseSource is still running when ParseSource has ended ("+class+")", fmt.Sprintf("%q: %d goroutines alive at that instant", src, res.LiveAtEnd), c)
	}
	if res.Leaked && !res.ParserHung {
		r.Violation("a scanner goroutine is left blocked after ParseSource ended ("+class+")", fmt.Sprintf("%q: scanner parked in %s", src, res.LeakWhere), c)
	}
	r.Outcome(class)
	return class
}

func over16(src string) string {
	if strings.Contains(src, "(Queue)") {
		return " (Queue literal)"
	}
	return ""
}

// inputClass is a coarse, stable description of the shape of the input for signatures.
func inputClass(src string) string {
	switch {
	case strings.Contains(src, "(Catalog)") || strings.Contains(src, "(Map)"):
		return " [context Catalog/Map]"
	}
	return ""
}

func firstLine(s string) string {
	if i := strings.IndexByte(s, '\n'); i >= 0 {
		return s[:i]
	}
	return s
}

func lineCol(src string, byteOff int) (int, int) {
	line, col := 1, 1
	for i, r := range src {
		if i >= byteOff {
			break
		}
		if r == '\n' {
			line++
			col = 1
		} else {
			col++
		}
	}
	return line, col
}

var lexemes = []string{"[", "]", "(", ")", ":", ",", "\n", " ", "1", "1.5", "0x1", `"a"`, "'a'", "true", "nil", "List", "Catalog", "x"}

// lexemeStrings: all strings of <= k lexemes (plus longer ones starting with "[").
func lexemeStrings(maxLen, maxLenBracket int, f func(s string) bool) {
	var rec func(cur string, n int) bool
	rec = func(cur string, n int) bool {
		if !f(cur) {
			return false
		}
		limit := maxLen
		if strings.HasPrefix(cur, "[") || n == 0 {
			limit = maxLenBracket
		}
		if n >= limit {
			return true
		}
		for _, l := range lexemes {
			if n == 0 && l != "[" && maxLen == 0 {
				continue
			}
			if n >= maxLen && !strings.HasPrefix(cur+l, "[") {
				continue
			}
			if !rec(cur+l, n+1) {
				return false
			}
		}
		return true
	}
	rec("", 0)
}

func lexemeUnit(first string) func(r *engine.Rec) {
	return func(r *engine.Rec) {
		maxLen, maxB := 4, 5
		if r.Tier == "thorough" {
			maxLen, maxB = 5, 6
		}
		n := 0
		var rec func(cur string, k int)
		stop := false
		rec = func(cur string, k int) {
			if stop {
				return
			}
			n++
			if n%512 == 0 && r.TimeUp() {
				r.Incomplete("time budget")
				stop = true
				return
			}
			if r.Wanted(inCase{"lexemes", cur}) {
				judge(r, "lexemes", cur, 0)
			}
			limit := maxLen
			if strings.HasPrefix(cur, "[") {
				limit = maxB
			}
			if k >= limit {
				return
			}
			for _, l := range lexemes {
				rec(cur+l, k+1)
			}
		}
		rec(first, 1)
		r.States += int64(n)
		r.Distinct += int64(n)
		r.Transitions += r.Evals
		r.Sample(inCase{"lexemes", first + `1,"a"`})
	}
}

func rawChars(r *engine.Rec) {
	chars := []string{"[", "]", "(", "\"", "'", "\\", "e", ".", "\r", "\t", "\x00", "é", "\xff", "0", "-"}
	n := 0
	var rec func(cur string, k int)
	rec = func(cur string, k int) {
		n++
		if r.Wanted(inCase{"raw", cur}) {
			judge(r, "raw", cur, 0)
		}
		if k == 3 {
			return
		}
		for _, c := range chars {
			rec(cur+c, k+1)
		}
	}
	rec("", 0)
	r.States += int64(n)
	r.Distinct += int64(n)
	r.Transitions += r.Evals
	r.Sample(inCase{"raw", "[\"\\"})
}

var corpus = []string{
	"[ ](Array)\n",
	"[:](Catalog)\n",
	"[1, 2, 3](List)\n",
	"[\n    1\n    2\n    3\n](List)\n",
	"[\"a\": 1, \"b\": 2](Catalog)\n",
	"[\n    \"a\": 1\n    \"b\": [true, false](Set)\n](Map)\n",
	"[\n    [ ](Stack)\n    [1.5, (1.0+2.0i)](Queue)\n    [\n        'a'\n        0xff\n    ](Array)\n](List)\n",
	"[nil](Stack)",
	"[1, 2, 3, 4, 5, 6, 7, 8, 9, 10, 11, 12, 13, 14, 15, 16, 17, 18, 19, 20](List)\n",
	"[\n    1: [\n        2: [\n            3: \"x\"\n        ](Catalog)\n    ](Catalog)\n](Catalog)\n",
	"[1, 2, 3, 4, 5, 6, 7, 8, 9, 10, 11, 12, 13, 14, 15, 16, 17, 18](Queue)\n",
	"[\"é😀\", 'ü', 1, 2](List)\n",
	"[\n    \"ключ\": 1\n    \"ß\": [true, 'é', \"日本\"](Set)\n](Catalog)\n",
	// tokens that are long in bytes but short in characters, and the other way round (the diagnostic quotes and clips the unexpected token)
	"[\"日本語の文字列がここにあります\", \"éééééééééééééééééééééé\", \"😀😀😀😀😀😀😀😀😀😀😀😀\", 1](List)\n",
	"[\n    \"これは十九文字の日本語のキーですよね\": 1\n    \"an ASCII string that is a little longer than forty characters\": \"ünïcödé text of about forty-one characters\"\n](Catalog)\n",
	"[\n    \"k1\": 1\n    \"k2\": 2\n    \"k3\": 3\n    \"k4\": 4\n    \"k5\": 5\n    \"k6\": 6\n    \"k7\": 7\n](Catalog)\n",
}

func corpusEdits(di int) func(r *engine.Rec) {
	return func(r *engine.Rec) { corpusEditsDoc(r, di) }
}

func corpusEditsDoc(r *engine.Rec, only int) {
	ins := []string{"[", "]", "(", ")", ":", ",", "\n", "x", "\"", "1", " ", "'"}
	seen := map[string]bool{}
	try := func(part, src string, injected int) {
		if seen[src] && injected == 0 {
			return
		}
		seen[src] = true
		if r.Wanted(inCase{part, src}) {
			judge(r, part, src, injected)
		}
	}
	for di, doc := range corpus {
		if di != only {
			continue
		}
		if r.TimeUp() {
			r.Incomplete("time budget")
			break
		}
		try("corpus", doc, 0)
		for i := 0; i <= len(doc); i++ {
			try("prefix", doc[:i], 0)
		}
		for i := 0; i < len(doc); i++ {
			try("deletion", doc[:i]+doc[i+1:], 0)
		}
		for i := 0; i <= len(doc); i++ {
			for _, c := range ins {
				try("insertion", doc[:i]+c+doc[i:], 0)
				if i < len(doc) {
					try("substitution", doc[:i]+c+doc[i+1:], 0)
				}
			}
		}
		// mismatched contexts
		for _, t := range []string{"Array", "Catalog", "List", "Map", "Queue", "Set", "Stack"} {
			if i := strings.LastIndex(doc, "("); i >= 0 {
				try("context", doc[:i]+"("+t+")\n", 0)
			}
		}
		// an illegal character at every token boundary (approximated by every offset that is not inside a quoted literal)
		inq := false
		inComplex := make([]bool, len(doc)+1) // offsets strictly inside a complex literal split a token
		for _, m := range complexLit.FindAllStringIndex(doc, -1) {
			for i := m[0] + 1; i < m[1]; i++ {
				inComplex[i] = true
			}
		}
		for i := 0; i <= len(doc); i++ {
			if inComplex[i] {
				continue
			}
			if i < len(doc) && (doc[i] == '"' || doc[i] == '\'') {
				inq = !inq
				if inq {
					try("illegal-char", doc[:i]+"~"+doc[i:], i+1)
				}
				continue
			}
			if inq {
				continue
			}
			if i > 0 && isWord(doc[i-1]) && i < len(doc) && isWord(doc[i]) {
				continue // inside a token
			}
			try("illegal-char", doc[:i]+"~"+doc[i:], i+1)
		}
	}
	r.States += int64(len(seen))
	r.Distinct += int64(len(seen))
	r.Transitions += r.Evals
	r.Sample(inCase{"illegal-char", corpus[only][:8] + "~" + corpus[only][8:]})
}

var complexLit = regexp.MustCompile(`\([-+0-9.eE]+i\)`)

func isWord(b byte) bool {
	return b == '.' || b == '+' || b == '-' || (b >= '0' && b <= '9') || (b >= 'a' && b <= 'z') || (b >= 'A' && b <= 'Z')
}

func ladder(r *engine.Rec) {
	depths := []int{1, 2, 3, 5, 8, 13, 21, 34, 55, 89, 144, 233}
	if r.Tier == "thorough" {
		depths = append(depths, 377, 610, 987, 1597, 2000)
	}
	for _, d := range depths {
		if r.TimeUp() {
			r.Incomplete("time budget")
			break
		}
		src := strings.Repeat("[", d) + "1" + strings.Repeat("](List)", d)
		if r.Wanted(inCase{"nesting", fmt.Sprint(d)}) {
			res := cdcnx.Parse(src)
			r.Evals++
			r.Max("fuel_ticks", res.Out.Ticks)
			if res.Out.Panicked || res.ParserHung || res.Leaked {
				r.Violation("deeply nested valid document is not parsed", fmt.Sprintf("depth %d: %s", d, firstLine(res.Out.Value)), inCase{"nesting", fmt.Sprint(d)})
			}
			bad := strings.Repeat("[", d) + "1" + strings.Repeat("](List)", d-1)
			judge(r, "nesting-unclosed", bad, 0)
		}
	}
	// sources around the capacity of the token queue (16) and its multiples: n tokens of one rune each, with and
	// without separators, closed and unclosed (the scanner emits one more token, EOF, than the source has)
	for n := 1; n <= 70; n++ {
		if r.TimeUp() {
			r.Incomplete("time budget")
			break
		}
		digits := ""
		for i := 0; i < n; i++ {
			if i > 0 {
				digits += ","
			}
			digits += fmt.Sprint(i % 10)
		}
		for _, src := range []string{
			strings.Repeat("[", n), strings.Repeat("]", n), strings.Repeat("\n", n), strings.Repeat(":", n),
			("[" + digits)[:n], ("[" + digits + "](List)")[:min(n, len(digits)+8)], "[" + digits + "](List)", "[" + digits + "](Queue)",
			strings.Repeat("[", n/2) + strings.Repeat("]", n-n/2),
		} {
			judge(r, "token-count-boundary", src, 0)
		}
	}
	r.States += int64(len(depths) + 70)
	r.Distinct += int64(len(depths) + 70)
	r.Transitions += r.Evals
	r.Sample(inCase{"nesting", "[[[1](List)](List)](List)"})
}

// reuse: one parser instance used for a history of calls behaves like a fresh
// parser on every call (a failed parse must not poison the instance).
func reuse(r *engine.Rec) {
	first := []string{"[1 1](List)", "[", "]", "[1, 2](Catalog)", "[\n    1\n    2 3\n](List)\n", "[1](List) x", "[1, 2, 3, 4, 5, 6, 7, 8, 9, 10, 11, 12, 13, 14, 15, 16, 17, 18 19](List)",
		"[\"a\": ](Catalog)", "[1](Lisp)", "x", "[(1.0+2.0i)", "[1](List)", "[ ](Set)\n\n"}
	second := []string{"[1](List)", "[\n    \"a\": 1\n    \"b\": 2\n](Catalog)\n", "[2, 3](Set)", "[", "[1 1](List)", "[ ](Queue)",
		// rejected early with more tokens still to come than the token queue holds (the scanner must be released), and accepted after as many
		"[1 1, 2, 3, 4, 5, 6, 7, 8, 9, 10, 11, 12, 13, 14, 15, 16, 17, 18, 19, 20](List)", "x [1, 2, 3, 4, 5, 6, 7, 8, 9, 10, 11, 12, 13, 14, 15, 16, 17, 18, 19, 20](List)",
		"[1, 2, 3, 4, 5, 6, 7, 8, 9, 10, 11, 12, 13, 14, 15, 16, 17, 18, 19, 20](List)"}
	type rc struct {
		First  string `json:"first"`
		Second string `json:"then"`
		Third  string `json:"then2,omitempty"`
	}
	outcome := func(p cdc.ParserLike, src string) string {
		var v any
		var out rt.Outcome
		ex := rt.RunOnce(rt.Config{Elide: true}, nil, []rt.ThreadSpec{{Name: "parser", Body: func() {
			out = rt.Protect(cdcnx.Budget(len(src)), func() { v = p.ParseSource(src) })
		}}})
		switch {
		case len(ex.Stuck) > 0:
			return "HANG/LEAK " + fmt.Sprint(ex.SortedStuck())
		case out.Fuel:
			return "NONTERMINATION"
		case out.Panicked:
			return "panic(runtime=" + fmt.Sprint(out.Runtime) + "): " + out.Value
		}
		return "value: " + dump.Dump(v)
	}
	n := 0
	for _, a := range first {
		for _, b := range second {
			c := rc{First: a, Second: b}
			if !r.Wanted(c) {
				continue
			}
			n++
			p := cdc.Parser().Make()
			outcome(p, a)
			got := outcome(p, b)
			want := outcome(cdc.Parser().Make(), b)
			r.Evals += 3
			if got != want {
				r.Violation("a parser instance behaves differently after an earlier call (state survives between calls)", fmt.Sprintf("after %q, parsing %q:\n got  %s\n want %s", a, b, firstLine(got), firstLine(want)), c)
				continue
			}
			// and once more
			got3 := outcome(p, second[0])
			want3 := outcome(cdc.Parser().Make(), second[0])
			r.Evals += 2
			if got3 != want3 {
				r.Violation("a parser instance behaves differently after an earlier call (state survives between calls)", fmt.Sprintf("after %q and %q, parsing %q:\n got  %s\n want %s", a, b, second[0], firstLine(got3), firstLine(want3)), rc{a, b, second[0]})
			}
		}
	}
	r.States += int64(n)
	r.Distinct += int64(n)
	r.Transitions += r.Evals
	r.Sample(rc{First: "[1 1](List)", Second: "[1](List)"})
}

// deepSets: a Set (ordered by the collator, which has its own depth limit) of deeply nested items
func deepSets(r *engine.Rec) {
	n := 0
	for d := 1; d <= 24; d++ {
		for _, kind := range []string{"Set", "Catalog", "List"} {
			nest := func(leaf string) string { return strings.Repeat("[", d) + leaf + strings.Repeat("](List)", d) }
			src := "[" + nest("1") + ", " + nest("2") + "](" + kind + ")"
			if kind == "Catalog" {
				src = "[1: " + nest("1") + ", 2: " + nest("2") + "](Catalog)"
			}
			if !r.Wanted(inCase{"deep-items", src}) {
				continue
			}
			n++
			judge(r, "deep-items", src, 0)
		}
	}
	r.States += int64(n)
	r.Distinct += int64(n)
	r.Transitions += r.Evals
	r.Sample(inCase{"deep-items", "[[[1](List)](List), [[2](List)](List)](Set)"})
}

func init() {
	engine.RegisterRacePrograms("C12", racePrograms)
	engine.Register(&engine.Check{
		ID:        "C12",
		Technique: "bounded-exhaustive input enumeration on the real scanner+parser, each parse run as a two-thread program under the scheduler (so a parked scanner goroutine after the call is a scheduler fact, not a sleep-and-count): all strings of <=4 lexemes over an 18-lexeme alphabet plus all <=5-lexeme strings starting with '[', all strings of <=3 raw characters, every prefix/deletion/insertion/substitution/context swap/illegal-character injection of a corpus, a nesting ladder; non-termination by fuel",
		Rule:      "case = one input string; the diagnostic's token header is checked against the source text (line, column, quoted text)",
		Assume:    []string{"coverage-guided fuzzing (sampling) is replaced by the larger deterministic enumeration of the thorough tier", "stack exhaustion by million-level nesting is out of reach (scanner is quadratic); the ladder stops at 2000 levels"},
		Budget: func(tier string) time.Duration {
			if tier == "thorough" {
				return 25 * time.Minute
			}
			return 3 * time.Minute
		},
		Units: func(string) []engine.Unit {
			us := []engine.Unit{}
			for _, l := range lexemes {
				us = append(us, engine.Unit{Name: "lexemes-" + strconv.Quote(l), Run: lexemeUnit(l)})
			}
			us = append(us, engine.Unit{Name: "raw-characters", Run: rawChars}, engine.Unit{Name: "nesting-ladder", Early: true, Run: ladder}, engine.Unit{Name: "parser-reuse", Early: true, Run: reuse}, engine.Unit{Name: "deep-items", Run: deepSets}, engine.RacePassUnit("C12"),
				engine.Unit{Name: "simultaneous-valid", Run: simultaneous("simultaneous-valid", [2]string{"[1, 2](List)", "['a'](Set)"})},
				engine.Unit{Name: "simultaneous-rejected", Run: simultaneous("simultaneous-rejected", [2]string{"[1 2, 3](List)", "[4, 5 6](Stack)"})},
				engine.Unit{Name: "simultaneous-valid-and-rejected", Run: simultaneous("simultaneous-valid-and-rejected", [2]string{"[1, 2](List)", "[4 5, 6](Stack)"})})
			for di := range corpus {
				us = append(us, engine.Unit{Name: fmt.Sprintf("corpus-edits-%d", di), Run: corpusEdits(di)})
			}
			return us
		},
	})
}

// racePrograms: parses that run at the same time, for the auxiliary pass under
// Go's race detector. The first program is the first thing the process does,
// so whatever the scanner or parser classes set up lazily is set up by several
// goroutines at once.
func racePrograms() []engine.RaceProgram {
	mk := func(name string, docs []string) engine.RaceProgram {
		return engine.RaceProgram{Name: name, Run: func() {
			var start, done sync.WaitGroup
			start.Add(1)
			for _, d := range docs {
				d := d
				done.Add(1)
				go func() {
					defer done.Done()
					defer func() { recover() }()
					start.Wait()
					cdc.Notation().Make().ParseSource(d)
				}()
			}
			start.Done()
			done.Wait()
		}}
	}
	valid := []string{"[1, 2, 3](List)", "[\n    \"a\": 1\n    \"b\": [true, false](Set)\n](Map)\n", "[ ](Array)\n", "[1.5, (1.0+2.0i), 'a', 0xff, nil](Stack)"}
	bad := []string{"[1 2, 3, 4](List)", "[\n    1\n    2 3\n](List)\n", "[\"a\": ](Catalog)", "[1](Lisp)", "[1, 2, 3, 4, 5, 6, 7, 8, 9, 10, 11, 12, 13, 14, 15, 16, 17, 18 19, 20](List)"}
	return []engine.RaceProgram{
		mk("first parses of the process, all at once", append(append([]string(nil), valid...), valid...)),
		mk("rejected sources at the same time", append(append([]string(nil), bad...), bad...)),
		mk("valid and rejected sources at the same time", append(append([]string(nil), valid...), bad...)),
	}
}

// simultaneous: two calls of ParseSource at the same time, explored from warm
// and from cold package-level state (what the scanner and parser classes set up
// lazily is then set up during the explored executions): each call must end as
// it ends alone, no goroutine may be left behind, and no execution may race.
func simultaneous(name string, docs [2]string) func(r *engine.Rec) {
	return func(r *engine.Rec) {
		var want [2]string
		for i, d := range docs {
			res := cdcnx.Parse(d)
			want[i] = "value"
			if res.Out.Panicked {
				want[i] = firstLine(res.Out.Value)
			}
		}
		prog := func() ([]rt.ThreadSpec, func(*rt.Exec) []string) {
			var outs [2]rt.Outcome
			mk := func(i int) rt.ThreadSpec {
				return rt.ThreadSpec{Name: fmt.Sprint("caller", i), Body: func() {
					outs[i] = rt.Protect(0, func() { cdc.Notation().Make().ParseSource(docs[i]) })
				}}
			}
			return []rt.ThreadSpec{mk(0), mk(1)}, func(ex *rt.Exec) []string {
				var what []string
				for i := range docs {
					got := "value"
					if outs[i].Panicked {
						got = firstLine(outs[i].Value)
					}
					switch {
					case outs[i].Panicked && outs[i].Runtime:
						what = append(what, "ParseSource fails with a Go runtime error when another parse runs at the same time: "+common.PanicClass(outs[i].Value)+"\x00"+fmt.Sprintf("%q: %s", docs[i], outs[i].Value))
					case got != want[i]:
						what = append(what, "ParseSource ends differently when another parse runs at the same time\x00"+fmt.Sprintf("%q: %q, alone %q", docs[i], got, want[i]))
					}
				}
				if len(ex.Stuck) > 0 {
					what = append(what, "a call or a scanner goroutine is parked forever with two parses at the same time\x00"+fmt.Sprint(ex.SortedStuck()))
				}
				for _, rc := range ex.Races {
					what = append(what, common.RaceSig(rc)+"\x00"+rc.String())
				}
				for _, p := range ex.Panics {
					if p.Library {
						what = append(what, "the scanner goroutine panics: "+common.PanicClass(p.Value)+"\x00"+p.Value)
					}
				}
				return what
			}
		}
		o := schedx.Opts{Name: name, Desc: docs[0] + " || " + docs[1], SigPrefix: "two parses: ", SkipA: true, Bounds: []int{0, 1}, CapB: 30000, ColdStart: []int{0, 1}, ColdCap: 30000}
		if r.Tier == "thorough" {
			o.Bounds, o.CapB, o.ColdStart, o.ColdCap = []int{0, 1, 2}, 1000000, []int{0, 1, 2}, 1000000
		}
		schedx.Explore(r, prog, o)
	}
}
