// Package c14: Map behaves exactly like a Go map and its views stay coherent.
package c14

import (
	"fmt"
	"reflect"
	"sort"
	"time"

	age "github.com/craterdog/go-collection-framework/v4/agent"
	col "github.com/craterdog/go-collection-framework/v4/collection"
	rt "github.com/craterdog/go-collection-framework/v4/verifrt"
	"verif/checks/common"
	"verif/engine"
	"verif/engine/dump"
	"verif/engine/seqx"
)

type Op struct {
	K  string `json:"k"`
	Ki int    `json:"key,omitempty"`
	Vi int    `json:"val,omitempty"`
	Ks []int  `json:"keys,omitempty"`
}

const fuel = 2000000

var vals = []int{0, 7} // the zero value is storable: absent and present-with-zero differ only in size/keys

type cfg[K comparable] struct {
	name string
	keys []K
}

func keySeqs(nkeys, maxLen int) [][]int {
	out := [][]int{{}}
	var rec func(cur []int)
	rec = func(cur []int) {
		if len(cur) == maxLen {
			return
		}
		for k := 0; k < nkeys; k++ {
			n := append(append([]int(nil), cur...), k)
			out = append(out, n)
			rec(n)
		}
	}
	rec(nil)
	return out
}

func run[K comparable](r *engine.Rec, c *cfg[K]) {
	name := c.name
	seqLen := 2
	if r.Tier == "thorough" {
		seqLen = 4
	}
	seqs := keySeqs(len(c.keys), seqLen)
	M := func() col.MapClassLike[K, int] { return col.Map[K, int](common.N()) }
	A := func(k K, v int) col.AssociationLike[K, int] { return col.Association[K, int](common.N()).Make(k, v) }
	s := &seqx.Search[Op]{Name: name, MaxSize: 99}
	s.Inits = []Op{{K: "Make"}, {K: "MakeFromMap"}, {K: "MakeFromMap", Ks: []int{0, 1}}, {K: "MakeFromArray"}, {K: "MakeFromSequence"},
		{K: "MakeFromSequenceOfMap", Ks: []int{0, 1}}, {K: "MakeFromSequenceOfMap"}, {K: "MakeFromSequenceOfCatalog", Ks: []int{1, 0}}}
	var guardSrc any
	var guardDump string
	gk := func() string {
		if guardSrc != nil {
			return "guarded:"
		}
		return ""
	}
	for _, ks := range keySeqs(len(c.keys)-1, 3) {
		if len(ks) >= 2 {
			s.Inits = append(s.Inits, Op{K: "MakeFromArray", Ks: ks}, Op{K: "MakeFromSequence", Ks: ks})
		}
	}
	s.Ops = func(int) []Op {
		var ops []Op
		for k := range c.keys {
			if k < len(c.keys)-1 {
				for v := range vals {
					ops = append(ops, Op{K: "SetValue", Ki: k, Vi: v})
				}
			}
			ops = append(ops, Op{K: "GetValue", Ki: k}, Op{K: "RemoveValue", Ki: k})
		}
		for _, ks := range seqs {
			ops = append(ops, Op{K: "GetValues", Ks: ks}, Op{K: "RemoveValues", Ks: ks})
		}
		ops = append(ops, Op{K: "RemoveAll"}, Op{K: "Observe"},
			Op{K: "KeysThenRemoveAll"}, Op{K: "IteratorThenRemoveAll"}, Op{K: "ArrayThenSet"})
		return ops
	}
	build := func(op Op) (m col.MapLike[K, int], g map[K]int, out rt.Outcome) {
		g = map[K]int{}
		guardSrc, guardDump = nil, ""
		out = rt.Protect(fuel, func() {
			var as []col.AssociationLike[K, int]
			for i, ki := range op.Ks {
				v := vals[i%len(vals)] + i // position dependent so that "last wins" is observable
				as = append(as, A(c.keys[ki], v))
				g[c.keys[ki]] = v
			}
			switch op.K {
			case "Make":
				m = M().Make()
			case "MakeFromMap":
				src := map[K]int{}
				for k, v := range g {
					src[k] = v
				}
				m = M().MakeFromMap(src)
			case "MakeFromArray":
				m = M().MakeFromArray(as)
			case "MakeFromSequence":
				m = M().MakeFromSequence(col.List[col.AssociationLike[K, int]](common.N()).MakeFromArray(as))
			case "MakeFromSequenceOfMap":
				src := M().MakeFromArray(as)
				m = M().MakeFromSequence(src)
				guardSrc, guardDump = src, common.View(src)
			case "MakeFromSequenceOfCatalog":
				src := col.Catalog[K, int](common.N()).MakeFromArray(as)
				m = M().MakeFromSequence(src)
				guardSrc, guardDump = src, common.View(src)
			}
		})
		return
	}
	keyseq := func(op Op) col.Sequential[K] {
		var ks []K
		for _, ki := range op.Ks {
			ks = append(ks, c.keys[ki])
		}
		return col.List[K](common.N()).MakeFromArray(ks)
	}
	pairs := func(as []col.AssociationLike[K, int]) []string {
		var out []string
		for _, a := range as {
			out = append(out, fmt.Sprintf("%#v=%d", a.GetKey(), a.GetValue()))
		}
		sort.Strings(out)
		return out
	}
	gpairs := func(g map[K]int) []string {
		var out []string
		for k, v := range g {
			out = append(out, fmt.Sprintf("%#v=%d", k, v))
		}
		sort.Strings(out)
		return out
	}
	// apply performs op on both the real map and the Go map; returns results of both
	apply := func(op Op, m col.MapLike[K, int], g map[K]int) (res, want any, out rt.Outcome) {
		out = rt.Protect(fuel, func() {
			switch op.K {
			case "SetValue":
				m.SetValue(c.keys[op.Ki], vals[op.Vi])
				g[c.keys[op.Ki]] = vals[op.Vi]
			case "GetValue":
				res, want = m.GetValue(c.keys[op.Ki]), g[c.keys[op.Ki]]
			case "RemoveValue":
				want = g[c.keys[op.Ki]]
				delete(g, c.keys[op.Ki])
				res = m.RemoveValue(c.keys[op.Ki])
			case "GetValues":
				w := []int{}
				for _, ki := range op.Ks {
					w = append(w, g[c.keys[ki]])
				}
				want = w
				res = append([]int{}, m.GetValues(keyseq(op)).AsArray()...)
			case "RemoveValues":
				w := []int{}
				for _, ki := range op.Ks {
					w = append(w, g[c.keys[ki]])
					delete(g, c.keys[ki])
				}
				want = w
				res = append([]int{}, m.RemoveValues(keyseq(op)).AsArray()...)
			case "RemoveAll":
				m.RemoveAll()
				for k := range g {
					delete(g, k)
				}
			case "KeysThenRemoveAll":
				var wk []string
				for k := range g {
					wk = append(wk, fmt.Sprintf("%#v", k))
				}
				sort.Strings(wk)
				keys := m.GetKeys()
				m.RemoveAll()
				for k := range g {
					delete(g, k)
				}
				var gk []string
				for _, k := range keys.AsArray() {
					gk = append(gk, fmt.Sprintf("%#v", k))
				}
				sort.Strings(gk)
				res, want = fmt.Sprint(gk), fmt.Sprint(wk)
			case "IteratorThenRemoveAll":
				want = fmt.Sprint(gpairs(g))
				it := m.GetIterator()
				m.RemoveAll()
				for k := range g {
					delete(g, k)
				}
				var as []col.AssociationLike[K, int]
				for it.HasNext() {
					as = append(as, it.GetNext())
				}
				res = fmt.Sprint(pairs(as))
			case "ArrayThenSet":
				want = fmt.Sprint(gpairs(g))
				arr := m.AsArray()
				m.SetValue(c.keys[0], 99)
				g[c.keys[0]] = 99
				res = fmt.Sprint(pairs(arr))
			}
		})
		return
	}
	s.Exec = func(path []Op, op Op) seqx.Step {
		cs := seqx.Case[Op]{Search: name, Path: path, Op: op}
		viol := func(sig, detail string) seqx.Step {
			r.Violation(sig, fmt.Sprintf("[%s] %s\npath: %+v\nop: %+v", name, detail, path, op), cs)
			return seqx.Step{}
		}
		coherent := func(m col.MapLike[K, int], g map[K]int, what string) (seqx.Step, bool) {
			arr := m.AsArray()
			if !reflect.DeepEqual(pairs(arr), gpairs(g)) && !(len(arr) == 0 && len(g) == 0) {
				return viol(what+": array view differs from the Go map", fmt.Sprint(pairs(arr), gpairs(g))), false
			}
			var ia []col.AssociationLike[K, int]
			it := m.GetIterator()
			for it.HasNext() {
				ia = append(ia, it.GetNext())
			}
			if len(ia) != len(g) || (len(g) > 0 && !reflect.DeepEqual(pairs(ia), gpairs(g))) {
				return viol(what+": iteration differs from the Go map", fmt.Sprint(pairs(ia), gpairs(g))), false
			}
			{
				// two iterators alive at once, with a GetKeys call in between (whatever serves the views must not be shared)
				type AL = col.AssociationLike[K, int]
				if why := common.TwoLiveIterators[AL](func() age.IteratorLike[AL] { m.GetKeys(); return m.GetIterator() }, arr, false); why != "" {
					return viol(what+": two iterators over one map influence each other", why), false
				}
			}
			keys := m.GetKeys().AsArray()
			seen := map[K]bool{}
			for _, k := range keys {
				if _, ok := g[k]; !ok || seen[k] {
					return viol(what+": GetKeys lists an absent or repeated key", fmt.Sprint(keys)), false
				}
				seen[k] = true
			}
			if len(keys) != len(g) || m.GetSize() != len(g) || m.IsEmpty() != (len(g) == 0) {
				return viol(what+": keys/size/emptiness differ from the Go map", fmt.Sprint(len(keys), m.GetSize(), len(g))), false
			}
			for _, k := range c.keys {
				if m.GetValue(k) != g[k] {
					return viol(what+": GetValue differs from the Go map", fmt.Sprint(k, m.GetValue(k), g[k])), false
				}
			}
			return seqx.Step{}, true
		}
		if len(path) == 0 {
			m, g, out := build(op)
			if out.Panicked {
				return viol("constructor "+op.K+" fails", out.Value)
			}
			if st, ok := coherent(m, g, "constructor "+op.K); !ok {
				return st
			}
			return seqx.Step{Key: gk() + dump.Dump(m), Size: len(g), Expand: true}
		}
		m, g, out := build(path[0])
		if out.Panicked {
			return seqx.Step{}
		}
		for _, p := range path[1:] {
			apply(p, m, g)
			rt.Protect(fuel, func() { m.AsArray(); m.GetKeys(); m.GetSize(); m.GetIterator() })
		}
		res, want, o := apply(op, m, g)
		after := dump.Dump(m)
		if o.Fuel {
			return viol(op.K+" does not terminate", "fuel")
		}
		if o.Panicked {
			return viol(op.K+" panics", o.Value)
		}
		r.Outcome(op.K)
		if want != nil && !reflect.DeepEqual(res, want) {
			return viol(op.K+" wrong result", fmt.Sprintf("got %v want %v", res, want))
		}
		if st, ok := coherent(m, g, "after "+op.K); !ok {
			return st
		}
		if why := seqx.Interference(func() (func() string, func(), bool) {
			mm, gg, out := build(path[0])
			if out.Panicked {
				return nil, nil, false
			}
			for _, p := range path[1:] {
				apply(p, mm, gg)
			}
			return func() string { return common.View(mm) }, func() { apply(op, mm, gg) }, true
		}, []func() func() string{
			func() func() string {
				b := col.Map[K, int](common.N()).Make()
				b.SetValue(c.keys[0], 71)
				return func() string { return common.View(b) }
			},
			func() func() string {
				b := col.Map[K, int](common.N()).MakeFromMap(map[K]int{})
				b2 := col.Map[K, int](common.N()).MakeFromMap(map[K]int{c.keys[1]: 81})
				b2.RemoveAll()
				return func() string { return common.View(b) + common.View(b2) }
			},
			func() func() string {
				b := col.Map[K, int](common.N()).MakeFromMap(map[K]int{c.keys[0]: 91, c.keys[1]: 92})
				b.RemoveValue(c.keys[0])
				return func() string { return common.View(b) }
			},
		}); why != "" {
			return viol("maps of one type are not independent of each other", why)
		}
		if guardSrc != nil && common.View(guardSrc) != guardDump {
			return viol(op.K+" on a map built from another collection changes that collection (shared storage)", fmt.Sprint(path[0]))
		}
		if len(r.Samples) < 2 && len(path) >= 2 {
			r.Sample(map[string]any{"search": name, "path": fmt.Sprintf("%+v", path), "op": fmt.Sprintf("%+v", op), "after": fmt.Sprint(gpairs(g))})
		}
		return seqx.Step{Key: gk() + after, Size: len(g), Expand: true}
	}
	s.Run(r)
}

func units(string) []engine.Unit {
	return []engine.Unit{
		{Name: "string", Run: func(r *engine.Rec) { run(r, &cfg[string]{name: "Map[string]", keys: []string{"b", "a", "", "zz"}}) }},
		{Name: "int", Run: func(r *engine.Rec) { run(r, &cfg[int]{name: "Map[int]", keys: []int{2, -1, 0, 9}}) }},
		{Name: "rune", Run: func(r *engine.Rec) { run(r, &cfg[rune]{name: "Map[rune]", keys: []rune{'b', 'a', 0, 'z'}}) }},
		{Name: "any", Run: func(r *engine.Rec) { run(r, &cfg[any]{name: "Map[any]", keys: []any{1, int64(1), "1", 2.5}}) }},
		{Name: "values-of-every-kind-and-the-source-map", Run: valueKinds},
	}
}

func init() {
	engine.Register(&engine.Check{
		ID:        "C14",
		Technique: "explicit-state search over the real Map driven in lock-step with a Go map: all 27 contents over 3 insertable keys x 2 values x every operation (all key sequences up to length 2/3), constructors with repeated keys in every position, snapshot-then-mutate histories",
		Rule:      "state = dump of the map; transition = (state, op) compared with a Go map; unordered views compared as multisets",
		Assume:    []string{"hashable key types string, int, rune, any; NaN keys excluded"},
		Budget: func(tier string) time.Duration {
			// the quick search finishes in seconds; the budget only bounds a search whose state space a change of
			// the library has made unbounded (a private modification counter): reported as not exhaustive
			if tier == "thorough" {
				return 15 * time.Minute
			}
			return 90 * time.Second
		},
		Units: units,
	})
}
