package c14

import (
	"fmt"
	"sort"

	col "github.com/craterdog/go-collection-framework/v4/collection"
	rt "github.com/craterdog/go-collection-framework/v4/verifrt"
	"verif/checks/common"
	"verif/engine"
)

// Two things the lock-step search does not reach. (1) Values of every kind: a
// Go map accepts any value under a key and replaces it on update, whether or
// not values of that type can be compared with ==; histories of SetValue over
// present and absent keys with values that are slices, Go maps, functions-free
// structs, the library's own Arrays and Maps, nil. (2) The Go map a Map was
// built from stays the caller's: changing it afterwards does not change the
// Map, changing the Map does not change it, and two Maps built from one Go map
// are independent.

type moreCase struct {
	Part  string `json:"part"`
	Kind  string `json:"kind,omitempty"`
	Steps string `json:"steps"`
}

func render(m col.MapLike[string, any]) string {
	var out []string
	for _, a := range m.AsArray() {
		out = append(out, a.GetKey()+"="+common.View(a.GetValue()))
	}
	sort.Strings(out)
	return fmt.Sprint(out)
}

func valueKinds(r *engine.Rec) {
	N := common.N
	kinds := map[string][3]func() any{
		"Go slices":              {func() any { return []int{1} }, func() any { return []int{1} }, func() any { return []int{2, 3} }},
		"Go maps":                {func() any { return map[string]int{"x": 1} }, func() any { return map[string]int{"x": 1} }, func() any { return map[string]int{} }},
		"structs holding slices": {func() any { return struct{ S []int }{[]int{1}} }, func() any { return struct{ S []int }{[]int{1}} }, func() any { return struct{ S []int }{nil} }},
		"Arrays of the library":  {func() any { return col.Array[int](N()).MakeFromArray([]int{1}) }, func() any { return col.Array[int](N()).MakeFromArray([]int{1}) }, func() any { return col.Array[int](N()).MakeFromArray([]int{2}) }},
		"Maps of the library":    {func() any { return col.Map[string, int](N()).MakeFromMap(map[string]int{"x": 1}) }, func() any { return col.Map[string, int](N()).MakeFromMap(map[string]int{"x": 1}) }, func() any { return col.Map[string, int](N()).Make() }},
		"Lists of the library":   {func() any { return col.List[int](N()).MakeFromArray([]int{1}) }, func() any { return col.List[int](N()).MakeFromArray([]int{1}) }, func() any { return col.List[int](N()).Make() }},
		"nil and zero values":    {func() any { return nil }, func() any { return 0 }, func() any { return "" }},
		"mixed":                  {func() any { return []int{1} }, func() any { return 1 }, func() any { return map[string]int{} }},
	}
	keys := []string{"a", "b"}
	cases := 0
	// every history of up to 4 SetValue calls over 2 keys x 3 values of the kind
	var hist func(prefix []int, f func(h []int))
	hist = func(prefix []int, f func(h []int)) {
		if len(prefix) > 0 {
			f(prefix)
		}
		if len(prefix) == 4 {
			return
		}
		for step := 0; step < 6; step++ {
			hist(append(append([]int{}, prefix...), step), f)
		}
	}
	for kname, mk := range kinds {
		hist(nil, func(h []int) {
			c := moreCase{"values of every kind", kname, fmt.Sprint(h)}
			if !r.Wanted(c) {
				return
			}
			cases++
			model := map[string]string{}
			var got string
			var read []string
			o := rt.Protect(2000000, func() {
				m := col.Map[string, any](N()).Make()
				for _, step := range h {
					k, v := keys[step%2], mk[step/2]()
					m.SetValue(k, v)
					model[k] = common.View(v)
				}
				got = render(m)
				for _, k := range keys {
					read = append(read, k+"="+common.View(m.GetValue(k)))
				}
			})
			r.Evals++
			var want, wantRead []string
			for k, v := range model {
				want = append(want, k+"="+v)
			}
			sort.Strings(want)
			for _, k := range keys {
				if v, ok := model[k]; ok {
					wantRead = append(wantRead, k+"="+v)
				} else {
					wantRead = append(wantRead, k+"="+common.View(nil))
				}
			}
			switch {
			case o.Panicked || o.Fuel:
				r.Violation("SetValue fails where a Go map accepts the value ("+kname+")", fmt.Sprintf("%+v: %s", c, o.Value), c)
			case got != fmt.Sprint(want):
				r.Violation("after SetValue calls the Map differs from a Go map given the same updates ("+kname+")", fmt.Sprintf("%+v: got %s want %v", c, got, want), c)
			case fmt.Sprint(read) != fmt.Sprint(wantRead):
				r.Violation("GetValue differs from a Go map given the same updates ("+kname+")", fmt.Sprintf("%+v: got %v want %v", c, read, wantRead), c)
			}
		})
	}
	// the Go map a Map was built from
	type step struct {
		name string
		f    func(src map[string]int, m1, m2 col.MapLike[string, int])
	}
	steps := []step{
		{"source: new key", func(src map[string]int, m1, m2 col.MapLike[string, int]) { src["n"] = 9 }},
		{"source: update", func(src map[string]int, m1, m2 col.MapLike[string, int]) { src["a"] = 91 }},
		{"source: delete", func(src map[string]int, m1, m2 col.MapLike[string, int]) { delete(src, "a") }},
		{"first Map: SetValue new", func(src map[string]int, m1, m2 col.MapLike[string, int]) { m1.SetValue("n", 8) }},
		{"first Map: SetValue present", func(src map[string]int, m1, m2 col.MapLike[string, int]) { m1.SetValue("a", 81) }},
		{"first Map: RemoveValue", func(src map[string]int, m1, m2 col.MapLike[string, int]) { m1.RemoveValue("b") }},
		{"first Map: RemoveAll", func(src map[string]int, m1, m2 col.MapLike[string, int]) { m1.RemoveAll() }},
	}
	show := func(m col.MapLike[string, int]) string {
		var out []string
		for _, a := range m.AsArray() {
			out = append(out, fmt.Sprint(a.GetKey(), "=", a.GetValue()))
		}
		sort.Strings(out)
		return fmt.Sprint(out)
	}
	showGo := func(m map[string]int) string {
		var out []string
		for k, v := range m {
			out = append(out, fmt.Sprint(k, "=", v))
		}
		sort.Strings(out)
		return fmt.Sprint(out)
	}
	for size := 0; size <= 3; size++ {
		for _, st := range steps {
			for _, ctor := range []string{"MakeFromMap"} {
				c := moreCase{"the source Go map stays the caller's", ctor + fmt.Sprint(" of ", size, " associations"), st.name}
				if !r.Wanted(c) {
					continue
				}
				cases++
				src := map[string]int{}
				for i := 0; i < size; i++ {
					src[[]string{"a", "b", "c"}[i]] = i + 1
				}
				var m1, m2 col.MapLike[string, int]
				var b [3]string
				var a [3]string
				o := rt.Protect(2000000, func() {
					m1 = col.Map[string, int](N()).MakeFromMap(src)
					m2 = col.Map[string, int](N()).MakeFromMap(src)
					b = [3]string{showGo(src), show(m1), show(m2)}
					st.f(src, m1, m2)
					a = [3]string{showGo(src), show(m1), show(m2)}
				})
				r.Evals++
				if o.Panicked || o.Fuel {
					continue // decided by the search units
				}
				changed := 0
				for i := range a {
					if a[i] != b[i] {
						changed++
					}
				}
				touched := 0 // the one that the step addresses
				if st.name[0] == 'f' {
					touched = 1
				}
				if changed > 1 || (changed == 1 && a[touched] == b[touched]) {
					r.Violation("a Map shares storage with the Go map it was built from (or with another Map built from it)", fmt.Sprintf("%+v: source/first/second before %v after %v", c, b, a), c)
				}
			}
		}
	}
	r.States += int64(cases)
	r.Distinct += int64(cases)
	r.Transitions += r.Evals
	r.Sample(moreCase{"values of every kind", "Go slices", "[0 2]"})
}
