package c09

import (
	"fmt"
	"math"

	age "github.com/craterdog/go-collection-framework/v4/agent"
	col "github.com/craterdog/go-collection-framework/v4/collection"
	rt "github.com/craterdog/go-collection-framework/v4/verifrt"
	"verif/checks/common"
	"verif/engine"
)

// Catalog keys are distinct under ==, not under the collator: int(1), int8(1)
// and int64(1) in a Catalog[any,V], two pointers to equal values, several NaN
// keys all rank Equal, and then the association's value decides the natural
// order. Every arrangement of such associations must be reordered by the
// Catalog's methods exactly as the sorter reorders the equivalent Go array.

type tieCase struct {
	Type  string `json:"key_type"`
	Order []int  `json:"association_order"`
	Vals  []int  `json:"values"`
	Op    string `json:"method"`
}

func tieKeys[K comparable](r *engine.Rec, tname string, keys []K) {
	type AL = col.AssociationLike[K, int]
	N := common.N()
	n := len(keys)
	perms := [][]int{}
	var rec func(cur []int, used int)
	rec = func(cur []int, used int) {
		if len(cur) >= 2 {
			perms = append(perms, append([]int(nil), cur...))
		}
		for k := 0; k < n; k++ {
			if used&(1<<k) == 0 {
				rec(append(cur, k), used|1<<k)
			}
		}
	}
	rec(nil, 0)
	natural := age.Collator[AL]().Make()
	for _, order := range perms {
		for vm := 0; vm < 1<<len(order); vm++ {
			vals := make([]int, len(order))
			for i := range vals {
				vals[i] = 1 + (vm>>i)&1
			}
			mk := func() col.CatalogLike[K, int] {
				c := col.Catalog[K, int](N).Make()
				for i, k := range order {
					c.SetValue(keys[k], vals[i])
				}
				return c
			}
			if mk().GetSize() != len(order) {
				continue // these keys are not distinct for the catalog (not this check's business)
			}
			for _, method := range []string{"SortValues", "ReverseValues"} {
				c := tieCase{tname, order, vals, method}
				cat := mk()
				want := mk().AsArray()
				var o rt.Outcome
				switch method {
				case "SortValues":
					age.Sorter[AL]().Make().SortValues(want)
					o = rt.Protect(budget(len(order))*8, func() { cat.SortValues() })
				case "ReverseValues":
					age.Sorter[AL]().Make().ReverseValues(want)
					o = rt.Protect(budget(len(order)), func() { cat.ReverseValues() })
				}
				r.Evals++
				got := cat.AsArray()
				desc := func(as []AL) string {
					s := ""
					for _, a := range as {
						s += fmt.Sprintf("(%T(%v):%d) ", a.GetKey(), a.GetKey(), a.GetValue())
					}
					return s
				}
				ok := !o.Panicked && len(got) == len(want)
				for i := 0; ok && i < len(got); i++ {
					// same association in the same place: values equal and keys identical (== fails for NaN, so compare the pair structurally too)
					if got[i].GetValue() != want[i].GetValue() || !(got[i].GetKey() == want[i].GetKey() || natural.CompareValues(got[i], want[i])) {
						ok = false
					}
				}
				if !ok {
					r.Violation("Catalog."+method+" differs from the sorter ("+tname+" keys that rank Equal)", fmt.Sprintf("got %s want %s %s", desc(got), desc(want), o.Value), c)
					continue
				}
				if method == "SortValues" {
					for i := 0; i+1 < len(got); i++ {
						if natural.RankValues(got[i], got[i+1]) == age.GreaterRank {
							r.Violation("Catalog.SortValues result is not ascending ("+tname+" keys that rank Equal)", desc(got), c)
							break
						}
					}
				}
			}
		}
	}
	r.States += int64(len(perms))
	r.Distinct += int64(len(perms))
}

func tieKeyUnit(r *engine.Rec) {
	tieKeys(r, "any", []any{int(1), int8(1), int64(1), int(2)})
	p0, p1, p2 := new(int), new(int), new(int)
	*p0, *p1, *p2 = 5, 5, 6
	tieKeys(r, "*int", []*int{p0, p1, p2})
	// every NaN is a key of its own
	tieKeys(r, "float64", []float64{math.NaN(), math.NaN(), 1, math.NaN()})
	r.Transitions += r.Evals
	r.Sample(tieCase{"any", []int{1, 0}, []int{2, 1}, "SortValues"})
}

// largeUnderScheduler: sorts long enough to cross any size threshold run as
// one-thread programs under the scheduler: when SortValues returns, the array
// is sorted and no goroutine it may have started is still running (a helper
// that outlives the call would still be writing into the caller's array).
func largeUnderScheduler(r *engine.Rec) {
	type lc struct {
		N     int    `json:"n"`
		Shape string `json:"shape"`
	}
	for _, n := range []int{600, 1025, 2049, 4097} {
		for sname, f := range map[string]func(i int) int{
			"reversed":      func(i int) int { return n - i },
			"pseudo-random": func(i int) int { return (i*7919 + 13) % (n + 3) },
		} {
			c := lc{n, sname}
			if !r.Wanted(c) {
				continue
			}
			a := make([]int, n)
			for i := range a {
				a[i] = f(i)
			}
			live, sortedAtReturn := 0, true
			var out rt.Outcome
			ex := rt.RunOnce(rt.Config{Elide: true}, nil, []rt.ThreadSpec{{Name: "caller", Body: func() {
				out = rt.Protect(budget(n)*4, func() { age.Sorter[int]().Make().SortValues(a) })
				live = rt.LiveLibraryThreads()
				for i := 0; i+1 < len(a); i++ {
					if a[i] > a[i+1] {
						sortedAtReturn = false
					}
				}
			}}})
			r.Evals++
			r.Transitions++
			switch {
			case out.Panicked || out.Fuel || len(ex.Stuck) > 0:
				r.Violation("SortValues of a long array fails or never returns", fmt.Sprintf("%+v: %s %v", c, out.Value, ex.SortedStuck()), c)
			case live > 0:
				r.Violation("a goroutine started by SortValues is still running when SortValues has returned", fmt.Sprintf("%+v: %d goroutines", c, live), c)
			case !sortedAtReturn:
				r.Violation("SortValues of a long array returns an array that is not ascending", fmt.Sprintf("%+v", c), c)
			}
		}
	}
	r.States += 8
	r.Distinct += 8
}
