package c09

import (
	"fmt"
	"math"
	"sort"

	age "github.com/craterdog/go-collection-framework/v4/agent"
	col "github.com/craterdog/go-collection-framework/v4/collection"
	rt "github.com/craterdog/go-collection-framework/v4/verifrt"
	"verif/checks/common"
	"verif/engine"
)

// elementKinds: "SortValues terminates and leaves an ordered permutation for
// every input array" - whatever the element type is. Values that Go's ==
// cannot compare (slices, Go maps, structs holding them, the library's Arrays
// and Maps), mixed under `any`, and values that == identifies although the
// ranker tells them apart (+0.0 and -0.0 under a sign-aware ranker): every
// arrangement with repetition of a few such values, lengths 0..5, through the
// Sorter and through List.SortValues.

type kindCase struct {
	Kind  string `json:"element_kind"`
	Via   string `json:"via"`
	Array string `json:"array"`
}

func kindsOf[V any](r *engine.Rec, kind string, pool []V, rank func(a, b V) age.Rank, custom bool) {
	maxLen := 5
	var arrs [][]int
	var rec func(cur []int)
	rec = func(cur []int) {
		arrs = append(arrs, append([]int(nil), cur...))
		if len(cur) == maxLen {
			return
		}
		for i := range pool {
			rec(append(cur, i))
		}
	}
	rec(nil)
	for _, idx := range arrs {
		for _, via := range []string{"Sorter", "List.SortValues"} {
			if custom && via == "List.SortValues" {
				via = "List.SortValuesWithRanker"
			}
			c := kindCase{kind, via, fmt.Sprint(idx)}
			if !r.Wanted(c) {
				continue
			}
			in := make([]V, len(idx))
			for i, k := range idx {
				in[i] = pool[k]
			}
			var got []V
			o := rt.Protect(budget(len(in))*4, func() {
				switch via {
				case "Sorter":
					work := append([]V(nil), in...)
					if custom {
						age.Sorter[V]().MakeWithRanker(rank).SortValues(work)
					} else {
						age.Sorter[V]().Make().SortValues(work)
					}
					got = work
				case "List.SortValues":
					l := col.List[V](common.N()).MakeFromArray(append([]V(nil), in...))
					l.SortValues()
					got = l.AsArray()
				default:
					l := col.List[V](common.N()).MakeFromArray(append([]V(nil), in...))
					l.SortValuesWithRanker(rank)
					got = l.AsArray()
				}
			})
			r.Evals++
			if o.Panicked || o.Fuel {
				r.Violation("SortValues fails or does not terminate for elements of kind: "+kind, fmt.Sprintf("%+v: %s", c, o.Value), c)
				continue
			}
			views := func(vs []V) []string {
				out := []string{}
				for _, v := range vs {
					out = append(out, common.View(v)+fmt.Sprint(signOf(v)))
				}
				sort.Strings(out)
				return out
			}
			if fmt.Sprint(views(got)) != fmt.Sprint(views(in)) {
				r.Violation("SortValues does not leave a permutation for elements of kind: "+kind, fmt.Sprintf("%+v: %v", c, views(got)), c)
				continue
			}
			for i := 0; i+1 < len(got); i++ {
				if rank(got[i], got[i+1]) == age.GreaterRank {
					r.Violation("SortValues does not leave the array ascending for elements of kind: "+kind, fmt.Sprintf("%+v: position %d", c, i+1), c)
					break
				}
			}
		}
	}
	r.States += int64(len(arrs))
	r.Distinct += int64(len(arrs))
}

func signOf(v any) string {
	if f, ok := v.(float64); ok && f == 0 && math.Signbit(f) {
		return "(negative zero)"
	}
	return ""
}

func elementKinds(r *engine.Rec) {
	N := common.N
	natAny := age.Collator[any]().Make()
	natSlice := age.Collator[[]int]().Make()
	natMap := age.Collator[map[string]int]().Make()
	type holder struct {
		Name string
		S    []int
	}
	natHolder := age.Collator[holder]().Make()
	kindsOf(r, "[]int", [][]int{{2}, {1, 5}, {1}}, natSlice.RankValues, false)
	kindsOf(r, "map[string]int", []map[string]int{{"b": 1}, {"a": 2}, {"a": 1}}, natMap.RankValues, false)
	kindsOf(r, "struct holding a slice", []holder{{"b", []int{1}}, {"a", []int{2}}, {"a", []int{1}}}, natHolder.RankValues, false)
	kindsOf(r, "any holding strings, slices, Go maps, Arrays and Maps of the library", []any{"s", []int{1}, map[string]int{"k": 1},
		col.Array[int](N()).MakeFromArray([]int{3}), col.Map[string, int](N()).MakeFromMap(map[string]int{"k": 2})}[:4], natAny.RankValues, false)
	kindsOf(r, "[]int by length (caller's ranker)", [][]int{{9, 9}, {1}, {}}, func(a, b []int) age.Rank { return rk(len(a), len(b)) }, true)
	kindsOf(r, "float64 zeros told apart by sign (caller's ranker)", []float64{0, math.Copysign(0, -1), 1}, func(a, b float64) age.Rank {
		if a == b {
			return rk(btoi(!math.Signbit(a)), btoi(!math.Signbit(b)))
		}
		if a < b {
			return age.LesserRank
		}
		return age.GreaterRank
	}, true)
	r.Transitions += r.Evals
	r.Sample(kindCase{"[]int", "Sorter", "[0 1 2]"})
}

func btoi(b bool) int {
	if b {
		return 1
	}
	return 0
}
