// Package c09: sorting yields an ordered permutation for every ranker.
package c09

import (
	"fmt"
	"reflect"
	"time"

	age "github.com/craterdog/go-collection-framework/v4/agent"
	col "github.com/craterdog/go-collection-framework/v4/collection"
	rt "github.com/craterdog/go-collection-framework/v4/verifrt"
	"verif/checks/common"
	"verif/engine"
)

type T struct{ V, Tag int }

func budget(n int) int64 { return int64(200000 * (1 + n*n/100)) }

func rk(a, b int) age.Rank {
	switch {
	case a < b:
		return age.LesserRank
	case a > b:
		return age.GreaterRank
	}
	return age.EqualRank
}

var rankers = map[string]func(a, b T) age.Rank{
	"natural":  func(a, b T) age.Rank { return rk(a.V, b.V) },
	"reversed": func(a, b T) age.Rank { return rk(b.V, a.V) },
	"coarse":   func(a, b T) age.Rank { return rk(a.V/2, b.V/2) },
	"constant": func(a, b T) age.Rank { return age.EqualRank },
}

func tagged(vals []int) []T {
	out := make([]T, len(vals))
	for i, v := range vals {
		out[i] = T{v, i}
	}
	return out
}

// permutationOf checks that out is a permutation of the tagged input.
func permutationOf(in []int, out []T) bool {
	if len(in) != len(out) {
		return false
	}
	seen := make([]bool, len(in))
	for _, t := range out {
		if t.Tag < 0 || t.Tag >= len(in) || seen[t.Tag] || in[t.Tag] != t.V {
			return false
		}
		seen[t.Tag] = true
	}
	return true
}

type arrCase struct {
	Part   string `json:"part"`
	Ranker string `json:"ranker,omitempty"`
	Array  []int  `json:"array"`
	Ans    []int  `json:"answers,omitempty"`
}

func forAllArrays(maxLen, alpha int, f func(a []int) bool) {
	for n := 0; n <= maxLen; n++ {
		a := make([]int, n)
		for {
			if !f(a) {
				return
			}
			i := n - 1
			for i >= 0 {
				a[i]++
				if a[i] < alpha {
					break
				}
				a[i] = 0
				i--
			}
			if i < 0 {
				break
			}
		}
	}
}

func exhaustiveArrays(rname string) func(r *engine.Rec) {
	return func(r *engine.Rec) {
		maxLen := 9
		if r.Tier == "thorough" {
			maxLen = 12
		}
		ranker := rankers[rname]
		sorter := age.Sorter[T]().MakeWithRanker(ranker)
		count := 0
		forAllArrays(maxLen, 4, func(a []int) bool {
			count++
			if count%4096 == 0 && r.TimeUp() {
				r.Incomplete("time budget")
				return false
			}
			c := arrCase{Part: "exhaustive", Ranker: rname, Array: a}
			if r.ReplayCase != nil && !r.Wanted(c) {
				return true
			}
			in := append([]int(nil), a...)
			work := tagged(in)
			out := rt.Protect(budget(len(a)), func() { sorter.SortValues(work) })
			r.Evals++
			r.Max("fuel_ticks", out.Ticks)
			cc := arrCase{Part: "exhaustive", Ranker: rname, Array: in}
			switch {
			case out.Fuel:
				r.Violation("SortValues does not terminate (ranker "+rname+")", fmt.Sprint(in), cc)
			case out.Panicked:
				r.Violation("SortValues panics (ranker "+rname+")", out.Value, cc)
			case !permutationOf(in, work):
				r.Violation("SortValues loses, duplicates or alters values (ranker "+rname+")", fmt.Sprintf("in %v out %v", in, work), cc)
			default:
				for i := 0; i+1 < len(work); i++ {
					if ranker(work[i], work[i+1]) == age.GreaterRank {
						r.Violation("SortValues result not ascending (ranker "+rname+")", fmt.Sprintf("in %v out %v", in, work), cc)
						break
					}
				}
			}
			if rname == "natural" {
				// ReverseValues on the same arrays
				w2 := tagged(in)
				o2 := rt.Protect(budget(len(a)), func() { sorter.ReverseValues(w2) })
				okRev := !o2.Panicked
				for i := range w2 {
					if okRev && w2[i] != (T{in[len(in)-1-i], len(in) - 1 - i}) {
						okRev = false
					}
				}
				if okRev {
					sorter.ReverseValues(w2)
					if !reflect.DeepEqual(w2, tagged(in)) && len(in) > 0 {
						okRev = false
					}
				}
				if !okRev {
					r.Violation("ReverseValues does not reverse exactly", fmt.Sprintf("in %v out %v", in, w2), arrCase{Part: "exhaustive", Ranker: rname, Array: in})
				}
				r.Evals++
			}
			if count == 70000 {
				r.Sample(map[string]any{"ranker": rname, "array": in, "sorted": fmt.Sprint(work)})
			}
			return true
		})
		r.States += int64(count)
		r.Transitions = r.Evals
		r.Distinct += int64(count)
	}
}

// everyRanker: the ranking function is an environment; every answer sequence is enumerated.
func everyRanker(r *engine.Rec) {
	maxLen := 6
	if r.Tier == "thorough" {
		maxLen = 7
	}
	answers := []age.Rank{age.LesserRank, age.EqualRank, age.GreaterRank}
	leaves := 0
	for n := 0; n <= maxLen; n++ {
		in := make([]int, n)
		for i := range in {
			in[i] = i % 3
		}
		// depth-first over answer sequences: prefix holds the answers given so far
		var prefix []int
		for {
			pos := 0
			var asked int
			ranker := func(a, b T) age.Rank {
				asked++
				if pos < len(prefix) {
					pos++
					return answers[prefix[pos-1]]
				}
				prefix = append(prefix, 0)
				pos++
				return answers[0]
			}
			c := arrCase{Part: "every-ranker", Array: in}
			work := tagged(in)
			sorter := age.Sorter[T]().MakeWithRanker(ranker)
			out := rt.Protect(budget(n), func() { sorter.SortValues(work) })
			r.Evals++
			leaves++
			c.Ans = append([]int(nil), prefix...)
			switch {
			case out.Fuel:
				r.Violation("SortValues does not terminate for an arbitrary ranker", fmt.Sprint(in, prefix), c)
			case out.Panicked:
				r.Violation("SortValues panics for an arbitrary ranker", out.Value, c)
			case !permutationOf(in, work):
				r.Violation("SortValues loses, duplicates or alters values for an arbitrary ranker", fmt.Sprintf("in %v answers %v out %v", in, prefix, work), c)
			}
			r.Max("comparisons", int64(asked))
			if leaves == 5000 {
				r.Sample(map[string]any{"array": in, "ranker_answers(0=Lesser,1=Equal,2=Greater)": c.Ans, "result": fmt.Sprint(work)})
			}
			// next answer sequence (odometer on the used prefix)
			prefix = prefix[:pos]
			i := len(prefix) - 1
			for i >= 0 {
				prefix[i]++
				if prefix[i] < len(answers) {
					break
				}
				i--
			}
			if i < 0 {
				break
			}
			prefix = prefix[:i+1]
			if leaves%8192 == 0 && r.TimeUp() {
				r.Incomplete("time budget in every-ranker")
				break
			}
		}
	}
	r.States += int64(leaves)
	r.Transitions += int64(leaves)
	r.Distinct += int64(leaves)
	r.Note("answer_sequences", leaves)
}

func ladder(r *engine.Rec) {
	maxLen := 600
	if r.Tier == "thorough" {
		maxLen = 2000
	}
	shapes := map[string]func(n, i int) int{
		"sorted":    func(n, i int) int { return i },
		"reversed":  func(n, i int) int { return n - i },
		"sawtooth":  func(n, i int) int { return i % 7 },
		"all-equal": func(n, i int) int { return 5 },
		"two-value": func(n, i int) int { return (i * 7 / 3) % 2 },
		// nearly sorted inputs and inputs made of sorted stretches (what an adaptive merge takes short cuts on)
		"sorted-but-largest-first": func(n, i int) int {
			if i == 0 {
				return n + 1
			}
			return i
		},
		"sorted-but-smallest-last": func(n, i int) int {
			if i == n-1 {
				return -1
			}
			return i
		},
		"sorted-with-three-swaps": func(n, i int) int {
			switch {
			case n >= 6 && (i == n/5 || i == n/2 || i == 4*n/5):
				return i + 1
			case n >= 6 && (i == n/5+1 || i == n/2+1 || i == 4*n/5+1):
				return i - 1
			}
			return i
		},
		"ascending-stretches-of-17":  func(n, i int) int { return i % 17 },
		"descending-stretches-of-19": func(n, i int) int { return 19 - i%19 },
		"two-interleaved-runs":       func(n, i int) int { return (i%2)*n + i/2 },
		"pseudo-random":              func(n, i int) int { return (i*7919 + 13) % (n + 3) },
	}
	lengths := []int{}
	for n := 0; n <= maxLen; n++ {
		lengths = append(lengths, n)
	}
	for _, n := range []int{1023, 1024, 1025, 1500, 2047, 2048, 2049, 3000, 4097} {
		if n > maxLen {
			lengths = append(lengths, n)
		}
	}
	for name, f := range shapes {
		for _, n := range lengths {
			in := make([]int, n)
			for i := range in {
				in[i] = f(n, i)
			}
			c := arrCase{Part: "ladder-" + name, Array: []int{n}}
			if !r.Wanted(c) {
				continue
			}
			for _, rname := range []string{"natural", "reversed"} {
				ranker := rankers[rname]
				work := tagged(in)
				sorter := age.Sorter[T]().MakeWithRanker(ranker)
				out := rt.Protect(budget(n), func() { sorter.SortValues(work) })
				r.Evals++
				r.Max("fuel_ticks", out.Ticks)
				bad := out.Panicked || !permutationOf(in, work)
				for i := 0; !bad && i+1 < len(work); i++ {
					if ranker(work[i], work[i+1]) == age.GreaterRank {
						bad = true
					}
				}
				if bad {
					r.Violation("SortValues fails on the length ladder (shape "+name+")", fmt.Sprintf("length %d ranker %s: %s", n, rname, out.Value), c)
				}
			}
		}
		r.States += int64(maxLen + 1)
	}
	r.Transitions += r.Evals
	r.Distinct += int64(len(shapes) * (maxLen + 1))
	r.Sample(map[string]any{"shape": "sawtooth", "lengths": fmt.Sprintf("0..%d", maxLen)})
}

func shuffle(r *engine.Rec) {
	maxLen := 5
	if r.Tier == "thorough" {
		maxLen = 6
	}
	sorter := age.Sorter[T]().MakeWithRanker(rankers["natural"])
	seqs := 0
	for n := 0; n <= maxLen; n++ {
		in := make([]int, n)
		for i := range in {
			in[i] = i / 2
		}
		total := 1
		for i := 0; i < n; i++ {
			total *= n
		}
		for code := 0; code < total; code++ {
			ans := make([]int, n)
			x := code
			for i := range ans {
				ans[i] = x % n
				x /= n
			}
			c := arrCase{Part: "shuffle", Array: in, Ans: ans}
			if !r.Wanted(c) {
				continue
			}
			i := 0
			asked := 0
			rt.RandHook = func(max int64) int64 {
				asked++
				if max != int64(n) {
					asked = -1000
				}
				if i < len(ans) {
					i++
					return int64(ans[i-1])
				}
				return 0
			}
			work := tagged(in)
			out := rt.Protect(budget(n), func() { sorter.ShuffleValues(work) })
			rt.RandHook = nil
			r.Evals++
			seqs++
			if out.Panicked || !permutationOf(in, work) {
				r.Violation("ShuffleValues does not yield a permutation", fmt.Sprintf("in %v answers %v out %v %s", in, ans, work, out.Value), c)
			}
		}
	}
	r.States += int64(seqs)
	r.Transitions += int64(seqs)
	r.Distinct += int64(seqs)
	r.Sample(map[string]any{"shuffle": "length 4", "random_answers": []int{3, 0, 2, 2}})
}

// collections: the Sort/Reverse/Shuffle methods of Array, List and Catalog have
// the same effect as the sorter on the equivalent Go array.
func collections(r *engine.Rec) {
	maxLen := 6
	if r.Tier == "thorough" {
		maxLen = 7
	}
	N := common.N()
	intSorter := age.Sorter[int]().Make()
	desc := func(a, b int) age.Rank { return rk(b, a) }
	descSorter := age.Sorter[int]().MakeWithRanker(desc)
	count := 0
	forAllArrays(maxLen, 4, func(a []int) bool {
		count++
		in := append([]int(nil), a...)
		for _, method := range []string{"SortValues", "SortValuesWithRanker", "ReverseValues", "ShuffleValues"} {
			c := arrCase{Part: "collections-" + method, Array: in}
			if !r.Wanted(c) {
				continue
			}
			hook := func() { rt.RandHook = func(max int64) int64 { return (max*7 + 3) % max } }
			want := append([]int(nil), in...)
			switch method {
			case "SortValues":
				intSorter.SortValues(want)
			case "SortValuesWithRanker":
				descSorter.SortValues(want)
			case "ReverseValues":
				intSorter.ReverseValues(want)
			case "ShuffleValues":
				hook()
				intSorter.ShuffleValues(want)
				rt.RandHook = nil
			}
			apply := func(s col.Sortable[int]) rt.Outcome {
				if method == "ShuffleValues" {
					hook()
					defer func() { rt.RandHook = nil }()
				}
				return rt.Protect(budget(len(in)), func() {
					switch method {
					case "SortValues":
						s.SortValues()
					case "SortValuesWithRanker":
						s.SortValuesWithRanker(desc)
					case "ReverseValues":
						s.ReverseValues()
					case "ShuffleValues":
						s.ShuffleValues()
					}
				})
			}
			eq := func(x, y []int) bool { return (len(x) == 0 && len(y) == 0) || reflect.DeepEqual(x, y) }
			arr := col.Array[int](N).MakeFromArray(in)
			if o := apply(arr); o.Panicked || !eq(arr.AsArray(), want) {
				r.Violation("Array."+method+" differs from the sorter", fmt.Sprintf("in %v got %v want %v %s", in, arr.AsArray(), want, o.Value), c)
			}
			lst := col.List[int](N).MakeFromArray(in)
			if o := apply(lst); o.Panicked || !eq(lst.AsArray(), want) {
				r.Violation("List."+method+" differs from the sorter", fmt.Sprintf("in %v got %v want %v %s", in, lst.AsArray(), want, o.Value), c)
			}
			r.Evals += 2
		}
		// Catalog: keys are distinct, so use (value=a[i], key=i) sorted by a ranker on values; compare with the sorter on associations
		if len(in) <= 5 {
			for _, method := range []string{"SortValues", "SortValuesWithRanker", "ReverseValues", "ShuffleValues"} {
				c := arrCase{Part: "catalog-" + method, Array: in}
				if !r.Wanted(c) {
					continue
				}
				type AL = col.AssociationLike[int, int]
				mk := func() col.CatalogLike[int, int] {
					cat := col.Catalog[int, int](N).Make()
					for i, v := range in {
						cat.SetValue(v*10+i, v) // keys ordered like (value, position)
					}
					return cat
				}
				byVal := func(x, y AL) age.Rank { return rk(y.GetValue(), x.GetValue()) }
				cat := mk()
				want := mk().AsArray()
				hook := func() { rt.RandHook = func(max int64) int64 { return (max*5 + 1) % max } }
				var o rt.Outcome
				switch method {
				case "SortValues":
					age.Sorter[AL]().Make().SortValues(want)
					o = rt.Protect(budget(len(in))*4, func() { cat.SortValues() })
				case "SortValuesWithRanker":
					age.Sorter[AL]().MakeWithRanker(byVal).SortValues(want)
					o = rt.Protect(budget(len(in))*4, func() { cat.SortValuesWithRanker(byVal) })
				case "ReverseValues":
					age.Sorter[AL]().Make().ReverseValues(want)
					o = rt.Protect(budget(len(in)), func() { cat.ReverseValues() })
				case "ShuffleValues":
					hook()
					age.Sorter[AL]().Make().ShuffleValues(want)
					hook()
					o = rt.Protect(budget(len(in)), func() { cat.ShuffleValues() })
					rt.RandHook = nil
				}
				got := cat.AsArray()
				ok := !o.Panicked && len(got) == len(want)
				for i := 0; ok && i < len(got); i++ {
					if got[i].GetKey() != want[i].GetKey() || got[i].GetValue() != want[i].GetValue() {
						ok = false
					}
				}
				// the mapping is unchanged
				for i, v := range in {
					if ok && cat.GetValue(v*10+i) != v {
						ok = false
					}
				}
				if !ok {
					r.Violation("Catalog."+method+" differs from the sorter", fmt.Sprintf("in %v %s", in, o.Value), c)
				}
				r.Evals++
			}
		}
		return true
	})
	r.States += int64(count)
	r.Transitions += r.Evals
	r.Distinct += int64(count)
	r.Sample(map[string]any{"array": []int{2, 0, 3, 0}, "methods": "Array/List/Catalog Sort, SortWithRanker, Reverse, Shuffle vs Sorter on the Go array"})
}

// histories: every sequence of three reordering calls on ONE Array, List and
// Catalog object has the effect the sorter has on the equivalent Go array.
func histories(r *engine.Rec) {
	maxLen := 4
	if r.Tier == "thorough" {
		maxLen = 5
	}
	N := common.N()
	desc := func(a, b int) age.Rank { return rk(b, a) }
	steps := []string{"SortValues", "SortValuesWithRanker", "ReverseValues", "ShuffleValues"}
	hook := func() { rt.RandHook = func(max int64) int64 { return (max*3 + 1) % max } }
	type AL = col.AssociationLike[int, int]
	count := 0
	forAllArrays(maxLen, 3, func(a []int) bool {
		in := append([]int(nil), a...)
		for code := 0; code < 64; code++ {
			seq := []string{steps[code%4], steps[(code/4)%4], steps[(code/16)%4]}
			c := arrCase{Part: "history " + fmt.Sprint(seq), Array: in}
			if !r.Wanted(c) {
				continue
			}
			count++
			model := append([]int(nil), in...)
			arr := col.Array[int](N).MakeFromArray(in)
			lst := col.List[int](N).MakeFromArray(in)
			cat := col.Catalog[int, int](N).Make()
			for i, v := range in {
				cat.SetValue(v*10+i, v)
			}
			catModel := cat.AsArray()
			byVal := func(x, y AL) age.Rank { return rk(y.GetValue(), x.GetValue()) }
			for si, step := range seq {
				apply := func(s col.Sortable[int]) rt.Outcome {
					hook()
					defer func() { rt.RandHook = nil }()
					return rt.Protect(budget(len(in))*4, func() {
						switch step {
						case "SortValues":
							s.SortValues()
						case "SortValuesWithRanker":
							s.SortValuesWithRanker(desc)
						case "ReverseValues":
							s.ReverseValues()
						case "ShuffleValues":
							s.ShuffleValues()
						}
					})
				}
				hook()
				switch step {
				case "SortValues":
					age.Sorter[int]().Make().SortValues(model)
					age.Sorter[AL]().Make().SortValues(catModel)
				case "SortValuesWithRanker":
					age.Sorter[int]().MakeWithRanker(desc).SortValues(model)
					age.Sorter[AL]().MakeWithRanker(byVal).SortValues(catModel)
				case "ReverseValues":
					age.Sorter[int]().Make().ReverseValues(model)
					age.Sorter[AL]().Make().ReverseValues(catModel)
				case "ShuffleValues":
					age.Sorter[int]().Make().ShuffleValues(model)
					hook()
					age.Sorter[AL]().Make().ShuffleValues(catModel)
				}
				rt.RandHook = nil
				eq := func(x, y []int) bool { return (len(x) == 0 && len(y) == 0) || reflect.DeepEqual(x, y) }
				if o := apply(arr); o.Panicked || !eq(arr.AsArray(), model) {
					r.Violation("Array."+step+" differs from the sorter after earlier reordering calls on the same array", fmt.Sprintf("in %v history %v step %d: got %v want %v", in, seq, si, arr.AsArray(), model), c)
				}
				if o := apply(lst); o.Panicked || !eq(lst.AsArray(), model) {
					r.Violation("List."+step+" differs from the sorter after earlier reordering calls on the same list", fmt.Sprintf("in %v history %v step %d: got %v want %v", in, seq, si, lst.AsArray(), model), c)
				}
				hook()
				var oc rt.Outcome
				switch step {
				case "SortValues":
					oc = rt.Protect(budget(len(in))*8, func() { cat.SortValues() })
				case "SortValuesWithRanker":
					oc = rt.Protect(budget(len(in))*8, func() { cat.SortValuesWithRanker(byVal) })
				case "ReverseValues":
					oc = rt.Protect(budget(len(in)), func() { cat.ReverseValues() })
				case "ShuffleValues":
					oc = rt.Protect(budget(len(in)), func() { cat.ShuffleValues() })
				}
				rt.RandHook = nil
				got := cat.AsArray()
				okc := !oc.Panicked && len(got) == len(catModel)
				for i := 0; okc && i < len(got); i++ {
					if got[i].GetKey() != catModel[i].GetKey() {
						okc = false
					}
				}
				if !okc {
					r.Violation("Catalog."+step+" differs from the sorter after earlier reordering calls on the same catalog", fmt.Sprintf("in %v history %v step %d", in, seq, si), c)
				}
				r.Evals += 3
			}
		}
		return true
	})
	r.States += int64(count)
	r.Transitions += r.Evals
	r.Distinct += int64(count)
	r.Sample(map[string]any{"array": []int{2, 0, 1}, "history on one Catalog/List/Array": []string{"SortValues", "SortValuesWithRanker", "SortValues"}})
}

// reuse: one sorter instance used for a history of calls; every call must be
// correct and must leave the arrays of earlier calls alone.
func reuse(r *engine.Rec) {
	maxLen := 6
	if r.Tier == "thorough" {
		maxLen = 8
	}
	ranker := rankers["natural"]
	sorter := age.Sorter[T]().MakeWithRanker(ranker)
	var prev, prevCopy []T
	count := 0
	sortedOK := func(in []int, w []T) bool {
		if !permutationOf(in, w) {
			return false
		}
		for i := 0; i+1 < len(w); i++ {
			if ranker(w[i], w[i+1]) == age.GreaterRank {
				return false
			}
		}
		return true
	}
	forAllArrays(maxLen, 3, func(a []int) bool {
		count++
		in := append([]int(nil), a...)
		c := arrCase{Part: "sorter-reuse", Array: in}
		if r.ReplayCase != nil && !r.Wanted(c) {
			return true
		}
		work := tagged(in)
		o := rt.Protect(budget(len(in))*3, func() {
			sorter.SortValues(work)
		})
		r.Evals++
		if o.Panicked || !sortedOK(in, work) {
			r.Violation("a reused sorter sorts wrongly", fmt.Sprintf("in %v out %v %s", in, work, o.Value), c)
		}
		if len(prev) > 0 && !reflect.DeepEqual(prev, prevCopy) {
			r.Violation("sorting one array changes an array sorted earlier with the same sorter", fmt.Sprintf("earlier result %v became %v after sorting %v", prevCopy, prev, in), c)
		}
		// sort, reverse, sort again: the same array through the same sorter
		o2 := rt.Protect(budget(len(in))*3, func() {
			sorter.ReverseValues(work)
			sorter.SortValues(work)
		})
		r.Evals++
		if o2.Panicked || !sortedOK(in, work) {
			r.Violation("a reused sorter sorts wrongly (sort, reverse, sort again)", fmt.Sprintf("in %v out %v %s", in, work, o2.Value), c)
		}
		// descending lengths matter (a retained buffer larger than the next array): keep the longest recent result
		if prev == nil || len(work) >= len(prev) || count%3 == 0 {
			prev = work
			prevCopy = append([]T(nil), work...)
		}
		return true
	})
	// a long array first, then every shorter one
	long := make([]int, 40)
	for i := range long {
		long[i] = (i * 7) % 11
	}
	lw := tagged(long)
	sorter.SortValues(lw)
	lcopy := append([]T(nil), lw...)
	for n := 0; n <= 40; n++ {
		in := make([]int, n)
		for i := range in {
			in[i] = n - i
		}
		w := tagged(in)
		sorter.SortValues(w)
		r.Evals++
		c := arrCase{Part: "sorter-reuse-after-long", Array: []int{n}}
		if !sortedOK(in, w) {
			r.Violation("a reused sorter sorts wrongly", fmt.Sprintf("length %d after a longer array", n), c)
		}
		if !reflect.DeepEqual(lw, lcopy) {
			r.Violation("sorting one array changes an array sorted earlier with the same sorter", fmt.Sprintf("the 40-element result changed after sorting %d values", n), c)
			lcopy = append([]T(nil), lw...)
		}
	}
	r.States += int64(count)
	r.Transitions += r.Evals
	r.Distinct += int64(count)
	r.Sample(map[string]any{"history": "one sorter: sort [2 1 0 1 2], reverse, sort again, then sort [1 0] and re-inspect the first array"})
}

func init() {
	engine.Register(&engine.Check{
		ID:        "C09",
		Technique: "bounded-exhaustive enumeration on the real sorter: every array of length 0..9 over 4 values x 4 rankers, every answer sequence of an arbitrary ranking function (the ranker is an environment enumerated depth-first), a deterministic length ladder, every random answer sequence for ShuffleValues, and the collection methods against the sorter",
		Rule:      "case = (array, ranker) or (array, ranker answer sequence) or (array, random answers); elements are tagged with their original position so loss/duplication/alteration is visible",
		Assume:    []string{"the 'random arrays up to 5000' clause is replaced by the deterministic ladder of every length up to 600 (2000 thorough) in five shapes"},
		Budget: func(tier string) time.Duration {
			if tier == "thorough" {
				return 20 * time.Minute
			}
			return 3 * time.Minute
		},
		Units: func(string) []engine.Unit {
			us := []engine.Unit{}
			for _, n := range []string{"natural", "reversed", "coarse", "constant"} {
				us = append(us, engine.Unit{Name: "arrays-" + n, Run: exhaustiveArrays(n)})
			}
			us = append(us, engine.Unit{Name: "every-ranker", Run: everyRanker}, engine.Unit{Name: "ladder", Run: ladder},
				engine.Unit{Name: "shuffle", Run: shuffle}, engine.Unit{Name: "collections", Run: collections}, engine.Unit{Name: "sorter-reuse", Run: reuse}, engine.Unit{Name: "collection-histories", Run: histories}, engine.Unit{Name: "catalog-keys-that-rank-equal", Run: tieKeyUnit}, engine.Unit{Name: "long-arrays-under-the-scheduler", Run: largeUnderScheduler}, engine.Unit{Name: "element-kinds", Run: elementKinds})
			return us
		},
	})
}
