// Package cdcnx holds helpers shared by the CDCN checks (C10, C11, C12):
// running ParseSource/FormatValue as a program under the scheduler (the
// scanner is a second thread; a parked scanner after the parse is a leak by
// scheduler fact) and an independent structural comparator.
package cdcnx

import (
	"fmt"
	"math"
	"reflect"
	"sort"
	"strings"

	cdc "github.com/craterdog/go-collection-framework/v4/cdcn"
	col "github.com/craterdog/go-collection-framework/v4/collection"
	rt "github.com/craterdog/go-collection-framework/v4/verifrt"
)

// Budget is the fuel rule of DESIGN §2.1 for an input of n characters.
func Budget(n int) int64 { return int64(200000 * (1 + n*n/100)) }

// ParseResult is what one ParseSource call did.
type ParseResult struct {
	Value      any
	Out        rt.Outcome
	LiveAtEnd  int  // goroutines started by the library that had not finished when ParseSource returned or panicked
	Leaked     bool // a scanner goroutine is still parked after the call ended
	LeakWhere  string
	ParserHung bool // the calling thread itself is parked forever
	LibPanic   string
}

// Parse runs notation.ParseSource(src) under the scheduler (default schedule).
func Parse(src string) ParseResult {
	var res ParseResult
	body := func() {
		res.Out = rt.Protect(Budget(len(src)), func() {
			res.Value = cdc.Notation().Make().ParseSource(src)
		})
		// the instant at which ParseSource has returned or panicked: goroutines it started must be gone
		res.LiveAtEnd = rt.LiveLibraryThreads()
	}
	ex := rt.RunOnce(rt.Config{Elide: true}, nil, []rt.ThreadSpec{{Name: "parser", Body: body}})
	for _, s := range ex.Stuck {
		if s.Library {
			res.Leaked = true
			res.LeakWhere = s.Op + " " + s.Object
		} else {
			res.ParserHung = true
		}
	}
	for _, p := range ex.Panics {
		if p.Library {
			res.LibPanic = p.Value
		}
	}
	return res
}

// Format runs FormatValue on a fresh notation with a fuel budget.
func Format(v any, budget int64) (string, rt.Outcome) {
	var s string
	out := rt.Protect(budget, func() { s = cdc.Notation().Make().FormatValue(v) })
	return s, out
}

// KindOf returns the collection kind of v ("" for a non-collection), told by
// the exported method set (private type names are the library's to change).
func KindOf(v any) string {
	rv := reflect.ValueOf(v)
	if !rv.IsValid() {
		return ""
	}
	has := func(m string) bool { return rv.MethodByName(m).IsValid() }
	if !has("AsArray") || !has("GetSize") {
		return ""
	}
	switch {
	case has("RemoveHead"):
		return "Queue"
	case has("RemoveTop"):
		return "Stack"
	case has("GetKeys") && has("SortValues"):
		return "Catalog"
	case has("GetKeys"):
		return "Map"
	case has("InsertValue"):
		return "List"
	case has("AddValue") && has("GetCollator"):
		return "Set"
	case has("SetValue") && has("GetValues"):
		return "Array"
	}
	return ""
}

// Items returns the items of a collection as []any (associations as [2]any{key,value}).
func Items(v any) (out []any, assoc bool) {
	rv := reflect.ValueOf(v)
	arr := rv.MethodByName("AsArray").Call(nil)[0]
	for i := 0; i < arr.Len(); i++ {
		e := arr.Index(i).Interface()
		ev := reflect.ValueOf(e)
		if ev.IsValid() && ev.Kind() == reflect.Pointer && ev.MethodByName("GetKey").IsValid() && KindOf(e) == "" {
			k := ev.MethodByName("GetKey").Call(nil)[0].Interface()
			val := ev.MethodByName("GetValue").Call(nil)[0].Interface()
			out = append(out, [2]any{k, val})
			assoc = true
		} else {
			out = append(out, e)
		}
	}
	return
}

// Canon maps a leaf to its canonical dynamic type (what a parse produces).
func Canon(v any) any {
	switch x := v.(type) {
	case int:
		return int64(x)
	case int8:
		return int64(x)
	case int16:
		return int64(x)
	case uint:
		return uint64(x)
	case uint8:
		return uint64(x)
	case uint16:
		return uint64(x)
	case uint32:
		return uint64(x)
	case float32:
		return float64(x)
	case complex64:
		return complex128(x)
	}
	return v
}

// Same is an independent structural comparison of an original value with a
// parsed one: same kind at every node, same order (Maps unordered), same
// key/value pairing, identical leaves on the canonical dynamic types. It
// returns "" or a description of the first difference.
func Same(orig, parsed any, path string) string {
	ko, kp := KindOf(orig), KindOf(parsed)
	if ko != kp {
		return fmt.Sprintf("%s: kind %q became %q", path, ko, kp)
	}
	if ko == "" {
		a, b := Canon(orig), parsed
		if a == nil || b == nil {
			if a != b {
				return fmt.Sprintf("%s: %#v became %#v", path, a, b)
			}
			return ""
		}
		if reflect.TypeOf(a) != reflect.TypeOf(b) {
			return fmt.Sprintf("%s: %T(%#v) became %T(%#v)", path, a, a, b, b)
		}
		if a != b {
			return fmt.Sprintf("%s: %#v became %#v", path, a, b)
		}
		// "exact numeric values": a zero keeps its sign (== cannot tell +0 from -0)
		switch x := a.(type) {
		case float64:
			if math.Signbit(x) != math.Signbit(b.(float64)) {
				return fmt.Sprintf("%s: %v became %v (the sign of a zero)", path, a, b)
			}
		case complex128:
			y := b.(complex128)
			if math.Signbit(real(x)) != math.Signbit(real(y)) || math.Signbit(imag(x)) != math.Signbit(imag(y)) {
				return fmt.Sprintf("%s: %v became %v (the sign of a zero part)", path, a, b)
			}
		}
		return ""
	}
	io, ao := Items(orig)
	ip, ap := Items(parsed)
	if len(io) != len(ip) {
		return fmt.Sprintf("%s(%s): %d items became %d", path, ko, len(io), len(ip))
	}
	if len(io) > 0 && ao != ap {
		return fmt.Sprintf("%s(%s): associations became values or vice versa", path, ko)
	}
	if ko == "Map" {
		// unordered: match by key
		used := make([]bool, len(ip))
		for _, x := range io {
			kx := x.([2]any)
			found := false
			for j, y := range ip {
				ky := y.([2]any)
				if !used[j] && Same(kx[0], ky[0], path) == "" {
					if d := Same(kx[1], ky[1], fmt.Sprintf("%s[%v]", path, kx[0])); d != "" {
						return d
					}
					used[j], found = true, true
					break
				}
			}
			if !found {
				return fmt.Sprintf("%s(Map): key %#v lost", path, kx[0])
			}
		}
		return ""
	}
	for i := range io {
		if ao {
			x, y := io[i].([2]any), ip[i].([2]any)
			if d := Same(x[0], y[0], fmt.Sprintf("%s.key%d", path, i+1)); d != "" {
				return d
			}
			if d := Same(x[1], y[1], fmt.Sprintf("%s[%v]", path, x[0])); d != "" {
				return d
			}
			continue
		}
		if d := Same(io[i], ip[i], fmt.Sprintf("%s.%d", path, i+1)); d != "" {
			return d
		}
	}
	return ""
}

// SameText compares two formatted texts; below a multi-entry Map the order of
// lines is not determined, so texts containing "(Map)" are compared as line multisets.
func SameText(a, b string) bool {
	if a == b {
		return true
	}
	if !strings.Contains(a, "(Map)") {
		return false
	}
	la, lb := strings.Split(a, "\n"), strings.Split(b, "\n")
	sort.Strings(la)
	sort.Strings(lb)
	return reflect.DeepEqual(la, lb)
}

var _ = col.List[any]
