// Package c20: the module-level universal constructors build what the class
// constructors and the parser build.
package c20

import (
	"fmt"
	"math"
	"reflect"
	"sort"
	"strings"
	"time"

	mod "github.com/craterdog/go-collection-framework/v4"
	age "github.com/craterdog/go-collection-framework/v4/agent"
	col "github.com/craterdog/go-collection-framework/v4/collection"
	rt "github.com/craterdog/go-collection-framework/v4/verifrt"
	"verif/checks/common"
	"verif/engine"
)

type cCase struct {
	Kind     string `json:"kind"`
	Form     string `json:"form"`
	Type     string `json:"type"`
	N        int    `json:"n"`
	Notation string `json:"notation"`
}

// solo runs f as a single-thread program under the scheduler: a call that
// blocks on itself is a scheduler fact (no clock).
func solo(f func()) (out rt.Outcome, stuck bool, libStuck bool) {
	ex := rt.RunOnce(rt.Config{Elide: true}, nil, []rt.ThreadSpec{{Name: "ctor", Body: func() { out = rt.Protect(20000000, f) }}})
	for _, s := range ex.Stuck {
		if s.Library {
			libStuck = true
		} else {
			stuck = true
		}
	}
	return
}

type snapshot struct {
	typ       string
	contents  []any
	capacity  int
	collator  string
	panicked  string
	stuck     bool
	fuel      bool
	unordered bool
}

func snap(v any, unordered bool) snapshot {
	s := snapshot{typ: fmt.Sprintf("%T", v), capacity: -1, unordered: unordered}
	rv := reflect.ValueOf(v)
	if !rv.IsValid() || (rv.Kind() == reflect.Pointer && rv.IsNil()) {
		s.typ = "nil"
		return s
	}
	arr := rv.MethodByName("AsArray").Call(nil)[0]
	for i := 0; i < arr.Len(); i++ {
		e := arr.Index(i).Interface()
		if a, ok := e.(interface{ GetKey() any }); ok {
			_ = a
		}
		em := reflect.ValueOf(e)
		if em.IsValid() && em.Kind() == reflect.Pointer && em.MethodByName("GetKey").IsValid() {
			k := em.MethodByName("GetKey").Call(nil)[0].Interface()
			val := em.MethodByName("GetValue").Call(nil)[0].Interface()
			s.contents = append(s.contents, fmt.Sprintf("%#v:%#v", k, val))
		} else {
			s.contents = append(s.contents, fmt.Sprintf("%#v", e))
		}
	}
	if unordered {
		sort.Slice(s.contents, func(i, j int) bool { return s.contents[i].(string) < s.contents[j].(string) })
	}
	if m := rv.MethodByName("GetCapacity"); m.IsValid() {
		s.capacity = int(m.Call(nil)[0].Uint())
	}
	if m := rv.MethodByName("GetCollator"); m.IsValid() {
		s.collator = fmt.Sprintf("%T", m.Call(nil)[0].Interface())
	}
	return s
}

func run(f func() any, unordered bool) snapshot {
	var v any
	out, stuck, _ := solo(func() { v = f() })
	if stuck {
		return snapshot{stuck: true}
	}
	if out.Fuel {
		return snapshot{fuel: true}
	}
	if out.Panicked {
		return snapshot{panicked: out.Value}
	}
	return snap(v, unordered)
}

func (s snapshot) String() string {
	switch {
	case s.stuck:
		return "never returns (blocked on itself)"
	case s.fuel:
		return "does not terminate"
	case s.panicked != "":
		return "panics: " + common.PanicClass(s.panicked)
	}
	return fmt.Sprintf("%s %v cap=%d collator=%s", s.typ, s.contents, s.capacity, s.collator)
}

// compare reports how the module-level result differs from the reference.
// compareType is false for the CDCN-source forms: the statement only asks for
// the same contents and order as parsing the source directly (the parsed
// collection has element type any, its own collator and its own capacity).
func compare(modRes, ref snapshot, compareType bool) string {
	if ref.stuck || ref.fuel || ref.panicked != "" {
		return "" // the reference itself does not return: nothing to agree with
	}
	switch {
	case modRes.stuck:
		return "never returns"
	case modRes.fuel:
		return "does not terminate"
	case modRes.panicked != "":
		return "panics where the class-level constructor returns"
	case compareType && modRes.typ != ref.typ:
		return "different kind"
	case !reflect.DeepEqual(modRes.contents, ref.contents) && !(len(modRes.contents) == 0 && len(ref.contents) == 0):
		if len(modRes.contents) == len(ref.contents) {
			return "different order or contents"
		}
		return "different contents"
	case compareType && modRes.capacity != ref.capacity:
		return "different capacity"
	case compareType && modRes.collator != ref.collator:
		return "different collator"
	}
	return ""
}

type typeCfg[V any] struct {
	name string
	vals []V // 20 distinct values
}

func typeClass(name string) string {
	if name == "any" {
		return "V=any"
	}
	return "V concrete"
}

func withNotation(pos string, args ...any) []any {
	switch pos {
	case "first":
		return append([]any{mod.CDCN()}, args...)
	case "last":
		return append(args, mod.CDCN())
	}
	return args
}

func sequences[V any](r *engine.Rec, tc typeCfg[V]) {
	N := common.N
	sizes := []int{0, 1, 2, 3, 5, 15, 16, 17, 20}
	if r.Tier == "thorough" {
		sizes = nil
		for i := 0; i <= 40; i++ {
			sizes = append(sizes, i)
		}
	}
	check := func(c cCase, modF, refF func() any, unordered, cmpType bool) {
		if !r.Wanted(c) {
			return
		}
		m, ref := run(modF, unordered), run(refF, unordered)
		r.Evals += 2
		r.Outcome(c.Kind + "/" + c.Form)
		if why := compare(m, ref, cmpType); why != "" {
			big := ""
			if c.N > 16 && (c.Kind == "Queue" || c.Kind == "Stack") {
				big = " (more values than the default capacity)"
			}
			zero := ""
			if c.N == 0 {
				zero = " (size 0)"
			}
			r.Violation(fmt.Sprintf("%s(%s) %s%s%s [%s]", c.Kind, c.Form, why, big, zero, typeClass(c.Type)),
				fmt.Sprintf("%+v\nmodule-level: %s\nreference:    %s", c, m, ref), c)
		}
	}
	for _, n := range sizes {
		data := append([]V(nil), tc.vals[:n]...)
		seq := func() col.Sequential[V] { return col.List[V](N()).MakeFromArray(data) }
		for _, np := range []string{"absent", "first", "last"} {
			cc := func(kind, form string) cCase { return cCase{kind, form, tc.name, n, np} }
			// ---- Array
			check(cc("Array", "size int"), func() any { return mod.Array[V](withNotation(np, n)...) }, func() any { return col.Array[V](N()).Make(uint(n)) }, false, true)
			check(cc("Array", "size uint"), func() any { return mod.Array[V](withNotation(np, uint(n))...) }, func() any { return col.Array[V](N()).Make(uint(n)) }, false, true)
			check(cc("Array", "[]V"), func() any { return mod.Array[V](withNotation(np, data)...) }, func() any { return col.Array[V](N()).MakeFromArray(data) }, false, true)
			check(cc("Array", "Sequential"), func() any { return mod.Array[V](withNotation(np, seq())...) }, func() any { return col.Array[V](N()).MakeFromSequence(seq()) }, false, true)
			// ---- List
			check(cc("List", "[]V"), func() any { return mod.List[V](withNotation(np, data)...) }, func() any { return col.List[V](N()).MakeFromArray(data) }, false, true)
			check(cc("List", "Sequential"), func() any { return mod.List[V](withNotation(np, seq())...) }, func() any { return col.List[V](N()).MakeFromSequence(seq()) }, false, true)
			// ---- Set
			check(cc("Set", "[]V"), func() any { return mod.Set[V](withNotation(np, data)...) }, func() any { return col.Set[V](N()).MakeFromArray(data) }, false, true)
			check(cc("Set", "Sequential"), func() any { return mod.Set[V](withNotation(np, seq())...) }, func() any { return col.Set[V](N()).MakeFromSequence(seq()) }, false, true)
			check(cc("Set", "collator+[]V"), func() any { return mod.Set[V](withNotation(np, age.Collator[V]().Make(), data)...) },
				func() any {
					s := col.Set[V](N()).MakeWithCollator(age.Collator[V]().Make())
					s.AddValues(seq())
					return s
				}, false, true)
			// ---- Stack
			check(cc("Stack", "[]V"), func() any { return mod.Stack[V](withNotation(np, data)...) }, func() any { return col.Stack[V](N()).MakeFromArray(data) }, false, true)
			check(cc("Stack", "Sequential"), func() any { return mod.Stack[V](withNotation(np, seq())...) }, func() any { return col.Stack[V](N()).MakeFromSequence(seq()) }, false, true)
			// ---- Queue
			check(cc("Queue", "[]V"), func() any { return mod.Queue[V](withNotation(np, data)...) }, func() any { return col.Queue[V](N()).MakeFromArray(data) }, false, true)
			check(cc("Queue", "Sequential"), func() any { return mod.Queue[V](withNotation(np, seq())...) }, func() any { return col.Queue[V](N()).MakeFromSequence(seq()) }, false, true)
			if n >= 1 && n <= 5 {
				check(cc("Stack", "capacity int"), func() any { return mod.Stack[V](withNotation(np, n)...) }, func() any { return col.Stack[V](N()).MakeWithCapacity(uint(n)) }, false, true)
				check(cc("Stack", "capacity uint"), func() any { return mod.Stack[V](withNotation(np, uint(n))...) }, func() any { return col.Stack[V](N()).MakeWithCapacity(uint(n)) }, false, true)
				check(cc("Queue", "capacity int"), func() any { return mod.Queue[V](withNotation(np, n)...) }, func() any { return col.Queue[V](N()).MakeWithCapacity(uint(n)) }, false, true)
				check(cc("Queue", "capacity uint"), func() any { return mod.Queue[V](withNotation(np, uint(n))...) }, func() any { return col.Queue[V](N()).MakeWithCapacity(uint(n)) }, false, true)
			}
			if n == 0 {
				check(cc("List", "none"), func() any { return mod.List[V](withNotation(np)...) }, func() any { return col.List[V](N()).Make() }, false, true)
				check(cc("Set", "none"), func() any { return mod.Set[V](withNotation(np)...) }, func() any { return col.Set[V](N()).Make() }, false, true)
				check(cc("Stack", "none"), func() any { return mod.Stack[V](withNotation(np)...) }, func() any { return col.Stack[V](N()).Make() }, false, true)
				check(cc("Queue", "none"), func() any { return mod.Queue[V](withNotation(np)...) }, func() any { return col.Queue[V](N()).Make() }, false, true)
			}
			// ---- CDCN source forms: same contents and order as parsing the source directly
			for _, kind := range []string{"Array", "List", "Set", "Stack", "Queue"} {
				kind := kind
				var src string
				so, _, _ := solo(func() {
					switch kind {
					case "Array":
						src = mod.FormatValue(col.Array[V](N()).MakeFromArray(data))
					case "List":
						src = mod.FormatValue(col.List[V](N()).MakeFromArray(data))
					case "Set":
						src = mod.FormatValue(col.Set[V](N()).MakeFromArray(data))
					case "Stack":
						src = mod.FormatValue(col.Stack[V](N()).MakeFromArray(data))
					case "Queue":
						src = mod.FormatValue(col.Queue[V](N()).MakeFromArray(data))
					}
				})
				if so.Panicked || src == "" {
					continue
				}
				c := cc(kind, "source")
				check(c, func() any {
					switch kind {
					case "Array":
						return mod.Array[V](withNotation(np, src)...)
					case "List":
						return mod.List[V](withNotation(np, src)...)
					case "Set":
						return mod.Set[V](withNotation(np, src)...)
					case "Stack":
						return mod.Stack[V](withNotation(np, src)...)
					}
					return mod.Queue[V](withNotation(np, src)...)
				}, func() any { return mod.ParseSource(src) }, false, false)
				// a stack or queue built from source has the capacity the parser and the class constructor give the same data
				if kind == "Stack" || kind == "Queue" {
					cq := cc(kind, "source capacity")
					if r.Wanted(cq) {
						modF := func() any {
							if kind == "Stack" {
								return mod.Stack[V](withNotation(np, src)...)
							}
							return mod.Queue[V](withNotation(np, src)...)
						}
						clsF := func() any {
							if kind == "Stack" {
								return col.Stack[V](N()).MakeFromArray(data)
							}
							return col.Queue[V](N()).MakeFromArray(data)
						}
						m, parsed, cls := run(modF, false), run(func() any { return mod.ParseSource(src) }, false), run(clsF, false)
						r.Evals += 3
						r.Outcome(cq.Kind + "/" + cq.Form)
						returned := func(s snapshot) bool { return !s.stuck && !s.fuel && s.panicked == "" }
						if returned(m) && returned(parsed) && returned(cls) && parsed.capacity == cls.capacity && m.capacity != cls.capacity {
							r.Violation(fmt.Sprintf("%s(source) different capacity [%s]", kind, typeClass(cq.Type)),
								fmt.Sprintf("%+v\nmodule-level capacity %d; parsed source %d; class-level constructor %d", cq, m.capacity, parsed.capacity, cls.capacity), cq)
						}
					}
				}
			}
		}
	}
	r.Sample(cCase{"Stack", "source", tc.name, 3, "last"})
}

func associative[K comparable](r *engine.Rec, tname string, keys []K) {
	N := common.N
	sizes := []int{0, 1, 2, 3, 17, 20}
	if r.Tier == "thorough" {
		sizes = nil
		for i := 0; i <= 40; i++ {
			sizes = append(sizes, i)
		}
	}
	type AL = col.AssociationLike[K, int64]
	check := func(c cCase, modF, refF func() any, unordered, cmpType bool) {
		if !r.Wanted(c) {
			return
		}
		m, ref := run(modF, unordered), run(refF, unordered)
		r.Evals += 2
		r.Outcome(c.Kind + "/" + c.Form)
		if why := compare(m, ref, cmpType); why != "" {
			r.Violation(fmt.Sprintf("%s(%s) %s [K %s]", c.Kind, c.Form, why, typeClass(c.Type)), fmt.Sprintf("%+v\nmodule-level: %s\nreference:    %s", c, m, ref), c)
		}
	}
	for _, n := range sizes {
		mkAs := func() []AL {
			var as []AL
			for i := 0; i < n; i++ {
				as = append(as, col.Association[K, int64](N()).Make(keys[i], int64(i*3)))
			}
			return as
		}
		mkMap := func() map[K]int64 {
			m := map[K]int64{}
			for i := 0; i < n; i++ {
				m[keys[i]] = int64(i * 3)
			}
			return m
		}
		seq := func() col.Sequential[AL] { return col.List[AL](N()).MakeFromArray(mkAs()) }
		for _, np := range []string{"absent", "first", "last"} {
			cc := func(kind, form string) cCase { return cCase{kind, form, tname, n, np} }
			check(cc("Catalog", "[]Association"), func() any { return mod.Catalog[K, int64](withNotation(np, mkAs())...) }, func() any { return col.Catalog[K, int64](N()).MakeFromArray(mkAs()) }, false, true)
			check(cc("Catalog", "Sequential"), func() any { return mod.Catalog[K, int64](withNotation(np, seq())...) }, func() any { return col.Catalog[K, int64](N()).MakeFromSequence(seq()) }, false, true)
			check(cc("Catalog", "map"), func() any { return mod.Catalog[K, int64](withNotation(np, mkMap())...) }, func() any { return col.Catalog[K, int64](N()).MakeFromMap(mkMap()) }, true, true)
			check(cc("Map", "[]Association"), func() any { return mod.Map[K, int64](withNotation(np, mkAs())...) }, func() any { return col.Map[K, int64](N()).MakeFromArray(mkAs()) }, true, true)
			check(cc("Map", "Sequential"), func() any { return mod.Map[K, int64](withNotation(np, seq())...) }, func() any { return col.Map[K, int64](N()).MakeFromSequence(seq()) }, true, true)
			check(cc("Map", "map"), func() any { return mod.Map[K, int64](withNotation(np, mkMap())...) }, func() any { return col.Map[K, int64](N()).MakeFromMap(mkMap()) }, true, true)
			if n == 0 {
				check(cc("Catalog", "none"), func() any { return mod.Catalog[K, int64](withNotation(np)...) }, func() any { return col.Catalog[K, int64](N()).Make() }, false, true)
				check(cc("Map", "none"), func() any { return mod.Map[K, int64](withNotation(np)...) }, func() any { return col.Map[K, int64](N()).Make() }, true, true)
			}
			var csrc, msrc string
			so, _, _ := solo(func() {
				csrc = mod.FormatValue(col.Catalog[K, int64](N()).MakeFromArray(mkAs()))
				msrc = mod.FormatValue(col.Map[K, int64](N()).MakeFromArray(mkAs()))
			})
			if so.Panicked {
				continue
			}
			check(cc("Catalog", "source"), func() any { return mod.Catalog[K, int64](withNotation(np, csrc)...) }, func() any { return mod.ParseSource(csrc) }, false, false)
			check(cc("Map", "source"), func() any { return mod.Map[K, int64](withNotation(np, msrc)...) }, func() any { return mod.ParseSource(msrc) }, true, false)
		}
	}
	r.Sample(cCase{"Catalog", "map", tname, 3, "first"})
}

type assocCase struct {
	KType    string `json:"key_type"`
	VType    string `json:"value_type"`
	Notation string `json:"notation"`
}

func assocPair[K comparable, V any](r *engine.Rec, kname, vname string, k K, v V) {
	for _, np := range []string{"absent", "first", "last"} {
		c := assocCase{kname, vname, np}
		if !r.Wanted(c) {
			continue
		}
		var a col.AssociationLike[K, V]
		out, _, _ := solo(func() { a = mod.Association[K, V](withNotation(np, k, v)...) })
		r.Evals++
		same := ""
		if strings.Contains(kname, "(") || strings.Contains(vname, "(") {
			same = " (zero-valued key or value)"
		}
		if kname == vname {
			same = " (identical key and value types)"
		}
		if vname == "any" && np != "absent" {
			same += " (V=any with a notation argument)"
		}
		switch {
		case out.Panicked:
			r.Violation("Association(k,v) panics"+same, fmt.Sprintf("%+v: %s", c, out.Value), c)
		case !reflect.DeepEqual(any(a.GetKey()), any(k)) || !reflect.DeepEqual(any(a.GetValue()), any(v)):
			r.Violation("Association(k,v) does not have key k and value v"+same, fmt.Sprintf("%+v: key %#v value %#v, want %#v %#v", c, a.GetKey(), a.GetValue(), k, v), c)
		}
		r.Outcome("Association")
	}
}

func associations(r *engine.Rec) {
	// every ordered pair of the seven types, identical ones included
	type fn func()
	ks := map[string]func(vname string, f func(kname string) fn){}
	_ = ks
	withV := func(vname string, call func(kname string, k any)) {}
	_ = withV
	pairK := func(kname string) {
		switch kname {
		case "int64":
			eachV(r, kname, int64(7))
		case "uint64":
			eachV(r, kname, uint64(7))
		case "float64":
			eachV(r, kname, 7.5)
		case "string":
			eachV(r, kname, "k")
		case "rune":
			eachV(r, kname, 'k')
		case "bool":
			eachV(r, kname, true)
		case "any":
			eachV[any](r, kname, "anykey")
		}
	}
	for _, kn := range []string{"int64", "uint64", "float64", "string", "rune", "bool", "any"} {
		pairK(kn)
	}
	zeroes(r)
	r.Sample(assocCase{"string", "string", "absent"})
}

// zero-valued keys and values are keys and values too
func zeroes(r *engine.Rec) {
	assocPair[string, string](r, "string(empty)", "string(empty)", "", "")
	assocPair[string, int64](r, "string(empty)", "int64(zero)", "", int64(0))
	assocPair[int64, string](r, "int64(zero)", "string(empty)", int64(0), "")
	assocPair[string, string](r, "string", "string(empty)", "k", "")
	assocPair[string, string](r, "string(empty)", "string", "", "v")
	assocPair[int64, int64](r, "int64(zero)", "int64(zero)", int64(0), int64(0))
	assocPair[bool, bool](r, "bool(false)", "bool(false)", false, false)
	assocPair[rune, float64](r, "rune(zero)", "float64(zero)", rune(0), 0.0)
	assocPair[any, any](r, "any(empty string)", "any(zero int)", any(""), any(int64(0)))
	assocPair[string, any](r, "string", "any(empty string)", "k", any(""))
	assocPair[uint64, uint64](r, "uint64(zero)", "uint64(zero)", uint64(0), uint64(0))
}

func eachV[K comparable](r *engine.Rec, kname string, k K) {
	assocPair[K, int64](r, kname, "int64", k, int64(9))
	assocPair[K, uint64](r, kname, "uint64", k, uint64(9))
	assocPair[K, float64](r, kname, "float64", k, 9.5)
	assocPair[K, string](r, kname, "string", k, "v")
	assocPair[K, rune](r, kname, "rune", k, 'v')
	assocPair[K, bool](r, kname, "bool", k, false)
	assocPair[K, any](r, kname, "any", k, any("anyvalue"))
}

func gen[V any](f func(i int) V) []V {
	out := make([]V, 41)
	for i := range out {
		out[i] = f(i)
	}
	return out
}

func finish(f func(r *engine.Rec)) func(r *engine.Rec) {
	return func(r *engine.Rec) {
		f(r)
		r.States += r.Evals
		r.Transitions += r.Evals
		r.Distinct += int64(len(r.Outcomes))
	}
}

func units(string) []engine.Unit {
	us := []engine.Unit{
		{Name: "seq-int64", Run: finish(func(r *engine.Rec) {
			sequences(r, typeCfg[int64]{"int64", gen(func(i int) int64 { return int64(100 - 7*i) })})
		})},
		{Name: "seq-uint64", Run: finish(func(r *engine.Rec) {
			sequences(r, typeCfg[uint64]{"uint64", gen(func(i int) uint64 { return uint64(300 - 11*i) })})
		})},
		{Name: "seq-float64", Run: finish(func(r *engine.Rec) {
			sequences(r, typeCfg[float64]{"float64", gen(func(i int) float64 { return 50.25 - 3.5*float64(i) })})
		})},
		{Name: "seq-string", Run: finish(func(r *engine.Rec) {
			sequences(r, typeCfg[string]{"string", gen(func(i int) string { return fmt.Sprintf("s%02d", 40-i) })})
		})},
		{Name: "seq-rune", Run: finish(func(r *engine.Rec) {
			sequences(r, typeCfg[rune]{"rune", gen(func(i int) rune { return rune('z' - i) })})
		})},
		{Name: "seq-bool", Run: finish(func(r *engine.Rec) { sequences(r, typeCfg[bool]{"bool", gen(func(i int) bool { return i%3 == 0 })}) })},
		{Name: "seq-any", Run: finish(func(r *engine.Rec) {
			sequences(r, typeCfg[any]{"any", gen(func(i int) any {
				switch i % 5 {
				case 0:
					return int64(90 - i)
				case 1:
					return fmt.Sprint("t", i)
				case 2:
					return 2.5 + float64(i)
				case 3:
					return nil
				}
				return i%2 == 0
			})})
		})},
		{Name: "assoc-string", Run: finish(func(r *engine.Rec) {
			associative(r, "string", gen(func(i int) string { return fmt.Sprintf("k%02d", 40-i) }))
		})},
		{Name: "assoc-int64", Run: finish(func(r *engine.Rec) { associative(r, "int64", gen(func(i int) int64 { return int64(100 - 7*i) })) })},
		{Name: "assoc-rune", Run: finish(func(r *engine.Rec) { associative(r, "rune", gen(func(i int) rune { return rune('z' - i) })) })},
		{Name: "assoc-float64", Run: finish(func(r *engine.Rec) {
			// float keys incl. a key that is not equal to itself (NaN) and both zeros' representative
			associative(r, "float64", gen(func(i int) float64 {
				switch i {
				case 2:
					return math.NaN()
				case 4:
					return 0
				}
				return 50.25 - 3.5*float64(i)
			}))
		})},
		{Name: "assoc-any", Run: finish(func(r *engine.Rec) {
			associative[any](r, "any", gen(func(i int) any {
				if i%2 == 0 {
					return int64(i)
				}
				return fmt.Sprint("k", i)
			}))
		})},
		{Name: "associations", Run: finish(associations)},
		{Name: "set-collators", Run: finish(setCollators)},
		{Name: "set-collators-with-a-source", Run: finish(setCollatorSources)},
		{Name: "source-form-repeated", Run: finish(sourceRepeat)},
	}
	return us
}

func init() {
	engine.Register(&engine.Check{
		ID:        "C20",
		Technique: "bounded-exhaustive enumeration of the constructor matrix on the real code: {Array, List, Set, Stack, Queue, Catalog, Map} x every documented argument form x notation argument {absent, first, last} x seven element/key types x contents of size 0..20 (spanning the default capacity), differentially against the class-level constructor / the parser; Association(k,v) for every ordered pair of the seven types; every call runs as a single-thread program under the scheduler so a self-blocking constructor is a scheduler fact",
		Rule:      "case = (kind, argument form, type, size, notation position); the reference is the class-level constructor (or ParseSource) on the same data",
		Assume:    []string{"source text is produced by FormatValue on the class-level collection (values chosen so that the text parses; C10 decides the round trip)"},
		Budget:    func(string) time.Duration { return 4 * time.Minute },
		Units:     units,
	})
}
