package c20

import (
	"fmt"
	"math"
	"reflect"
	"strings"

	mod "github.com/craterdog/go-collection-framework/v4"
	age "github.com/craterdog/go-collection-framework/v4/agent"
	col "github.com/craterdog/go-collection-framework/v4/collection"
	"verif/checks/c02"
	"verif/checks/common"
	"verif/engine"
)

// ---- Set(collator, data): collators whose equality is coarser than the natural one ----
//
// With such a collator the class-level constructor keeps, of the values that
// rank Equal, the one given first. Every ordered selection from a small pool in
// which naturally distinct values collate equal, in every argument form.

type collCase struct {
	Type     string `json:"type"`
	Collator string `json:"collator"`
	Data     string `json:"data"`
	Form     string `json:"form"`
	Notation string `json:"notation"`
}

func setCollatorsOf[V any](r *engine.Rec, tname, cname string, rank func(a, b V) age.Rank, pool []V) {
	N := common.N
	var sels [][]V
	var rec func(cur []V, used int)
	rec = func(cur []V, used int) {
		sels = append(sels, append([]V(nil), cur...))
		if len(cur) == 3 {
			return
		}
		for i := range pool {
			if used&(1<<i) == 0 {
				rec(append(cur, pool[i]), used|1<<i)
			}
		}
	}
	rec(nil, 0)
	mkColl := func() age.CollatorLike[V] { return &c02.FnCollator[V]{Name: cname, F: rank} }
	for _, data := range sels {
		data := data
		for _, np := range []string{"absent", "first", "last"} {
			for _, form := range []string{"collator+[]V", "collator+Sequential", "[]V+collator", "set ordered by the collator, as a sequence"} {
				c := collCase{tname, cname, fmt.Sprint(data), form, np}
				if !r.Wanted(c) {
					continue
				}
				var m, ref any
				mo, mstuck, _ := solo(func() {
					seq := col.List[V](N()).MakeFromArray(append([]V(nil), data...))
					switch form {
					case "collator+[]V":
						m = mod.Set[V](withNotation(np, mkColl(), append([]V(nil), data...))...)
					case "collator+Sequential":
						m = mod.Set[V](withNotation(np, mkColl(), seq)...)
					case "[]V+collator":
						m = mod.Set[V](withNotation(np, append([]V(nil), data...), mkColl())...)
					case "set ordered by the collator, as a sequence":
						// no collator argument: like the class-level MakeFromSequence, the result has the natural order
						src := col.Set[V](N()).MakeWithCollator(mkColl())
						src.AddValues(seq)
						m = mod.Set[V](withNotation(np, src)...)
					}
				})
				ro, _, _ := solo(func() {
					s := col.Set[V](N()).MakeWithCollator(mkColl())
					s.AddValues(col.List[V](N()).MakeFromArray(append([]V(nil), data...)))
					ref = s
					if form == "set ordered by the collator, as a sequence" {
						ref = col.Set[V](N()).MakeFromSequence(s)
					}
				})
				r.Evals += 2
				r.Outcome("Set/" + form)
				if ro.Panicked || ro.Fuel {
					r.Incomplete("the class-level reference construction itself fails: " + ro.Value)
					continue
				}
				why := ""
				switch {
				case mstuck:
					why = "never returns"
				case mo.Panicked || mo.Fuel:
					why = "panics where the class-level constructor returns"
				case common.View(m) != common.View(ref):
					why = "different order or contents"
				case fmt.Sprintf("%T", m.(col.SetLike[V]).GetCollator()) != fmt.Sprintf("%T", ref.(col.SetLike[V]).GetCollator()):
					why = "different collator"
				}
				if why != "" {
					r.Violation(fmt.Sprintf("Set(%s) %s [collator coarser than or different from the natural order]", form, why),
						fmt.Sprintf("%+v\nmodule-level: %s %s\nreference:    %s", c, common.View(m), mo.Value, common.View(ref)), c)
				}
			}
		}
	}
}

func setCollators(r *engine.Rec) {
	cmp := func(a, b int) age.Rank {
		switch {
		case a < b:
			return age.LesserRank
		case a > b:
			return age.GreaterRank
		}
		return age.EqualRank
	}
	abs := func(a int) int {
		if a < 0 {
			return -a
		}
		return a
	}
	setCollatorsOf(r, "string", "case-insensitive", func(a, b string) age.Rank { return cmp(strings.Compare(strings.ToLower(a), strings.ToLower(b)), 0) }, []string{"b", "B", "a", "A"})
	setCollatorsOf(r, "int", "magnitude", func(a, b int) age.Rank { return cmp(abs(a), abs(b)) }, []int{3, -3, 1, -1})
	setCollatorsOf(r, "int", "reversed", func(a, b int) age.Rank { return cmp(b, a) }, []int{1, 2, 3, 4})
	// values that Go cannot hash or compare with == (the library's Arrays and Maps are named slices and maps), ordered by
	// the natural collator handed over as the caller's; and a collator finer than == (it tells the zeros apart by sign)
	nat := age.Collator[any]().Make()
	N := common.N
	setCollatorsOf[any](r, "any", "natural (values Go cannot hash)", func(a, b any) age.Rank { return nat.RankValues(a, b) }, []any{
		col.Array[int64](N()).MakeFromArray([]int64{1, 2}), col.Array[int64](N()).MakeFromArray([]int64{1}),
		col.Map[string, int64](N()).MakeFromMap(map[string]int64{"k": 1}), []int{3}})
	setCollatorsOf[float64](r, "float64", "zeros told apart by sign", func(a, b float64) age.Rank {
		if a == b {
			return cmp(btoi(!math.Signbit(a)), btoi(!math.Signbit(b)))
		}
		if a < b {
			return age.LesserRank
		}
		return age.GreaterRank
	}, []float64{0, math.Copysign(0, -1), 1.5, -2.5})
	r.Sample(collCase{"string", "case-insensitive", "[b B]", "collator+[]V", "absent"})
}

func btoi(b bool) int {
	if b {
		return 1
	}
	return 0
}

// ---- the CDCN-source form, called again after an earlier result was changed ----
//
// "The CDCN-source form yields the same contents and order as parsing that
// source directly" - on every call: a result handed out earlier, and then
// changed by its owner (also in its nested collections), must not show through.

type repeatCase struct {
	Kind   string `json:"kind"`
	Second string `json:"second_call"`
	Source string `json:"source"`
}

func sourceRepeat(r *engine.Rec) {
	ctor := func(kind, src string) any {
		switch kind {
		case "Array":
			return mod.Array[any](src)
		case "List":
			return mod.List[any](src)
		case "Set":
			return mod.Set[any](src)
		case "Stack":
			return mod.Stack[any](src)
		case "Queue":
			return mod.Queue[any](src)
		case "Catalog":
			return mod.Catalog[any, any](src)
		case "Map":
			return mod.Map[any, any](src)
		case "Catalog+notation":
			return mod.Catalog[any, any](mod.CDCN(), src)
		case "List+notation":
			return mod.List[any](src, mod.CDCN())
		}
		return nil
	}
	// change everything reachable from v that can be changed: nested lists grow, nested catalogs get a key
	var scribble func(v any, depth int)
	scribble = func(v any, depth int) {
		if depth > 4 || v == nil {
			return
		}
		rv := reflect.ValueOf(v)
		if m := rv.MethodByName("AsArray"); m.IsValid() && m.Type().NumIn() == 0 {
			arr := m.Call(nil)[0]
			for i := 0; i < arr.Len(); i++ {
				e := arr.Index(i).Interface()
				if a, ok := e.(col.AssociationLike[any, any]); ok {
					scribble(a.GetValue(), depth+1)
					continue
				}
				scribble(e, depth+1)
			}
		}
		if depth == 0 {
			return
		}
		switch x := v.(type) {
		case col.ListLike[any]:
			x.AppendValue(int64(99))
		case col.CatalogLike[any, any]:
			x.SetValue("scribbled", int64(99))
		case col.MapLike[any, any]:
			x.SetValue("scribbled", int64(99))
		case col.SetLike[any]:
			x.AddValue(int64(99))
		}
	}
	seqSrc := "[\n    [1, 2](List)\n    [\n        \"k\": [3](List)\n    ](Catalog)\n    [4](Set)\n](List)\n"
	assocSrc := "[\n    \"a\": [1, 2](List)\n    \"b\": [\n        \"k\": [3](List)\n    ](Catalog)\n](Catalog)\n"
	kinds := map[string][]string{
		seqSrc:   {"Array", "List", "Stack", "Queue", "List+notation"},
		assocSrc: {"Catalog", "Map", "Catalog+notation"},
	}
	for src, ks := range kinds {
		for _, first := range ks {
			for _, second := range ks {
				c := repeatCase{first, second, src}
				if !r.Wanted(c) {
					continue
				}
				var before, after, fresh string
				out, stuck, _ := solo(func() {
					fresh = common.View(ctor(second, src)) // what the second kind builds from this source, asked first
					a := ctor(first, src)
					before = common.View(a)
					scribble(a, 0)
					after = common.View(ctor(second, src))
				})
				r.Evals++
				r.Outcome(first + "->" + second)
				_ = before
				switch {
				case stuck || out.Panicked || out.Fuel:
					// the constructors themselves are decided by the matrix units
				case after != fresh:
					r.Violation("the source form builds something else when an earlier result for the same source was changed in the meantime", fmt.Sprintf("%+v\nfirst call of %s: %s\nlater call:  %s", c, second, fresh, after), c)
				}
			}
		}
	}
	r.Sample(repeatCase{"List", "Stack", seqSrc})
}

var _ = age.EqualRank
