package c20

import (
	"fmt"
	"reflect"
	"strings"

	mod "github.com/craterdog/go-collection-framework/v4"
	age "github.com/craterdog/go-collection-framework/v4/agent"
	col "github.com/craterdog/go-collection-framework/v4/collection"
	"verif/checks/c02"
	"verif/checks/common"
	"verif/engine"
)

// Set(collator, CDCN source) and Set(CDCN source, collator): the class-level
// counterpart is MakeWithCollator(collator) followed by AddValue of every value
// the parser finds in the source, in source order. The source is written both
// with the (Set) and with the (List) context, the element type is any (what the
// parser produces) and the typed ones the parser itself produces (int64, string): a source whose
// values are not of the element type has no class-level counterpart.

func setCollatorSourcesOf[V any](r *engine.Rec, tname, cname string, rank func(a, b V) age.Rank, sources map[string]string, conv func(any) V) {
	N := common.N
	mkColl := func() age.CollatorLike[V] { return &c02.FnCollator[V]{Name: cname, F: rank} }
	for sname, src := range sources {
		for _, np := range []string{"absent", "first", "last"} {
			for _, form := range []string{"collator+source", "source+collator"} {
				c := collCase{tname, cname, sname, form, np}
				if !r.Wanted(c) {
					continue
				}
				var m, ref any
				mo, mstuck, _ := solo(func() {
					if form == "collator+source" {
						m = mod.Set[V](withNotation(np, mkColl(), src)...)
					} else {
						m = mod.Set[V](withNotation(np, src, mkColl())...)
					}
				})
				ro, _, _ := solo(func() {
					s := col.Set[V](N()).MakeWithCollator(mkColl())
					parsed := N().ParseSource(src).(col.Sequential[any])
					for _, v := range parsed.AsArray() {
						s.AddValue(conv(v))
					}
					ref = s
				})
				r.Evals += 2
				r.Outcome("Set/" + form)
				if ro.Panicked || ro.Fuel {
					r.Incomplete("the class-level reference construction itself fails: " + ro.Value)
					continue
				}
				why := ""
				switch {
				case mstuck:
					why = "never returns"
				case mo.Panicked || mo.Fuel:
					why = "panics where the class-level constructor returns"
				case common.View(m) != common.View(ref):
					why = "different order or contents"
				case fmt.Sprintf("%T", m.(col.SetLike[V]).GetCollator()) != fmt.Sprintf("%T", ref.(col.SetLike[V]).GetCollator()):
					why = "different collator"
				}
				if why != "" {
					r.Violation(fmt.Sprintf("Set(%s) %s [collator coarser than or different from the natural order]", form, why),
						fmt.Sprintf("%+v source %q\nmodule-level: %s %s\nreference:    %s", c, src, common.View(m), mo.Value, common.View(ref)), c)
				}
			}
		}
	}
}

func setCollatorSources(r *engine.Rec) {
	cmp := func(a, b int64) age.Rank {
		switch {
		case a < b:
			return age.LesserRank
		case a > b:
			return age.GreaterRank
		}
		return age.EqualRank
	}
	abs := func(a int64) int64 {
		if a < 0 {
			return -a
		}
		return a
	}
	asInt := func(v any) int64 {
		rv := reflect.ValueOf(v)
		if rv.IsValid() && rv.CanInt() {
			return rv.Int()
		}
		if rv.IsValid() && rv.CanUint() {
			return int64(rv.Uint())
		}
		return 0
	}
	asString := func(v any) string { s, _ := v.(string); return s }
	ints := map[string]string{}
	strs := map[string]string{}
	for _, ctx := range []string{"Set", "List"} {
		for name, vals := range map[string][]string{"empty": {}, "one": {"3"}, "ascending": {"-3", "-1", "1", "3"}, "mixed": {"3", "-3", "1", "-1"}, "two": {"1", "4"}} {
			body := " "
			if len(vals) > 0 {
				body = "\n    " + strings.Join(vals, "\n    ") + "\n"
			}
			ints[name+" ("+ctx+")"] = "[" + body + "](" + ctx + ")\n"
		}
		for name, vals := range map[string][]string{"one": {`"b"`}, "ascending": {`"A"`, `"B"`, `"a"`, `"b"`}, "mixed": {`"b"`, `"B"`, `"a"`, `"A"`}} {
			strs[name+" ("+ctx+")"] = "[\n    " + strings.Join(vals, "\n    ") + "\n](" + ctx + ")\n"
		}
	}
	ident := func(v any) any { return v }
	setCollatorSourcesOf[any](r, "any", "magnitude", func(a, b any) age.Rank { return cmp(abs(asInt(a)), abs(asInt(b))) }, ints, ident)
	setCollatorSourcesOf[any](r, "any", "reversed", func(a, b any) age.Rank { return cmp(asInt(b), asInt(a)) }, ints, ident)
	setCollatorSourcesOf[any](r, "any", "case-insensitive", func(a, b any) age.Rank {
		return cmp(int64(strings.Compare(strings.ToLower(asString(a)), strings.ToLower(asString(b)))), 0)
	}, strs, ident)
	setCollatorSourcesOf[int64](r, "int64", "reversed", func(a, b int64) age.Rank { return cmp(b, a) }, ints, func(v any) int64 { return asInt(v) })
	setCollatorSourcesOf[string](r, "string", "case-insensitive", func(a, b string) age.Rank {
		return cmp(int64(strings.Compare(strings.ToLower(a), strings.ToLower(b))), 0)
	}, strs, func(v any) string { return asString(v) })
	r.Sample(collCase{"any", "reversed", "mixed (Set)", "collator+source", "absent"})
}
