package c02

import (
	"fmt"
	"math"
	"sort"

	col "github.com/craterdog/go-collection-framework/v4/collection"
	rt "github.com/craterdog/go-collection-framework/v4/verifrt"
	"verif/checks/common"
	"verif/engine"
)

// bulkOperands: AddValues, RemoveValues, ContainsAny and ContainsAll with
// EVERY operand sequence of up to three values over the universe (repeats,
// non-members, members out of order, members that are or are not neighbours),
// handed over as a List, an Array and a Set, on every subset of the universe as
// the receiver. The searches use six fixed operands; a short cut that looks at
// the shape of the operand (its ends, its length) is decided here.

type bulkCase struct {
	Universe string `json:"universe"`
	Set      []int  `json:"set"`
	Operand  []int  `json:"operand"`
	Form     string `json:"operand_form"`
	Op       string `json:"operation"`
}

func bulkOperands(r *engine.Rec) {
	N := common.N
	universes := map[string][]int{
		"small ints":                    {10, 20, 30, 40, 50},
		"ints at the ends of the range": {math.MinInt, -6e18, 0, 6e18, math.MaxInt},
	}
	cases := 0
	for uname, u := range universes {
		var operands [][]int
		operands = append(operands, []int{})
		for _, a := range u {
			operands = append(operands, []int{a})
			for _, b := range u {
				operands = append(operands, []int{a, b})
				for _, c := range u {
					operands = append(operands, []int{a, b, c})
				}
			}
		}
		// one value outside the universe in every position of a three-value operand
		out := 25
		for _, a := range u {
			for _, b := range u {
				operands = append(operands, []int{out, a, b}, []int{a, out, b}, []int{a, b, out})
			}
		}
		for mask := 0; mask < 1<<len(u); mask++ {
			var members []int
			for i, v := range u {
				if mask&(1<<i) != 0 {
					members = append(members, v)
				}
			}
			for _, opnd := range operands {
				for _, form := range []string{"List", "Array", "Set"} {
					if form != "List" && (len(opnd) < 3 || uname != "small ints") {
						continue
					}
					for _, op := range []string{"AddValues", "RemoveValues", "ContainsAny", "ContainsAll"} {
						c := bulkCase{uname, members, opnd, form, op}
						if !r.Wanted(c) {
							continue
						}
						cases++
						in := map[int]bool{}
						for _, v := range members {
							in[v] = true
						}
						anyIn, allIn := false, true
						for _, v := range opnd {
							if in[v] {
								anyIn = true
							} else {
								allIn = false
							}
						}
						want := map[int]bool{}
						for v := range in {
							want[v] = true
						}
						for _, v := range opnd {
							switch op {
							case "AddValues":
								want[v] = true
							case "RemoveValues":
								delete(want, v)
							}
						}
						var wantArr []int
						for v := range want {
							wantArr = append(wantArr, v)
						}
						sort.Ints(wantArr)
						var got []int
						var res bool
						o := rt.Protect(fuel, func() {
							set := col.Set[int](N()).MakeFromArray(append([]int(nil), members...))
							var seq col.Sequential[int]
							switch form {
							case "List":
								seq = col.List[int](N()).MakeFromArray(append([]int(nil), opnd...))
							case "Array":
								seq = col.Array[int](N()).MakeFromArray(append([]int(nil), opnd...))
							default:
								seq = col.Set[int](N()).MakeFromArray(append([]int(nil), opnd...))
							}
							switch op {
							case "AddValues":
								set.AddValues(seq)
							case "RemoveValues":
								set.RemoveValues(seq)
							case "ContainsAny":
								res = set.ContainsAny(seq)
							case "ContainsAll":
								res = set.ContainsAll(seq)
							}
							got = set.AsArray()
							// membership as the set itself reports it, in Go's own integer order
							for i, v := range got {
								if !set.ContainsValue(v) || set.GetIndex(v) != i+1 {
									got = append(got, -1) // mark: a listed member is not found where it is listed
									break
								}
							}
						})
						r.Evals++
						switch {
						case o.Panicked || o.Fuel:
							r.Violation(op+" fails on a valid operand", fmt.Sprintf("%+v: %s", c, o.Value), c)
						case len(got) > 0 && got[len(got)-1] == -1 && !want[-1]:
							r.Violation("a value listed by AsArray is not found by ContainsValue/GetIndex where it is listed, after "+op, fmt.Sprintf("%+v: %v", c, got[:len(got)-1]), c)
						case fmt.Sprint(got) != fmt.Sprint(wantArr) && !(len(got) == 0 && len(wantArr) == 0):
							r.Violation(op+" leaves a set that is not exactly the values added and not removed, in ascending order", fmt.Sprintf("%+v: got %v want %v", c, got, wantArr), c)
						case op == "ContainsAny" && res != anyIn, op == "ContainsAll" && res != allIn:
							r.Violation(op+" wrong result", fmt.Sprintf("%+v: got %v", c, res), c)
						}
					}
				}
			}
		}
	}
	r.States += int64(cases)
	r.Distinct += int64(cases)
	r.Transitions += r.Evals
	r.Sample(bulkCase{"small ints", []int{10, 20, 30, 40}, []int{10, 25, 30}, "List", "RemoveValues"})
}
