// Package c02: Set stays strictly ordered, duplicate-free and equal to the
// mathematical set, for the default and for caller-supplied collators.
package c02

import (
	"fmt"
	"reflect"
	"time"

	age "github.com/craterdog/go-collection-framework/v4/agent"
	col "github.com/craterdog/go-collection-framework/v4/collection"
	rt "github.com/craterdog/go-collection-framework/v4/verifrt"
	"verif/checks/common"
	"verif/engine"
	"verif/engine/dump"
	"verif/engine/seqx"
)

type Op struct {
	K string `json:"k"`
	V int    `json:"v,omitempty"` // universe index
	I int    `json:"i,omitempty"`
	J int    `json:"j,omitempty"`
	S int    `json:"s,omitempty"` // operand selector
}

const fuel = 2000000

// FnCollator is a caller-supplied collator (a total preorder given by a function).
type FnCollator[V any] struct {
	Name string
	F    func(a, b V) age.Rank
}

func (c *FnCollator[V]) GetClass() age.CollatorClassLike[V] { return nil }
func (c *FnCollator[V]) CompareValues(a, b V) bool          { return c.F(a, b) == age.EqualRank }
func (c *FnCollator[V]) RankValues(a, b V) age.Rank         { return c.F(a, b) }
func (c *FnCollator[V]) GetDepth() int                      { return 0 }
func (c *FnCollator[V]) GetMaximum() int                    { return 16 }

type cfg[V any] struct {
	name     string
	universe []V
	rank     func(a, b V) age.Rank // model order
	collator func() age.CollatorLike[V]
	maxSize  int
}

func cmpInt(a, b int) age.Rank {
	switch {
	case a < b:
		return age.LesserRank
	case a > b:
		return age.GreaterRank
	}
	return age.EqualRank
}

// model: ascending representatives
func mAdd[V any](c *cfg[V], m []V, v V) []V {
	for i, x := range m {
		switch c.rank(v, x) {
		case age.EqualRank:
			return m
		case age.LesserRank:
			out := append([]V(nil), m[:i]...)
			out = append(out, v)
			return append(out, m[i:]...)
		}
	}
	return append(append([]V(nil), m...), v)
}

func mRemove[V any](c *cfg[V], m []V, v V) []V {
	for i, x := range m {
		if c.rank(v, x) == age.EqualRank {
			return append(append([]V(nil), m[:i]...), m[i+1:]...)
		}
	}
	return m
}

func mIndex[V any](c *cfg[V], m []V, v V) int {
	for i, x := range m {
		if c.rank(v, x) == age.EqualRank {
			return i + 1
		}
	}
	return 0
}

func operand[V any](c *cfg[V], sel int, set col.SetLike[V], m []V) (col.Sequential[V], []V) {
	u := c.universe
	L := col.List[V](common.N())
	switch sel {
	case 0:
		return L.Make(), nil
	case 1:
		v := []V{u[0]}
		return L.MakeFromArray(v), v
	case 2:
		v := []V{u[len(u)-1], u[1], u[len(u)-1]}
		return L.MakeFromArray(v), v
	case 3:
		return set, append([]V(nil), m...)
	case 4:
		v := []V{u[2], u[0], u[1]}
		return col.Array[V](common.N()).MakeFromArray(v), v
	case 6, 7:
		// the operand is itself a set with a collator of its own: the receiver's order reversed (6) or the default
		// collator (7) - what it holds, in its own order, is what is handed over
		var src col.SetLike[V]
		if sel == 6 {
			src = col.Set[V](common.N()).MakeWithCollator(&FnCollator[V]{Name: "reversed", F: func(a, b V) age.Rank { return c.rank(b, a) }})
		} else {
			src = col.Set[V](common.N()).Make()
		}
		for _, v := range []V{u[2], u[0], u[len(u)-1], u[1]} {
			src.AddValue(v)
		}
		return src, src.AsArray()
	default:
		v := []V{u[len(u)/2]}
		return L.MakeFromArray(v), v
	}
}

const nOperands = 8

func newSet[V any](c *cfg[V]) col.SetLike[V] {
	if c.collator != nil {
		return col.Set[V](common.N()).MakeWithCollator(c.collator())
	}
	return col.Set[V](common.N()).Make()
}

func norm(i, n int) (int, bool) {
	if i >= 1 && i <= n {
		return i, true
	}
	if i <= -1 && i >= -n {
		return i + n + 1, true
	}
	return 0, false
}

func same[V any](a, b []V) bool {
	if len(a) != len(b) {
		return false
	}
	for i := range a {
		if !reflect.DeepEqual(a[i], b[i]) {
			return false
		}
	}
	return true
}

func run[V any](r *engine.Rec, c *cfg[V]) {
	name := c.name
	s := &seqx.Search[Op]{Name: name, MaxSize: c.maxSize}
	s.Inits = []Op{{K: "Make"}}
	if c.collator == nil {
		s.Inits = append(s.Inits, Op{K: "MakeFromArray", S: 2}, Op{K: "MakeFromArray", S: 4}, Op{K: "MakeFromSequence", S: 4}, Op{K: "MakeFromArray", S: 0},
			Op{K: "MakeFromSequenceOfReversedSet", S: 4}, Op{K: "MakeFromSequenceOfReversedSet", S: 2}, Op{K: "MakeFromSequenceOfDefaultSet", S: 4})
	}
	s.Ops = func(n int) []Op {
		var ops []Op
		for v := range c.universe {
			ops = append(ops, Op{K: "AddValue", V: v}, Op{K: "RemoveValue", V: v}, Op{K: "ContainsValue", V: v}, Op{K: "GetIndex", V: v})
		}
		for sI := 0; sI < nOperands; sI++ {
			ops = append(ops, Op{K: "AddValues", S: sI}, Op{K: "RemoveValues", S: sI}, Op{K: "ContainsAny", S: sI}, Op{K: "ContainsAll", S: sI})
		}
		for i := -n - 1; i <= n+1; i++ {
			ops = append(ops, Op{K: "GetValue", I: i})
			for j := i; j <= n+1; j++ {
				ops = append(ops, Op{K: "GetValues", I: i, J: j})
			}
		}
		ops = append(ops, Op{K: "RemoveAll"}, Op{K: "Observe"})
		return ops
	}
	build := func(op Op) (col.SetLike[V], []V, rt.Outcome) {
		var set col.SetLike[V]
		var m []V
		out := rt.Protect(fuel, func() {
			switch op.K {
			case "Make":
				set = newSet(c)
			case "MakeFromArray":
				_, vals := operand[V](c, op.S, nil, nil)
				set = col.Set[V](common.N()).MakeFromArray(vals)
				for _, v := range vals {
					m = mAdd(c, m, v)
				}
			case "MakeFromSequence":
				seq, vals := operand[V](c, op.S, nil, nil)
				set = col.Set[V](common.N()).MakeFromSequence(seq)
				for _, v := range vals {
					m = mAdd(c, m, v)
				}
			case "MakeFromSequenceOfReversedSet", "MakeFromSequenceOfDefaultSet":
				// the source is itself a set, ordered by its own (possibly different) collator
				_, vals := operand[V](c, op.S, nil, nil)
				var src col.SetLike[V]
				if op.K == "MakeFromSequenceOfReversedSet" {
					src = col.Set[V](common.N()).MakeWithCollator(&FnCollator[V]{Name: "reversed", F: func(a, b V) age.Rank { return c.rank(b, a) }})
				} else {
					src = col.Set[V](common.N()).Make()
				}
				for _, v := range vals {
					src.AddValue(v)
				}
				set = col.Set[V](common.N()).MakeFromSequence(src)
				for _, v := range vals {
					m = mAdd(c, m, v)
				}
			}
		})
		return set, m, out
	}
	type result struct {
		m                   []V
		res                 any
		mustPanic, mayPanic bool
	}
	model := func(op Op, m []V, opnd []V) result {
		n := len(m)
		switch op.K {
		case "AddValue":
			return result{m: mAdd(c, m, c.universe[op.V])}
		case "RemoveValue":
			return result{m: mRemove(c, m, c.universe[op.V])}
		case "ContainsValue":
			return result{m: m, res: mIndex(c, m, c.universe[op.V]) > 0}
		case "GetIndex":
			return result{m: m, res: mIndex(c, m, c.universe[op.V])}
		case "AddValues":
			for _, v := range opnd {
				m = mAdd(c, m, v)
			}
			return result{m: m}
		case "RemoveValues":
			for _, v := range opnd {
				m = mRemove(c, m, v)
			}
			return result{m: m}
		case "ContainsAny", "ContainsAll":
			anyv, allv := false, true
			for _, v := range opnd {
				f := mIndex(c, m, v) > 0
				anyv = anyv || f
				allv = allv && f
			}
			if op.K == "ContainsAny" {
				return result{m: m, res: anyv}
			}
			return result{m: m, res: allv}
		case "GetValue":
			p, ok := norm(op.I, n)
			if !ok {
				return result{m: m, mustPanic: true}
			}
			return result{m: m, res: m[p-1]}
		case "GetValues":
			pf, ok1 := norm(op.I, n)
			pl, ok2 := norm(op.J, n)
			if !ok1 || !ok2 {
				return result{m: m, mustPanic: true}
			}
			if pf > pl {
				return result{m: m, mayPanic: true, res: []V{}}
			}
			return result{m: m, res: append([]V(nil), m[pf-1:pl]...)}
		case "RemoveAll":
			return result{m: nil}
		}
		return result{m: m}
	}
	apply := func(op Op, set col.SetLike[V], opnd col.Sequential[V]) (res any, out rt.Outcome) {
		out = rt.Protect(fuel, func() {
			switch op.K {
			case "AddValue":
				set.AddValue(c.universe[op.V])
			case "RemoveValue":
				set.RemoveValue(c.universe[op.V])
			case "ContainsValue":
				res = set.ContainsValue(c.universe[op.V])
			case "GetIndex":
				res = set.GetIndex(c.universe[op.V])
			case "AddValues":
				set.AddValues(opnd)
			case "RemoveValues":
				set.RemoveValues(opnd)
			case "ContainsAny":
				res = set.ContainsAny(opnd)
			case "ContainsAll":
				res = set.ContainsAll(opnd)
			case "GetValue":
				res = set.GetValue(op.I)
			case "GetValues":
				res = set.GetValues(op.I, op.J).AsArray()
			case "RemoveAll":
				set.RemoveAll()
			}
		})
		return
	}
	// Bystanders: other sets of the same class (element type), built through each constructor. What the class
	// keeps for all its instances - a buffer, a cache - shows as one set changing when another is built or used.
	u := c.universe
	bystanders := []func() (col.SetLike[V], []V){
		func() (col.SetLike[V], []V) {
			return col.Set[V](common.N()).MakeFromArray([]V{u[1], u[0]}), mAdd(c, mAdd(c, nil, u[1]), u[0])
		},
		func() (col.SetLike[V], []V) {
			vals := []V{u[2], u[0], u[1]}
			var m []V
			for _, v := range vals {
				m = mAdd(c, m, v)
			}
			return col.Set[V](common.N()).MakeFromSequence(col.List[V](common.N()).MakeFromArray(vals)), m
		},
		func() (col.SetLike[V], []V) {
			st := newSet(c)
			st.AddValues(col.List[V](common.N()).MakeFromArray([]V{u[1], u[2]}))
			st.RemoveValue(u[1])
			return st, mRemove(c, mAdd(c, mAdd(c, nil, u[1]), u[2]), u[1])
		},
		func() (col.SetLike[V], []V) {
			st := col.Set[V](common.N()).MakeFromArray(append([]V(nil), u[:min(4, len(u))]...))
			st.RemoveAll()
			st.AddValue(u[1])
			return st, mAdd(c, nil, u[1])
		},
	}
	defaultOrder := c.collator == nil
	replay := func(path []Op) (col.SetLike[V], []V, bool) {
		set, m, out := build(path[0])
		if out.Panicked {
			return nil, nil, false
		}
		for _, p := range path[1:] {
			opnd, content := operand(c, p.S, set, m)
			exp := model(p, m, content)
			_, o := apply(p, set, opnd)
			if o.Fuel {
				return nil, nil, false
			}
			if !o.Panicked {
				m = exp.m
			}
		}
		return set, m, true
	}
	interference := func(path []Op, op Op) (string, string) {
		for bi, mk := range bystanders {
			if !defaultOrder && bi != 2 {
				continue // the class-level constructors build default-ordered sets: their model contents differ under this collator
			}
			set, m, ok := replay(path)
			if !ok {
				return "", ""
			}
			var by col.SetLike[V]
			var bm []V
			if out := rt.Protect(fuel, func() { by, bm = mk() }); out.Panicked || out.Fuel {
				return "", ""
			}
			if !same(set.AsArray(), m) {
				return "building another set of the same element type changes this one", fmt.Sprintf("bystander %d: got %v want %v", bi, set.AsArray(), m)
			}
			opnd, content := operand(c, op.S, set, m)
			exp := model(op, m, content)
			_, o := apply(op, set, opnd)
			if o.Panicked || o.Fuel {
				continue
			}
			if !same(by.AsArray(), bm) {
				return op.K + " changes another set of the same element type", fmt.Sprintf("bystander %d: got %v want %v", bi, by.AsArray(), bm)
			}
			if out := rt.Protect(fuel, func() { by, bm = mk() }); out.Panicked || out.Fuel {
				return "", ""
			}
			if !same(set.AsArray(), exp.m) {
				return "building another set of the same element type after " + op.K + " changes this one", fmt.Sprintf("bystander %d: got %v want %v", bi, set.AsArray(), exp.m)
			}
			if !same(by.AsArray(), bm) {
				return "a set built after " + op.K + " on another set has the wrong contents", fmt.Sprintf("bystander %d: got %v want %v", bi, by.AsArray(), bm)
			}
		}
		return "", ""
	}
	s.Exec = func(path []Op, op Op) seqx.Step {
		cs := seqx.Case[Op]{Search: name, Path: path, Op: op}
		viol := func(sig, detail string) seqx.Step {
			r.Violation(sig, fmt.Sprintf("[%s] %s\npath: %+v\nop: %+v", name, detail, path, op), cs)
			return seqx.Step{}
		}
		if len(path) == 0 {
			set, m, out := build(op)
			if out.Panicked {
				return viol("constructor "+op.K+" fails", out.Value)
			}
			if !same(set.AsArray(), m) {
				return viol("constructor "+op.K+" wrong contents", fmt.Sprint(set.AsArray(), m))
			}
			return seqx.Step{Key: dump.Dump(set), Size: len(m), Expand: true}
		}
		set, m, out := build(path[0])
		if out.Panicked {
			return seqx.Step{}
		}
		for _, p := range path[1:] {
			opnd, content := operand(c, p.S, set, m)
			exp := model(p, m, content)
			_, o := apply(p, set, opnd)
			rt.Protect(fuel, func() { // observe after every replayed step (populates anything the set caches)
				set.AsArray()
				set.GetSize()
				it := set.GetIterator()
				for it.HasNext() {
					it.GetNext()
				}
				set.ContainsValue(c.universe[0])
			})
			if !o.Panicked {
				m = exp.m
			}
		}
		opnd, content := operand(c, op.S, set, m)
		before := dump.Dump(set)
		exp := model(op, m, content)
		res, o := apply(op, set, opnd)
		after := dump.Dump(set)
		r.Max("fuel_ticks", o.Ticks)
		if o.Fuel {
			return viol(op.K+" does not terminate", "fuel")
		}
		if o.Panicked {
			r.Outcome("panic")
			if !exp.mustPanic && !exp.mayPanic {
				return viol(op.K+" panics on a valid call", o.Value)
			}
			// the set still contains exactly the values added and not removed (observable contents, not the private representation)
			if got := set.AsArray(); !same(got, m) {
				return viol(op.K+" panics but changes the set", fmt.Sprintf("before %v after %v", m, got))
			}
			if before != after {
				return seqx.Step{Key: after, Size: len(m), Expand: true} // private state differs: a new state of the search
			}
			return seqx.Step{}
		}
		r.Outcome("return")
		if exp.mustPanic {
			return viol(op.K+" returns normally for an index outside the set", fmt.Sprint(m, res))
		}
		got := set.AsArray()
		if !same(got, exp.m) {
			return viol(op.K+" wrong resulting set", fmt.Sprintf("before %v operand %v: got %v want %v", m, content, got, exp.m))
		}
		if exp.res != nil {
			ok := reflect.DeepEqual(res, exp.res)
			if a, isA := exp.res.([]V); isA {
				b, _ := res.([]V)
				ok = same(a, b)
			}
			if !ok {
				return viol(op.K+" wrong result", fmt.Sprintf("set %v: got %v want %v", m, res, exp.res))
			}
		}
		// invariants through the API, using the set's own collator
		coll := set.GetCollator()
		for i := 0; i+1 < len(got); i++ {
			if coll.RankValues(got[i], got[i+1]) != age.LesserRank {
				return viol("array view not strictly ascending under the set's collator", fmt.Sprint(got))
			}
		}
		it := set.GetIterator()
		for i := range got {
			if !it.HasNext() || !reflect.DeepEqual(it.GetNext(), got[i]) {
				return viol("iterator disagrees with array view", fmt.Sprint(got))
			}
		}
		if it.HasNext() || set.GetSize() != len(got) || set.IsEmpty() != (len(got) == 0) {
			return viol("size/emptiness/iterator disagree with array view", fmt.Sprint(got))
		}
		if why := common.TwoLiveIterators[V](func() age.IteratorLike[V] { return set.GetIterator() }, got, true); why != "" {
			return viol("two iterators over one set influence each other", why)
		}
		for _, v := range c.universe {
			k := set.GetIndex(v)
			want := mIndex(c, exp.m, v)
			if k != want || set.ContainsValue(v) != (want > 0) {
				return viol("GetIndex/ContainsValue disagree with the order", fmt.Sprintf("set %v value %v: GetIndex %d want %d", got, v, k, want))
			}
			if k > 0 && coll.RankValues(set.GetValue(k), v) != age.EqualRank {
				return viol("GetIndex(v)=k but GetValue(k) does not rank equal to v", fmt.Sprint(got, v, k))
			}
		}
		if sig, detail := interference(path, op); sig != "" {
			return viol(sig, detail)
		}
		if len(r.Samples) < 2 && len(path) >= 3 {
			r.Sample(map[string]any{"search": name, "path": fmt.Sprintf("%+v", path), "op": fmt.Sprintf("%+v", op), "set_after": fmt.Sprint(exp.m)})
		}
		return seqx.Step{Key: after, Size: len(exp.m), Expand: true}
	}
	s.Run(r)
}

func lexInts(a, b []int) age.Rank {
	for i := 0; i < len(a) && i < len(b); i++ {
		if a[i] != b[i] {
			return cmpInt(a[i], b[i])
		}
	}
	return cmpInt(len(a), len(b))
}

func units(tier string) []engine.Unit {
	var us []engine.Unit
	add := func(name string, f func(r *engine.Rec)) { us = append(us, engine.Unit{Name: name, Run: f}) }
	small := []int{1, 2, 3, 4, 5, 6, 7, 8, 9, 10, 11}
	if tier != "thorough" {
		small = []int{1, 2, 3, 4, 5, 6}
	}
	spread := []int{-1000, -7, 0, 8, 250, 1000}
	cmpStr := func(a, b string) age.Rank {
		switch {
		case a < b:
			return age.LesserRank
		case a > b:
			return age.GreaterRank
		}
		return age.EqualRank
	}
	reversed := func(a, b int) age.Rank { return cmpInt(b, a) }
	coarse := func(a, b int) age.Rank { return cmpInt(a/2, b/2) }
	add("bulk-operands", bulkOperands)
	add("int-default", func(r *engine.Rec) {
		run(r, &cfg[int]{name: "Set[int] default collator", universe: small, rank: cmpInt, maxSize: 99})
	})
	add("int-spread-default", func(r *engine.Rec) {
		run(r, &cfg[int]{name: "Set[int] spread universe", universe: spread, rank: cmpInt, maxSize: 99})
	})
	add("int-reversed", func(r *engine.Rec) {
		run(r, &cfg[int]{name: "Set[int] reversed collator", universe: small, rank: reversed, maxSize: 99,
			collator: func() age.CollatorLike[int] { return &FnCollator[int]{"reversed", reversed} }})
	})
	add("int-coarse", func(r *engine.Rec) {
		run(r, &cfg[int]{name: "Set[int] coarse collator (x/2)", universe: small, rank: coarse, maxSize: 99,
			collator: func() age.CollatorLike[int] { return &FnCollator[int]{"coarse", coarse} }})
	})
	add("string-default", func(r *engine.Rec) {
		run(r, &cfg[string]{name: "Set[string] default collator", universe: []string{"", "a", "ab", "b", "ba", "c"}, rank: cmpStr, maxSize: 99})
	})
	add("slice-default", func(r *engine.Rec) {
		run(r, &cfg[[]int]{name: "Set[[]int] default collator", universe: [][]int{{}, {1}, {1, 1}, {1, 2}, {2}, {3, 0}}, rank: lexInts, maxSize: 99})
	})
	add("any-default", func(r *engine.Rec) {
		coll := age.Collator[any]().Make()
		run(r, &cfg[any]{name: "Set[any] default collator (order taken from the collator; C07 decides the collator)", universe: []any{int64(1), int64(2), "a", "b", 2.5, true}, rank: coll.RankValues, maxSize: 99})
	})
	add("set-of-sets", func(r *engine.Rec) {
		S := col.Set[int](common.N())
		var uni []col.SetLike[int]
		for _, e := range [][]int{{}, {1}, {2}, {1, 2}, {3}, {1, 3}} {
			uni = append(uni, S.MakeFromArray(e))
		}
		rank := func(a, b col.SetLike[int]) age.Rank { return lexInts(a.AsArray(), b.AsArray()) }
		run(r, &cfg[col.SetLike[int]]{name: "Set[SetLike[int]] default collator", universe: uni, rank: rank, maxSize: 99})
	})
	return us
}

func init() {
	engine.Register(&engine.Check{
		ID:        "C02",
		Technique: "explicit-state search over the real Set: all subsets of a 6/7-value universe reachable by every insertion order x every operation, for the default, a reversed and a coarse caller-supplied collator and five element types; sorted-slice reference model",
		Rule:      "state = dump of private fields (all subsets of the universe are reached); transition = (state, op)",
		Assume:    []string{"universes of 6 (quick) / 7 (thorough) values", "for Set[any] the model order is the collator's own ranking (C07 decides the collator)"},
		Budget: func(tier string) time.Duration {
			// the quick search finishes in seconds; the budget only bounds a search whose state space a change of
			// the library has made unbounded (a private modification counter): reported as not exhaustive
			if tier == "thorough" {
				return 15 * time.Minute
			}
			return 90 * time.Second
		},
		Units: units,
	})
}
