package queue

import (
	"fmt"
	"strings"

	rt "github.com/craterdog/go-collection-framework/v4/verifrt"
	"verif/engine"
)

// seqHistories: every history of AddValue, RemoveHead and RemoveAll that one
// goroutine can make without blocking, up to a length bound, on queues of
// capacity 2..4 - with GetSize, AsArray and an iteration after every step -
// judged like every other history (a single FIFO order explains all results;
// nothing stays parked). The concurrent programs keep their values few so that
// their schedules can be enumerated; what a longer run of calls leaves behind
// in the queue (a cursor, a spare buffer, a count) shows here.

type seqCase struct {
	Capacity int    `json:"capacity"`
	Ops      string `json:"calls"` // A = AddValue (values 1,2,3,... in call order), R = RemoveHead, X = RemoveAll, K = CloseQueue (then RemoveHead until ok=false)
}

func seqHistories(which string) func(r *engine.Rec) {
	return func(r *engine.Rec) {
		maxLen := 10
		if r.Tier == "thorough" {
			maxLen = 13
		}
		n := 0
		var rec func(capacity int, ops string, size int)
		run := func(capacity int, ops string) {
			c := seqCase{capacity, ops}
			if !r.Wanted(c) {
				return
			}
			n++
			var script []Op
			next := 1
			for _, ch := range ops {
				switch ch {
				case 'A':
					script = append(script, Op{OpAdd, next})
					next++
				case 'R':
					script = append(script, Op{Kind: OpRem})
				case 'X':
					script = append(script, Op{Kind: OpRemoveAll})
				case 'K':
					script = append(script, Op{Kind: OpClose}, Op{Kind: OpDrain})
					continue
				}
				script = append(script, Op{Kind: OpSize}, Op{Kind: OpArray}, Op{Kind: OpIter})
			}
			p := Prog{Name: "seq", Family: "one-thread-history", Capacity: capacity, Scripts: []Script{{Name: "S", Ops: script}}}
			judge := func(p Prog, h *History, ex *rt.Exec) []string {
				v := Judge(p, h, ex)
				issues := v.C04
				if which == "C05" {
					issues = v.C05
				}
				var out []string
				for _, is := range issues {
					out = append(out, is.Kind+"\x00"+is.Detail)
				}
				return out
			}
			threads, j := p.Build(judge)()
			ex := rt.RunOnce(rt.Config{Elide: true, Race: true}, nil, threads)
			r.Evals++
			if ex.Unmodelled != "" {
				r.Incomplete("not modelled: " + ex.Unmodelled)
				return
			}
			for _, w := range j(ex) {
				kind, detail, _ := strings.Cut(w, "\x00")
				r.Violation("family=one-thread-history "+kind, fmt.Sprintf("%+v\n%s", c, detail), c)
			}
		}
		rec = func(capacity int, ops string, size int) {
			run(capacity, ops)
			run(capacity, ops+"K")
			if len(ops) == maxLen {
				return
			}
			if size < capacity {
				rec(capacity, ops+"A", size+1)
			}
			if size > 0 {
				rec(capacity, ops+"R", size-1)
			}
			if !strings.HasSuffix(ops, "X") {
				rec(capacity, ops+"X", 0)
			}
		}
		for _, capacity := range []int{2, 3, 4} {
			rec(capacity, "", 0)
		}
		r.States += int64(n)
		r.Distinct += int64(n)
		r.Transitions += r.Evals
		r.Sample(seqCase{4, "AAARXAAR"})
	}
}
