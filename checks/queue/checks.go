package queue

import (
	"fmt"
	"strings"
	"sync"
	"time"

	mod "github.com/craterdog/go-collection-framework/v4"

	col "github.com/craterdog/go-collection-framework/v4/collection"
	rt "github.com/craterdog/go-collection-framework/v4/verifrt"
	"verif/checks/common"
	"verif/engine"
	"verif/engine/schedx"
)

// exploreProg explores one program and records coverage and violations for
// property which ("C04" or "C05").
func exploreProg(r *engine.Rec, p Prog, which string) {
	judge := func(p Prog, h *History, ex *rt.Exec) []string {
		v := Judge(p, h, ex)
		issues := v.C04
		if which == "C05" {
			issues = v.C05
		}
		var out []string
		for _, is := range issues {
			out = append(out, is.Kind+"\x00"+is.Detail)
		}
		return out
	}
	o := schedx.Opts{Name: p.Name, Desc: p.String(), SigPrefix: "family=" + p.Family + " ", CapA: 150000, Bounds: []int{2}, CapB: 400000}
	if r.Tier == "thorough" {
		o.CapA, o.Bounds, o.CapB = 3000000, []int{2, 3}, 3000000
	}
	schedx.Explore(r, p.Build(judge), o)
}

func sigOf(p Prog, kind string) string {
	return "family=" + p.Family + " " + kind
}

func budget(tier string) time.Duration {
	if tier == "thorough" {
		return 25 * time.Minute
	}
	return 240 * time.Second
}

func init() {
	engine.RegisterRacePrograms("C04", racePrograms)
	engine.Register(&engine.Check{
		ID:        "C04",
		Technique: "stateless model checking of the real queue.go under a cooperative scheduler: depth-first enumeration of all schedules (preemption bounding, then unbounded where it completes) + vector-clock race detection on every execution + brute-force FIFO linearizability of every recorded history",
		Rule:      "one case = one complete schedule of one closed client program (producers, consumers, closer, observers, RemoveAll caller) on one shared queue; distinct = distinct (stuck-set, panic-count) outcomes per program; every schedule is a different interleaving by construction of the DFS",
		Assume: []string{"sequentially consistent interleavings at synchronisation granularity (sufficient for race-free executions; races are detected per execution on struct fields, package variables and maps)",
			"thread counts and value counts as listed in the program samples", "registry-mutex elision guarded dynamically (DESIGN §2.2)"},
		Budget: budget,
		Units: func(tier string) []engine.Unit {
			var us []engine.Unit
			for _, p := range Programs(tier) {
				p := p
				us = append(us, engine.Unit{Name: p.Name, Run: func(r *engine.Rec) { exploreProg(r, p, "C04") }})
			}
			us = append(us, engine.Unit{Name: "one-thread-histories", Early: true, Run: seqHistories("C04")})
			us = append(us, engine.RacePassUnit("C04"))
			return us
		},
	})
	engine.Register(&engine.Check{
		ID:        "C05",
		Technique: "stateless model checking: every schedule of small producer/consumer/closer programs; blocking is decided by the scheduler (no enabled thread), never by a clock; constructor ladder run as single-thread programs under the scheduler",
		Rule:      "one case = one complete schedule of a program, or one constructor call with N initial values; a parked call is judged against the final states of the linearized history",
		Assume:    []string{"same as C04"},
		Budget:    budget,
		Units: func(tier string) []engine.Unit {
			var us []engine.Unit
			for _, p := range Programs(tier) {
				p := p
				us = append(us, engine.Unit{Name: p.Name, Run: func(r *engine.Rec) { exploreProg(r, p, "C05") }})
			}
			us = append(us, engine.Unit{Name: "constructors", Early: true, Run: constructorLadder})
			us = append(us, engine.Unit{Name: "one-thread-histories", Early: true, Run: seqHistories("C05")})
			return us
		},
	})
}

// constructorLadder: MakeFromArray / MakeFromSequence with N = 0..4*capacity
// values must return (C05, last sentence).
func constructorLadder(r *engine.Rec) {
	type ccase struct {
		Form string `json:"form"`
		N    int    `json:"n"`
	}
	forms := []string{"MakeFromArray", "MakeFromSequence", "module Queue(values)", "module Queue(sequence)", "module Queue(source)", "ParseSource(Queue literal)"}
	for _, form := range forms {
		for n := 0; n <= 64; n++ {
			c := ccase{form, n}
			if !r.Wanted(c) {
				continue
			}
			vals := make([]int, n)
			for i := range vals {
				vals[i] = i + 1
			}
			var q col.QueueLike[int]
			var items []string
			vals64 := make([]int64, n)
			for i := range vals {
				items = append(items, fmt.Sprint(vals[i]))
				vals64[i] = int64(vals[i])
			}
			source := "[" + strings.Join(items, ", ") + "](Queue)"
			if n == 0 {
				source = "[ ](Queue)"
			}
			size := -1
			body := func() {
				switch form {
				case "MakeFromArray":
					q = col.Queue[int](common.N()).MakeFromArray(vals)
				case "MakeFromSequence":
					q = col.Queue[int](common.N()).MakeFromSequence(col.List[int](common.N()).MakeFromArray(vals))
				case "module Queue(values)":
					q = mod.Queue[int](vals)
				case "module Queue(sequence)":
					q = mod.Queue[int](col.List[int](common.N()).MakeFromArray(vals))
				case "module Queue(source)":
					size = mod.Queue[int64](source).GetSize()
				case "ParseSource(Queue literal)":
					size = mod.ParseSource(source).(col.QueueLike[any]).GetSize()
				}
				if q != nil {
					size = q.GetSize()
				}
			}
			ex := rt.RunOnce(rt.Config{Elide: true, FuelTotal: 50000000}, nil, []rt.ThreadSpec{{Name: "ctor", Body: body}})
			r.Evals++
			r.States++
			r.Transitions++
			class := "<=16"
			if n > 16 {
				class = ">16"
			}
			switch {
			case len(ex.Stuck) > 0:
				r.Outcome("blocked")
				r.Violation("constructor "+form+" blocks on its own capacity (N"+class+")",
					fmt.Sprintf("%s with %d initial values never returns: %v", form, n, ex.SortedStuck()), c)
			case len(ex.Panics) > 0:
				r.Outcome("panic")
				r.Violation("constructor "+form+" panics", ex.Panics[0].Value, c)
			default:
				r.Outcome("returned")
				if size != n {
					r.Violation("constructor "+form+" wrong size", fmt.Sprint(size, n), c)
				}
			}
		}
	}
	r.Distinct += 390
	r.Sample(map[string]any{"constructor": "MakeFromArray", "N": "0..64"})
}

// racePrograms: the client programs whose goroutines all terminate and that do
// not call RemoveAll (whose race is a recorded finding), run free for the
// auxiliary pass under Go's race detector. No history is recorded here: the
// bodies call the queue directly.
func racePrograms() []engine.RaceProgram {
	var ps []engine.RaceProgram
	for _, p := range Programs("quick") {
		p := p
		// families in which every goroutine terminates on a correct queue
		// (a closer that is free to run concurrently with producers is left to the explored executions, which
		// report the send/close race that Go's detector reports too - a recorded finding - on every run)
		skip := !(p.Family == "pc" || p.Family == "pipeline" || p.Family == "observer" || p.Family == "capacity0")
		for _, s := range p.Scripts {
			for _, op := range s.Ops {
				if op.Kind == OpRemoveAll || op.Kind == OpSignal || op.Kind == OpAwait {
					skip = true
				}
			}
		}
		if skip {
			continue
		}
		ps = append(ps, engine.RaceProgram{Name: p.Name, Run: func() {
			q := col.Queue[int](common.N()).MakeWithCapacity(uint(p.Capacity))
			var prod, all, start sync.WaitGroup
			for _, s := range p.Scripts {
				if s.Producer {
					prod.Add(1)
				}
			}
			start.Add(1)
			for _, s := range p.Scripts {
				s := s
				all.Add(1)
				go func() {
					defer all.Done()
					if s.Producer {
						defer prod.Done()
					}
					defer func() { recover() }()
					start.Wait()
					for _, op := range s.Ops {
						switch op.Kind {
						case OpAdd:
							q.AddValue(op.Arg)
						case OpRem:
							q.RemoveHead()
						case OpDrain:
							for {
								if _, ok := q.RemoveHead(); !ok {
									break
								}
							}
						case OpClose:
							q.CloseQueue()
						case OpWaitProd:
							prod.Wait()
						case OpSize:
							q.GetSize()
						case OpEmpty:
							q.IsEmpty()
						case OpArray:
							q.AsArray()
						case OpIter:
							it := q.GetIterator()
							for it.HasNext() {
								it.GetNext()
							}
						}
					}
				}()
			}
			start.Done()
			all.Wait()
		}})
	}
	return ps
}
