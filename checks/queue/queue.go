// Package queue holds the closed client programs, the history recorder and the
// oracles shared by C04 (linearizable FIFO with back-pressure) and C05 (no
// lost wake-ups). Every program is explored on the real queue.go under the
// cooperative scheduler.
package queue

import (
	"fmt"
	"sort"
	"strings"

	col "github.com/craterdog/go-collection-framework/v4/collection"
	rt "github.com/craterdog/go-collection-framework/v4/verifrt"
	"verif/checks/common"
)

// ---- programs ----

type OpKind string

const (
	OpAdd       OpKind = "Add"
	OpRem       OpKind = "Rem"   // one RemoveHead
	OpDrain     OpKind = "Drain" // RemoveHead until ok=false
	OpClose     OpKind = "Close"
	OpWaitProd  OpKind = "WaitProd" // wait until all producers are done (well-formed closer)
	OpSize      OpKind = "GetSize"
	OpEmpty     OpKind = "IsEmpty"
	OpArray     OpKind = "AsArray"
	OpIter      OpKind = "Iterate"
	OpRemoveAll OpKind = "RemoveAll"
	OpSignal    OpKind = "SignalPhase" // the setup thread has finished (not a queue call)
	OpAwait     OpKind = "AwaitPhase"  // wait for the setup thread (not a queue call)
)

type Op struct {
	Kind OpKind
	Arg  int
}

type Script struct {
	Name     string
	Producer bool
	Ops      []Op
}

type Prog struct {
	Name       string
	Family     string
	Capacity   int
	Scripts    []Script
	WellFormed bool // producers finish -> close -> consumers drain: must terminate with everything consumed
}

func (p Prog) String() string {
	var parts []string
	for _, s := range p.Scripts {
		var ops []string
		for _, o := range s.Ops {
			if o.Kind == OpAdd {
				ops = append(ops, fmt.Sprintf("Add(%d)", o.Arg))
			} else {
				ops = append(ops, string(o.Kind))
			}
		}
		parts = append(parts, s.Name+":"+strings.Join(ops, ";"))
	}
	return fmt.Sprintf("%s cap=%d {%s}", p.Name, p.Capacity, strings.Join(parts, " | "))
}

func producer(i, n int) Script {
	s := Script{Name: fmt.Sprintf("P%d", i), Producer: true}
	for k := 1; k <= n; k++ {
		s.Ops = append(s.Ops, Op{OpAdd, i*10 + k})
	}
	return s
}

func consumer(i, n int) Script {
	s := Script{Name: fmt.Sprintf("C%d", i)}
	for k := 0; k < n; k++ {
		s.Ops = append(s.Ops, Op{Kind: OpRem})
	}
	return s
}

func drainer(i int) Script { return Script{Name: fmt.Sprintf("D%d", i), Ops: []Op{{Kind: OpDrain}}} }

// Programs returns the closed programs of a tier.
func Programs(tier string) []Prog {
	var out []Prog
	add := func(p Prog) {
		p.Name = fmt.Sprintf("%s-%02d", p.Family, len(out))
		out = append(out, p)
	}
	thorough := tier == "thorough"
	caps := []int{1, 2}
	if thorough {
		caps = []int{1, 2, 3}
	}
	// F1: producers/consumers with a fixed number of removals
	type shape struct{ p, adds, c int }
	shapes := []shape{{1, 1, 1}, {1, 2, 1}, {2, 1, 1}, {2, 1, 2}, {1, 2, 2}, {2, 2, 1}}
	if thorough {
		shapes = append(shapes, shape{2, 2, 2}, shape{3, 1, 1}, shape{3, 1, 3}, shape{1, 3, 1}, shape{2, 3, 2}, shape{3, 2, 2}, shape{1, 3, 3})
	}
	for _, c := range caps {
		for _, sh := range shapes {
			total := sh.p * sh.adds
			if total%sh.c != 0 {
				continue
			}
			var sc []Script
			for i := 1; i <= sh.p; i++ {
				sc = append(sc, producer(i, sh.adds))
			}
			for i := 1; i <= sh.c; i++ {
				sc = append(sc, consumer(i, total/sh.c))
			}
			add(Prog{Family: "pc", Capacity: c, Scripts: sc})
		}
	}
	// F1b: more adds than removals (producers end up parked legitimately or not at all)
	for _, c := range caps {
		add(Prog{Family: "surplus", Capacity: c, Scripts: []Script{producer(1, c+1), consumer(1, 1)}})
		add(Prog{Family: "surplus", Capacity: c, Scripts: []Script{producer(1, 1), producer(2, c), consumer(1, 1)}})
	}
	// F1c: more removals than adds (a consumer stays parked legitimately)
	add(Prog{Family: "deficit", Capacity: 1, Scripts: []Script{producer(1, 1), consumer(1, 2)}})
	add(Prog{Family: "deficit", Capacity: 2, Scripts: []Script{producer(1, 1), consumer(1, 1), consumer(2, 1)}})
	// F2: well-formed pipelines
	type pipe struct{ p, adds, d int }
	pipes := []pipe{{1, 1, 1}, {1, 2, 1}, {2, 1, 1}, {1, 2, 2}, {2, 1, 2}}
	if thorough {
		pipes = append(pipes, pipe{2, 2, 2}, pipe{3, 1, 2}, pipe{1, 3, 1}, pipe{2, 2, 1}, pipe{3, 1, 3}, pipe{1, 3, 3})
	}
	for _, c := range caps {
		for _, pp := range pipes {
			var sc []Script
			for i := 1; i <= pp.p; i++ {
				sc = append(sc, producer(i, pp.adds))
			}
			sc = append(sc, Script{Name: "K", Ops: []Op{{Kind: OpWaitProd}, {Kind: OpClose}}})
			for i := 1; i <= pp.d; i++ {
				sc = append(sc, drainer(i))
			}
			add(Prog{Family: "pipeline", Capacity: c, Scripts: sc, WellFormed: true})
		}
	}
	// F3: observers
	// (an observer that looks twice sees what an earlier look may have left behind: a cached view)
	obs := [][]Op{{{Kind: OpSize}, {Kind: OpArray}}, {{Kind: OpEmpty}, {Kind: OpIter}}, {{Kind: OpArray}, {Kind: OpSize}, {Kind: OpEmpty}}, {{Kind: OpArray}, {Kind: OpArray}}, {{Kind: OpIter}, {Kind: OpSize}, {Kind: OpArray}}}
	for _, c := range caps {
		for oi, o := range obs {
			if !thorough && (oi == 2 || oi == 4) && c == 2 {
				continue
			}
			add(Prog{Family: "observer", Capacity: c, Scripts: []Script{producer(1, 2), consumer(1, 2), {Name: "O", Ops: o}}})
			add(Prog{Family: "observer", Capacity: c, Scripts: []Script{producer(1, 1), producer(2, 1), consumer(1, 1), {Name: "O", Ops: o}}})
		}
	}
	// F4: free closer (close at any time, concurrently with producers)
	add(Prog{Family: "freeclose", Capacity: 1, Scripts: []Script{producer(1, 1), {Name: "K", Ops: []Op{{Kind: OpClose}}}, drainer(1)}})
	add(Prog{Family: "freeclose", Capacity: 1, Scripts: []Script{producer(1, 2), {Name: "K", Ops: []Op{{Kind: OpClose}}}, drainer(1)}})
	add(Prog{Family: "freeclose", Capacity: 2, Scripts: []Script{producer(1, 2), {Name: "K", Ops: []Op{{Kind: OpClose}}}, drainer(1)}})
	if thorough {
		add(Prog{Family: "freeclose", Capacity: 2, Scripts: []Script{producer(1, 1), producer(2, 1), {Name: "K", Ops: []Op{{Kind: OpClose}}}, drainer(1), drainer(2)}})
	}
	// F5: RemoveAll concurrent with other calls
	add(Prog{Family: "removeall", Capacity: 1, Scripts: []Script{producer(1, 1), {Name: "X", Ops: []Op{{Kind: OpRemoveAll}}}}})
	add(Prog{Family: "removeall", Capacity: 2, Scripts: []Script{producer(1, 2), {Name: "X", Ops: []Op{{Kind: OpRemoveAll}}}, consumer(1, 1)}})
	add(Prog{Family: "removeall", Capacity: 1, Scripts: []Script{producer(1, 2), {Name: "X", Ops: []Op{{Kind: OpRemoveAll}}}, consumer(1, 1)}})
	add(Prog{Family: "removeall", Capacity: 1, Scripts: []Script{consumer(1, 1), {Name: "X", Ops: []Op{{Kind: OpRemoveAll}, {OpAdd, 7}}}}})
	// F5b: RemoveAll with nothing concurrent on the queue state it replaces (sequential use from one thread)
	add(Prog{Family: "removeall-seq", Capacity: 2, Scripts: []Script{{Name: "S", Ops: []Op{{OpAdd, 1}, {OpAdd, 2}, {Kind: OpRemoveAll}, {OpAdd, 3}, {Kind: OpRem}, {Kind: OpSize}}}}})
	add(Prog{Family: "close-removeall-seq", Capacity: 2, Scripts: []Script{{Name: "S", Ops: []Op{{OpAdd, 1}, {Kind: OpClose}, {Kind: OpRemoveAll}, {Kind: OpRem}}}}})
	// after a completed RemoveAll the queue must behave like a fresh one of the same capacity: back-pressure ...
	for _, c := range caps {
		ops := []Op{}
		for i := 1; i <= c; i++ {
			ops = append(ops, Op{OpAdd, i})
		}
		ops = append(ops, Op{Kind: OpRemoveAll})
		for i := 1; i <= c+1; i++ {
			ops = append(ops, Op{OpAdd, 10 + i})
		}
		ops = append(ops, Op{Kind: OpSize})
		add(Prog{Family: "removeall-then-refill-seq", Capacity: c, Scripts: []Script{{Name: "S", Ops: ops}}})
	}
	// ... and a queue that is closed, emptied, used again and closed again must end its consumers
	add(Prog{Family: "close-removeall-reuse-seq", Capacity: 2, Scripts: []Script{{Name: "S", Ops: []Op{{OpAdd, 1}, {Kind: OpClose}, {Kind: OpRemoveAll}, {OpAdd, 2}, {Kind: OpClose}, {Kind: OpRem}, {Kind: OpRem}}}}})
	// a RemoveAll that has COMPLETED before anything else starts: the first calls afterwards come from different goroutines
	for _, c := range caps {
		await := Op{Kind: OpAwait}
		add(Prog{Family: "after-removeall", Capacity: c, Scripts: []Script{
			{Name: "S", Ops: []Op{{OpAdd, 1}, {Kind: OpRemoveAll}, {Kind: OpSignal}}},
			{Name: "P1", Producer: true, Ops: []Op{await, {OpAdd, 11}}},
			{Name: "C1", Ops: []Op{await, {Kind: OpRem}}}}})
		add(Prog{Family: "after-removeall", Capacity: c, WellFormed: false, Scripts: []Script{
			{Name: "S", Ops: []Op{{Kind: OpRemoveAll}, {Kind: OpSignal}}},
			{Name: "P1", Producer: true, Ops: []Op{await, {OpAdd, 11}}},
			{Name: "P2", Producer: true, Ops: []Op{await, {OpAdd, 21}}},
			{Name: "K", Ops: []Op{{Kind: OpWaitProd}, {Kind: OpClose}}},
			{Name: "D1", Ops: []Op{await, {Kind: OpDrain}}}}})
	}
	// capacity 0 means the default capacity; emptying such a queue must leave a usable queue
	add(Prog{Family: "capacity0-removeall-seq", Capacity: 0, Scripts: []Script{{Name: "S", Ops: []Op{{OpAdd, 1}, {Kind: OpRemoveAll}, {OpAdd, 2}, {OpAdd, 3}, {Kind: OpRem}, {Kind: OpSize}}}}})
	add(Prog{Family: "capacity0", Capacity: 0, Scripts: []Script{producer(1, 2), consumer(1, 2)}})
	return out
}

// ---- history ----

type Event struct {
	Thread int
	Script string
	Kind   OpKind
	Arg    int
	Inv    int64
	Ret    int64 // 0 = pending
	Val    int
	Ok     bool
	Arr    []int
	Panic  string
	RtErr  bool
}

func (e Event) String() string {
	res := "pending"
	if e.Ret != 0 {
		switch e.Kind {
		case OpRem:
			res = fmt.Sprintf("(%d,%v)", e.Val, e.Ok)
		case OpSize:
			res = fmt.Sprint(e.Val)
		case OpEmpty:
			res = fmt.Sprint(e.Ok)
		case OpArray, OpIter:
			res = fmt.Sprint(e.Arr)
		default:
			res = "done"
		}
		if e.Panic != "" {
			res = "panic(" + e.Panic + ")"
		}
	}
	arg := ""
	if e.Kind == OpAdd {
		arg = fmt.Sprint(e.Arg)
	}
	return fmt.Sprintf("%s.%s(%s)[%d,%d]=%s", e.Script, e.Kind, arg, e.Inv, e.Ret, res)
}

type History struct {
	Events []*Event
}

func (h *History) String() string {
	var s []string
	for _, e := range h.Events {
		s = append(s, e.String())
	}
	return strings.Join(s, "\n")
}

// Build returns the program in the form the explorer wants.
func (p Prog) Build(judge func(p Prog, h *History, ex *rt.Exec) []string) rt.Program {
	return func() ([]rt.ThreadSpec, func(*rt.Exec) []string) {
		q := col.Queue[int](common.N()).MakeWithCapacity(uint(p.Capacity))
		h := &History{}
		var prodWG rt.WaitGroup
		var phase rt.WaitGroup
		phase.Add(1)
		nprod := 0
		for _, s := range p.Scripts {
			if s.Producer {
				nprod++
			}
		}
		prodWG.Add(nprod)
		var threads []rt.ThreadSpec
		for ti, s := range p.Scripts {
			ti, s := ti, s
			threads = append(threads, rt.ThreadSpec{Name: s.Name, Body: func() {
				if s.Producer {
					defer prodWG.Done()
				}
				for _, op := range s.Ops {
					if op.Kind == OpWaitProd {
						prodWG.Wait()
						continue
					}
					if op.Kind == OpSignal {
						phase.Done()
						continue
					}
					if op.Kind == OpAwait {
						phase.Wait()
						continue
					}
					if op.Kind == OpDrain {
						for {
							e := call(h, ti, s.Name, Op{Kind: OpRem}, q)
							if e.Panic != "" || !e.Ok {
								break
							}
						}
						continue
					}
					e := call(h, ti, s.Name, op, q)
					if e.Panic != "" {
						return // a panicking call ends its goroutine, as it would in a real program
					}
				}
			}})
		}
		return threads, func(ex *rt.Exec) []string { return judge(p, h, ex) }
	}
}

func call(h *History, ti int, name string, op Op, q col.QueueLike[int]) *Event {
	e := &Event{Thread: ti, Script: name, Kind: op.Kind, Arg: op.Arg}
	h.Events = append(h.Events, e)
	e.Inv = rt.Now()
	out := rt.Protect(0, func() {
		switch op.Kind {
		case OpAdd:
			q.AddValue(op.Arg)
		case OpRem:
			e.Val, e.Ok = q.RemoveHead()
		case OpClose:
			q.CloseQueue()
		case OpSize:
			e.Val = q.GetSize()
		case OpEmpty:
			e.Ok = q.IsEmpty()
		case OpArray:
			e.Arr = q.AsArray()
		case OpIter:
			it := q.GetIterator()
			for it.HasNext() {
				e.Arr = append(e.Arr, it.GetNext())
			}
		case OpRemoveAll:
			q.RemoveAll()
		}
	})
	if out.Panicked {
		e.Panic = out.Value
		if e.Panic == "" {
			e.Panic = "panic"
		}
		e.RtErr = out.Runtime
	}
	e.Ret = rt.Now()
	return e
}

// ---- oracle (i): FIFO linearizability with pending operations ----

type linState struct {
	fifo   []int
	closed bool
}

func (s linState) key(done uint32) string {
	return fmt.Sprint(done, s.fifo, s.closed)
}

// Final is a possible final state of the sequential FIFO.
type Final struct {
	Len    int
	Closed bool
}

// Linearize searches for a sequential FIFO history explaining the recorded
// operations; it returns whether one exists and all possible final states.
// Linearize under the strict model (a closed queue stays closed); LinearizeReopen admits that RemoveAll re-opens
// a closed queue (what the implementation does: a known finding, reported once under its own signature).
func Linearize(h *History, delivered map[int]bool) (bool, []Final) {
	return linearize(h, delivered, false)
}

func LinearizeReopen(h *History, delivered map[int]bool) (bool, []Final) {
	return linearize(h, delivered, true)
}

func linearize(h *History, delivered map[int]bool, reopen bool) (bool, []Final) {
	var ops []*Event
	for _, e := range h.Events {
		switch e.Kind {
		case OpAdd, OpRem, OpClose, OpRemoveAll:
			ops = append(ops, e)
		}
	}
	if len(ops) > 30 {
		panic("history too long for the brute-force search")
	}
	finals := map[Final]bool{}
	memo := map[string]bool{}
	const inf = int64(1) << 62
	ret := func(e *Event) int64 {
		if e.Ret == 0 {
			return inf
		}
		return e.Ret
	}
	// mandatory: completed operations, and pending Adds whose value was delivered
	mandatory := func(e *Event) bool {
		if e.Ret != 0 {
			return true
		}
		return e.Kind == OpAdd && delivered[e.Arg]
	}
	optional := func(e *Event) bool { // may take effect although pending
		return e.Ret == 0 && (e.Kind == OpAdd || e.Kind == OpClose || e.Kind == OpRemoveAll)
	}
	var dfs func(done uint32, st linState) bool
	dfs = func(done uint32, st linState) bool {
		k := st.key(done)
		if v, ok := memo[k]; ok {
			return v
		}
		allMandatory := true
		minRet := inf
		for i, e := range ops {
			if done&(1<<uint(i)) == 0 && mandatory(e) {
				allMandatory = false
				if r := ret(e); r < minRet {
					minRet = r
				}
			}
		}
		found := false
		if allMandatory {
			finals[Final{len(st.fifo), st.closed}] = true
			found = true
			// optional pending operations may still be appended: explore them
			// for the set of final states
		}
		for i, e := range ops {
			if done&(1<<uint(i)) != 0 {
				continue
			}
			if !mandatory(e) && !optional(e) {
				continue
			}
			if e.Inv > minRet {
				continue // some unlinearized mandatory operation returned before e was invoked
			}
			ns, ok := apply(st, e)
			if ok && reopen && e.Kind == OpRemoveAll {
				ns.closed = false
			}
			if !ok {
				continue
			}
			if dfs(done|1<<uint(i), ns) {
				found = true
			}
		}
		memo[k] = found
		return found
	}
	ok := dfs(0, linState{})
	var fs []Final
	for f := range finals {
		fs = append(fs, f)
	}
	sort.Slice(fs, func(i, j int) bool {
		if fs[i].Len != fs[j].Len {
			return fs[i].Len < fs[j].Len
		}
		return !fs[i].Closed && fs[j].Closed
	})
	return ok, fs
}

func apply(st linState, e *Event) (linState, bool) {
	switch e.Kind {
	case OpAdd:
		if e.Ret != 0 && e.Panic != "" {
			// a panicking AddValue is explained only by a closed queue, and has no effect
			return st, st.closed
		}
		if st.closed {
			return st, false
		}
		nf := append(append([]int(nil), st.fifo...), e.Arg)
		return linState{nf, st.closed}, true
	case OpRem:
		if e.Panic != "" {
			return st, false // RemoveHead is valid on its own in every state
		}
		if e.Ok {
			if len(st.fifo) == 0 || st.fifo[0] != e.Val {
				return st, false
			}
			return linState{append([]int(nil), st.fifo[1:]...), st.closed}, true
		}
		return st, st.closed && len(st.fifo) == 0
	case OpClose:
		if e.Ret != 0 && e.Panic != "" {
			return st, st.closed // double close
		}
		if st.closed {
			return st, false
		}
		return linState{st.fifo, true}, true
	case OpRemoveAll:
		if e.Panic != "" {
			return st, false
		}
		return linState{nil, st.closed}, true
	}
	return st, false
}

// Verdict is the outcome of judging one execution.
type Verdict struct {
	C04 []Issue
	C05 []Issue
}

type Issue struct {
	Kind   string // signature kind
	Detail string
}

// Judge applies all oracles of C04 and C05 to one execution.
func Judge(p Prog, h *History, ex *rt.Exec) Verdict {
	var v Verdict
	add4 := func(kind, detail string) { v.C04 = append(v.C04, Issue{kind, detail}) }
	add5 := func(kind, detail string) { v.C05 = append(v.C05, Issue{kind, detail}) }
	for _, r := range ex.Races {
		add4(common.RaceSig(r), "data race: "+r.String())
	}
	// panics
	hasRemoveAll := false
	for _, e := range h.Events {
		if e.Kind == OpRemoveAll {
			hasRemoveAll = true
		}
	}
	closeDoneBefore := func(t int64) bool {
		for _, e := range h.Events {
			if e.Kind == OpClose && e.Ret != 0 && e.Ret < t {
				return true
			}
		}
		return false
	}
	closeInvokedBefore := func(t int64) bool {
		for _, e := range h.Events {
			if e.Kind == OpClose && e.Inv < t {
				return true
			}
		}
		return false
	}
	for _, e := range h.Events {
		if e.Panic == "" {
			continue
		}
		if strings.Contains(e.Panic, "fuel exhausted") {
			add4("nontermination in "+string(e.Kind), e.String())
			continue
		}
		switch e.Kind {
		case OpAdd:
			// Adding to a queue whose CloseQueue had already been invoked is
			// the caller's misuse (sequentially it panics too); otherwise the
			// call was valid on its own.
			if !closeInvokedBefore(e.Ret) {
				add4("panic in AddValue: "+common.PanicClass(e.Panic), e.String())
			}
		case OpClose:
			if !closeDoneBefore(e.Ret) && !closeInvokedBefore(e.Inv) {
				add4("panic in CloseQueue: "+common.PanicClass(e.Panic), e.String())
			}
		default:
			add4("panic in "+string(e.Kind)+": "+common.PanicClass(e.Panic), e.String())
		}
	}
	for _, tp := range ex.Panics {
		add4("goroutine died: "+common.PanicClass(tp.Value), fmt.Sprintf("thread %s: %s", tp.Name, tp.Value))
	}
	// (iii) delivered exactly once, never invented
	added := map[int]*Event{}
	for _, e := range h.Events {
		if e.Kind == OpAdd {
			added[e.Arg] = e
		}
	}
	delivered := map[int]bool{}
	removal := map[int]*Event{}
	for _, e := range h.Events {
		if e.Kind == OpRem && e.Ret != 0 && e.Panic == "" && e.Ok {
			if _, ok := added[e.Val]; !ok {
				add4("invented value", e.String())
			}
			if delivered[e.Val] {
				add4("value delivered twice", e.String())
			}
			delivered[e.Val] = true
			removal[e.Val] = e
		}
	}
	// (i) linearizability
	lin, finals := Linearize(h, delivered)
	if !lin {
		if lin2, finals2 := LinearizeReopen(h, delivered); lin2 {
			add4("RemoveAll re-opens a closed queue", "the history is explained only if RemoveAll re-opens the closed queue:\n"+h.String())
			lin, finals = true, finals2
		} else {
			add4("not linearizable as a FIFO: "+diagnose(p, h, delivered), "no sequential FIFO order consistent with real time explains:\n"+h.String())
		}
	}
	// (ii) back-pressure
	for _, e := range h.Events {
		if e.Kind != OpAdd || e.Ret == 0 || e.Panic != "" {
			continue
		}
		// a RemoveAll that overlaps the addition makes the count ambiguous (exempt); one that completed before
		// the addition was invoked restarts the count: only additions invoked after it returned are certainly
		// still unclaimed, and every RemoveHead not finished before it was invoked may still claim one
		var resetAt int64
		removeAllOverlaps := false
		for _, f := range h.Events {
			if f.Kind == OpRemoveAll && f.Inv < e.Ret {
				if f.Ret != 0 && f.Ret < e.Inv {
					if f.Ret > resetAt {
						resetAt = f.Ret
					}
				} else {
					removeAllOverlaps = true
				}
			}
		}
		earlierAdds, earlierRems := 0, 0
		for _, f := range h.Events {
			switch {
			case f.Kind == OpAdd && f != e && f.Ret != 0 && f.Panic == "" && f.Ret < e.Ret && f.Inv > resetAt:
				earlierAdds++
			case f.Kind == OpRem && f.Inv < e.Ret && (f.Ret == 0 || f.Ret > resetAt):
				earlierRems++
			}
		}
		capacity := p.Capacity
		if capacity == 0 {
			capacity = 16
		}
		if !removeAllOverlaps && earlierAdds-earlierRems >= capacity {
			add4("back-pressure: AddValue returned with capacity earlier additions unclaimed",
				fmt.Sprintf("%s returned while %d earlier-completed additions minus %d RemoveHead invocations >= capacity %d\n%s", e, earlierAdds, earlierRems, capacity, h))
		}
	}
	// (iii) observers, literal upper-bound reading
	window := func(o *Event) map[int]bool {
		w := map[int]bool{}
		for val, a := range added {
			if a.Inv > o.Ret {
				continue
			}
			if r, ok := removal[val]; ok && r.Ret < o.Inv {
				continue
			}
			w[val] = true
		}
		return w
	}
	for _, o := range h.Events {
		if o.Ret == 0 || o.Panic != "" {
			continue
		}
		switch o.Kind {
		case OpSize:
			w := window(o)
			if o.Val > effCap(p) {
				add4("GetSize exceeds capacity", o.String())
			}
			if o.Val < 0 || o.Val > len(w) {
				add4("GetSize reports values not in the queue", fmt.Sprintf("%s but only %d values can be present\n%s", o, len(w), h))
			}
		case OpEmpty:
			if !o.Ok && len(window(o)) == 0 {
				add4("IsEmpty=false on a queue that holds nothing", o.String()+"\n"+h.String())
			}
		case OpArray, OpIter:
			w := window(o)
			seen := map[int]bool{}
			for i, val := range o.Arr {
				if !w[val] || seen[val] {
					add4(string(o.Kind)+" reports a value not in the queue", fmt.Sprintf("%s: value %d\n%s", o, val, h))
				}
				seen[val] = true
				for _, later := range o.Arr[i+1:] {
					a, b := added[val], added[later]
					if a != nil && b != nil && b.Ret != 0 && b.Ret < a.Inv {
						add4(string(o.Kind)+" not in FIFO order", fmt.Sprintf("%s: %d before %d\n%s", o, val, later, h))
					}
				}
			}
		}
	}
	// ---- C05: stuck calls ----
	if len(ex.Stuck) > 0 || ex.Deadlock {
		stuckEvents := map[int]*Event{}
		for _, e := range h.Events {
			if e.Ret == 0 {
				stuckEvents[e.Thread] = e
			}
		}
		for _, st := range ex.Stuck {
			e := stuckEvents[st.Thread]
			if st.Library {
				add5("library goroutine stuck in "+st.Op, fmt.Sprintf("%+v", st))
				continue
			}
			if e == nil {
				// parked outside a queue call: the closer waiting for producers
				if st.Op == "Wait" {
					continue // consequence of a parked producer, judged there
				}
				add5("thread stuck outside a queue call in "+st.Op, fmt.Sprintf("%+v", st))
				continue
			}
			if st.Op == "Lock" {
				add5("call blocked on a mutex that is never released ("+string(e.Kind)+")", fmt.Sprintf("%s parked on %s\n%s", e, st.Object, h))
				continue
			}
			if !lin {
				continue // already reported by C04; the stuck-call rule needs a linearization
			}
			legit := false
			switch e.Kind {
			case OpRem:
				for _, f := range finals {
					if f.Len == 0 && !f.Closed {
						legit = true
					}
				}
				if !legit {
					add5("lost wake-up: RemoveHead parked although "+stuckWhy(finals, hasRemoveAll), fmt.Sprintf("%s\nfinal states %v\n%s", e, finals, h))
				}
			case OpAdd:
				// completed, unclaimed additions >= capacity
				for _, f := range finals {
					if f.Len >= effCap(p) {
						legit = true
					}
				}
				if !legit {
					add5("lost wake-up: AddValue parked although the queue is not full"+raSuffix(hasRemoveAll), fmt.Sprintf("%s\nfinal states %v\n%s", e, finals, h))
				}
			default:
				add5("call never returns: "+string(e.Kind), fmt.Sprintf("%s parked in %s\n%s", e, st.Op, h))
			}
		}
	}
	if p.WellFormed {
		if len(ex.Stuck) > 0 {
			add5("well-formed pipeline does not terminate", fmt.Sprintf("stuck: %v\n%s", ex.SortedStuck(), h))
		} else {
			for val := range added {
				if !delivered[val] {
					add5("well-formed pipeline: value never consumed", fmt.Sprintf("value %d\n%s", val, h))
				}
			}
		}
	}
	return v
}

// effCap: capacity 0 requests the default capacity
func effCap(p Prog) int {
	if p.Capacity == 0 {
		return 16
	}
	return p.Capacity
}

func raSuffix(ra bool) string {
	if ra {
		return " (program calls RemoveAll)"
	}
	return ""
}

func stuckWhy(finals []Final, ra bool) string {
	closed, nonEmpty := false, false
	for _, f := range finals {
		if f.Closed {
			closed = true
		}
		if f.Len > 0 {
			nonEmpty = true
		}
	}
	s := "it could proceed"
	switch {
	case closed && !nonEmpty:
		s = "the queue is closed"
	case nonEmpty:
		s = "a value is available"
	}
	return s + raSuffix(ra)
}

// diagnose gives a coarse, stable reason for a non-linearizable history.
func diagnose(p Prog, h *History, delivered map[int]bool) string {
	for _, e := range h.Events {
		if e.Kind == OpRem && e.Ret != 0 && e.Panic == "" && !e.Ok {
			closed := false
			for _, f := range h.Events {
				if f.Kind == OpClose && f.Inv < e.Ret {
					closed = true
				}
			}
			if !closed {
				return "ok=false before close"
			}
		}
	}
	lost := false
	for _, e := range h.Events {
		if e.Kind == OpAdd && e.Ret != 0 && e.Panic == "" && !delivered[e.Arg] {
			lost = true
		}
	}
	ra := false
	for _, e := range h.Events {
		if e.Kind == OpRemoveAll {
			ra = true
		}
	}
	switch {
	case lost && !ra:
		return "completed addition never delivered"
	case ra:
		return "with RemoveAll"
	}
	return "order"
}
