// Package c19: distinct instances are independent across goroutines; the
// generic class accessors are safe on first use.
package c19

import (
	"fmt"
	"reflect"
	"strings"
	"sync"
	"sync/atomic"
	"time"

	age "github.com/craterdog/go-collection-framework/v4/agent"
	cdc "github.com/craterdog/go-collection-framework/v4/cdcn"
	col "github.com/craterdog/go-collection-framework/v4/collection"
	rt "github.com/craterdog/go-collection-framework/v4/verifrt"
	"verif/checks/common"
	"verif/engine"
	"verif/engine/schedx"
)

// a script builds its own instances and returns a textual result
type script struct {
	name string
	run  func(seed int) string
}

func ints(seed int) []int { return []int{3 + seed, 1, 2 + seed, 1} }
func slices(seed int) [][]int {
	return [][]int{{3, seed}, {1}, {2, 2, seed}, {1}}
}

func scriptsFor[V any](tname string, data func(seed int) []V) []script {
	N := common.N
	return []script{
		{"build", func(seed int) string {
			l := col.List[V](N()).MakeFromArray(data(seed))
			l.AppendValue(data(seed)[0])
			s := col.Set[V](N()).MakeFromArray(data(seed))
			return fmt.Sprint(l.AsArray(), s.AsArray())
		}},
		{"mutate", func(seed int) string {
			l := col.List[V](N()).MakeFromArray(data(seed))
			l.InsertValue(1, data(seed)[2])
			l.RemoveValue(-1)
			l.SetValue(1, data(seed)[1])
			l.ReverseValues()
			return fmt.Sprint(l.AsArray())
		}},
		{"search", func(seed int) string {
			l := col.List[V](N()).MakeFromArray(data(seed))
			s := col.Set[V](N()).MakeFromArray(data(seed))
			return fmt.Sprint(l.GetIndex(data(seed)[2]), l.ContainsValue(data(seed)[0]), s.GetIndex(data(seed)[2]), s.ContainsValue(data(1 - seed)[0]))
		}},
		{"sort-collection", func(seed int) string {
			l := col.List[V](N()).MakeFromArray(data(seed))
			l.SortValues()
			return fmt.Sprint(l.AsArray())
		}},
		{"sort-sorter-default-ranker", func(seed int) string {
			a := data(seed)
			age.Sorter[V]().Make().SortValues(a)
			return fmt.Sprint(a)
		}},
		{"compare-rank", func(seed int) string {
			c := age.Collator[V]().Make()
			d := data(seed)
			return fmt.Sprint(c.RankValues(d[0], d[1]), c.CompareValues(d[1], d[3]), c.RankValues(d[2], d[0]))
		}},
		{"String()", func(seed int) string {
			// several calls per thread: all collections of one element type share the notation cached in their class
			l := col.List[V](N()).MakeFromArray(data(seed))
			l2 := col.List[V](N()).MakeFromArray(data(seed)[:2])
			s := col.Set[V](N()).MakeFromArray(data(seed))
			return any(l).(fmt.Stringer).String() + any(l2).(fmt.Stringer).String() + any(s).(fmt.Stringer).String()
		}},
		{"FormatValue-own-notation", func(seed int) string {
			l := col.List[V](N()).MakeFromArray(data(seed))
			return cdc.Notation().Make().FormatValue(l)
		}},
		{"ParseSource-own-notation", func(seed int) string {
			v := cdc.Notation().Make().ParseSource(fmt.Sprintf("[%d, %d](Set)", seed+5, seed))
			return cdc.Notation().Make().FormatValue(v)
		}},
		{"ParseSource-via-class-notation", func(seed int) string {
			// a different collection per thread, but collections of one element type share the notation cached in their class
			l := col.List[V](N()).MakeFromArray(data(seed))
			v := l.GetClass().Notation().ParseSource(fmt.Sprintf("[%d, %d](Set)", seed+5, seed))
			return cdc.Notation().Make().FormatValue(v)
		}},
		{"ParseSource-rejected", func(seed int) string {
			// a parse that fails with unread tokens behind the error (the scanner goroutine of the failed
			// parse is still producing while the caller cleans up)
			src := fmt.Sprintf("[%d %d, %d](List)", seed+5, seed, seed+1)
			msg := ""
			func() {
				defer func() { msg = fmt.Sprint(recover()) }()
				cdc.Notation().Make().ParseSource(src)
			}()
			if i := strings.Index(msg, "\n"); i > 0 {
				msg = msg[:i]
			}
			return msg
		}},
		{"shuffle", func(seed int) string {
			// collections of different sizes (the result is random: only its being a permutation is reported)
			d := data(seed)
			for k := 0; k < seed*3; k++ {
				d = append(d, data(seed)[k%4])
			}
			l := col.List[V](N()).MakeFromArray(d)
			l.ShuffleValues()
			a := append([]V(nil), d...)
			age.Sorter[V]().Make().ShuffleValues(a)
			return fmt.Sprint(l.GetSize(), len(a))
		}},
		{"iterate", func(seed int) string {
			l := col.List[V](N()).MakeFromArray(data(seed))
			it := l.GetIterator()
			var out []V
			for it.HasNext() {
				out = append(out, it.GetNext())
			}
			it.ToEnd()
			for it.HasPrevious() {
				out = append(out, it.GetPrevious())
			}
			return fmt.Sprint(out)
		}},
	}
}

func pairUnit[V any](tname string, data func(seed int) []V, i, j int, three bool) engine.Unit {
	ss := scriptsFor[V](tname, data)
	name := fmt.Sprintf("%s: %s || %s", tname, ss[i].name, ss[j].name)
	if three {
		name += " || " + ss[i].name
	}
	return engine.Unit{Name: name, Run: func(r *engine.Rec) {
		// expected: each script alone (sequentially, outside the scheduler)
		var want [3]string
		rt.Protect(20000000, func() { want[0] = ss[i].run(0) })
		rt.Protect(20000000, func() { want[1] = ss[j].run(1) })
		rt.Protect(20000000, func() { want[2] = ss[i].run(2) })
		prog := func() ([]rt.ThreadSpec, func(*rt.Exec) []string) {
			var got [3]string
			var outs [3]rt.Outcome
			threads := []rt.ThreadSpec{
				{Name: "A:" + ss[i].name, Body: func() { outs[0] = rt.Protect(0, func() { got[0] = ss[i].run(0) }) }},
				{Name: "B:" + ss[j].name, Body: func() { outs[1] = rt.Protect(0, func() { got[1] = ss[j].run(1) }) }},
			}
			n := 2
			if three {
				threads = append(threads, rt.ThreadSpec{Name: "C:" + ss[i].name, Body: func() { outs[2] = rt.Protect(0, func() { got[2] = ss[i].run(2) }) }})
				n = 3
			}
			return threads, func(ex *rt.Exec) []string {
				var what []string
				for _, rc := range ex.Races {
					what = append(what, common.RaceSig(rc)+"\x00"+rc.String())
				}
				if len(ex.Stuck) > 0 {
					what = append(what, "deadlock\x00"+fmt.Sprint(ex.SortedStuck()))
				}
				for _, p := range ex.Panics {
					what = append(what, "goroutine died: "+common.PanicClass(p.Value)+"\x00"+p.Name+": "+p.Value)
				}
				names := []string{ss[i].name, ss[j].name, ss[i].name}
				for k := 0; k < n; k++ {
					if outs[k].Panicked {
						what = append(what, "operation on an own instance panics when run concurrently ("+names[k]+"): "+common.PanicClass(outs[k].Value)+"\x00"+outs[k].Value)
					} else if got[k] != want[k] {
						what = append(what, "result differs from running the operations one after another ("+names[k]+")\x00"+fmt.Sprintf("got %q want %q", got[k], want[k]))
					}
				}
				return what
			}
		}
		o := schedx.Opts{Name: name, Desc: name, SigPrefix: "", CapA: 30000, Bounds: []int{1, 2}, CapB: 30000}
		parse := strings.HasPrefix(ss[i].name, "ParseSource") || strings.HasPrefix(ss[j].name, "ParseSource")
		notation := func(n string) bool {
			return strings.HasPrefix(n, "ParseSource") || strings.HasPrefix(n, "FormatValue") || strings.HasPrefix(n, "String")
		}
		if notation(ss[i].name) && notation(ss[j].name) {
			// scanner, parser and formatter classes keep package-level state: also from a cold start
			o.ColdStart, o.ColdCap = []int{0, 1}, 30000
		}
		if parse {
			// the scanner/parser pair of a parse has many mutually dependent operations of its own (C11 explores
			// those); here the question is interference with the other thread: preemption bounding decides
			o.SkipA, o.Bounds, o.CapB = true, []int{1, 2}, 20000
		}
		if r.Tier == "thorough" {
			o.CapA, o.Bounds, o.CapB = 1000000, []int{1, 2, 3}, 1000000
			if parse {
				o.Bounds = []int{1, 2}
			}
		}
		schedx.Explore(r, prog, o)
	}}
}

// derived: two DISTINCT instances of which one was derived from the other (copy
// constructors, views, results of class functions) are used from two threads.
func derivedUnits() []engine.Unit {
	N := common.N
	type pairMaker struct {
		name string
		mk   func() (a func() string, b func() string)
	}
	deep := func(seed int) [][]int { return [][]int{{3, seed}, {1}, {2, 2, seed}} }
	makers := []pairMaker{
		{"Set and a Set built from it with MakeFromSequence", func() (func() string, func() string) {
			x := col.Set[[]int](N()).MakeFromArray(deep(0))
			y := col.Set[[]int](N()).MakeFromSequence(x)
			return func() string { return fmt.Sprint(x.ContainsValue([]int{1}), x.GetIndex([]int{3, 0})) },
				func() string { y.AddValue([]int{0}); return fmt.Sprint(y.ContainsValue([]int{1}), y.AsArray()) }
		}},
		{"Set and the result of Or with it", func() (func() string, func() string) {
			x := col.Set[[]int](N()).MakeFromArray(deep(0))
			y := col.Set[[]int](N()).Or(x, col.Set[[]int](N()).MakeFromArray(deep(1)))
			return func() string { x.AddValue([]int{9}); return fmt.Sprint(x.AsArray()) },
				func() string {
					y.RemoveValue([]int{1})
					return fmt.Sprint(y.ContainsValue([]int{2, 2, 1}), y.AsArray())
				}
		}},
		{"List and the result of Concatenate with it", func() (func() string, func() string) {
			x := col.List[[]int](N()).MakeFromArray(deep(0))
			y := col.List[[]int](N()).Concatenate(x, x)
			return func() string { x.SetValue(1, []int{7}); x.SortValues(); return fmt.Sprint(x.AsArray()) },
				func() string { y.ReverseValues(); return fmt.Sprint(y.GetIndex([]int{1}), y.AsArray()) }
		}},
		{"List and a view obtained with GetValues", func() (func() string, func() string) {
			x := col.List[[]int](N()).MakeFromArray(deep(0))
			y := x.GetValues(1, -1)
			return func() string { x.SetValue(1, []int{7}); x.ReverseValues(); return fmt.Sprint(x.AsArray()) },
				func() string { return fmt.Sprint(y.AsArray(), y.GetSize()) }
		}},
		{"List and an iterator obtained from it", func() (func() string, func() string) {
			x := col.List[[]int](N()).MakeFromArray(deep(0))
			it := x.GetIterator()
			return func() string { x.SetValue(2, []int{7}); x.SortValues(); return fmt.Sprint(x.AsArray()) },
				func() string {
					var out [][]int
					for it.HasNext() {
						out = append(out, it.GetNext())
					}
					return fmt.Sprint(out)
				}
		}},
		{"Catalog and the result of Merge with it", func() (func() string, func() string) {
			x := col.Catalog[string, []int](N()).Make()
			x.SetValue("a", []int{1})
			x.SetValue("b", []int{2})
			z := col.Catalog[string, []int](N()).Make()
			z.SetValue("c", []int{3})
			y := col.Catalog[string, []int](N()).Merge(x, z)
			return func() string {
					x.SetValue("a", []int{9})
					x.SortValues()
					return fmt.Sprint(x.GetKeys().AsArray(), x.GetValue("a"))
				},
				func() string {
					y.SetValue("a", []int{8})
					y.ReverseValues()
					return fmt.Sprint(y.GetKeys().AsArray(), y.GetValue("a"))
				}
		}},
		{"Stack and a Stack built from it", func() (func() string, func() string) {
			x := col.Stack[[]int](N()).MakeFromArray(deep(0))
			y := col.Stack[[]int](N()).MakeFromSequence(x)
			return func() string { x.AddValue([]int{5}); return fmt.Sprint(x.AsArray()) },
				func() string { y.RemoveTop(); return fmt.Sprint(y.AsArray()) }
		}},
		{"Map and a Map built from it", func() (func() string, func() string) {
			x := col.Map[string, int](N()).MakeFromMap(map[string]int{"a": 1, "b": 2})
			y := col.Map[string, int](N()).MakeFromSequence(x)
			return func() string { x.SetValue("a", 9); return fmt.Sprint(x.GetValue("a"), x.GetSize()) },
				func() string { y.RemoveValue("b"); return fmt.Sprint(y.GetValue("a"), y.GetSize()) }
		}},
		{"two sorters with the default ranker", func() (func() string, func() string) {
			s1, s2 := age.Sorter[[]int]().Make(), age.Sorter[[]int]().Make()
			return func() string { a := deep(0); s1.SortValues(a); return fmt.Sprint(a) },
				func() string { a := deep(1); s2.SortValues(a); return fmt.Sprint(a) }
		}},
	}
	var us []engine.Unit
	for _, mk := range makers {
		mk := mk
		name := "derived: " + mk.name
		us = append(us, engine.Unit{Name: name, Run: func(r *engine.Rec) {
			// expected results: each side alone on a freshly derived pair
			var want [2]string
			{
				a, _ := mk.mk()
				rt.Protect(20000000, func() { want[0] = a() })
				_, b := mk.mk()
				rt.Protect(20000000, func() { want[1] = b() })
			}
			prog := func() ([]rt.ThreadSpec, func(*rt.Exec) []string) {
				a, b := mk.mk()
				var got [2]string
				var outs [2]rt.Outcome
				return []rt.ThreadSpec{
						{Name: "A", Body: func() { outs[0] = rt.Protect(0, func() { got[0] = a() }) }},
						{Name: "B", Body: func() { outs[1] = rt.Protect(0, func() { got[1] = b() }) }},
					}, func(ex *rt.Exec) []string {
						var what []string
						for _, rc := range ex.Races {
							what = append(what, common.RaceSig(rc)+"\x00"+rc.String())
						}
						if len(ex.Stuck) > 0 {
							what = append(what, "deadlock\x00"+fmt.Sprint(ex.SortedStuck()))
						}
						for k := 0; k < 2; k++ {
							if outs[k].Panicked {
								what = append(what, "operation on a derived instance panics when run concurrently: "+common.PanicClass(outs[k].Value)+"\x00"+outs[k].Value)
							} else if got[k] != want[k] {
								what = append(what, "result on a derived instance differs from running the operations one after another\x00"+fmt.Sprintf("got %q want %q", got[k], want[k]))
							}
						}
						return what
					}
			}
			schedx.Explore(r, prog, schedx.Opts{Name: name, Desc: name, SigPrefix: "derived instances [" + mk.name + "]: ", CapA: 50000, Bounds: []int{1, 2}, CapB: 50000})
		}})
	}
	return us
}

var freshType int64

// formatterFirstUse: two threads format values of collection types that no
// formatter has seen before in this process (a new Go array type per
// execution), so that anything cached per type is written during the explored
// execution. The expected text comes from a model, not from the library.
func formatterFirstUse() engine.Unit {
	name := "first-use: FormatValue/String() on never-seen collection types"
	return engine.Unit{Name: name, Run: func(r *engine.Rec) {
		intT := reflect.TypeOf(int(0))
		mint := func() (any, string) {
			k := int(atomic.AddInt64(&freshType, 1))
			a, b := 2+k%29, 2+(k/29)%29
			outer := reflect.New(reflect.ArrayOf(a, reflect.ArrayOf(b, intT))).Elem()
			var sb strings.Builder
			sb.WriteString("[")
			for i := 0; i < a; i++ {
				sb.WriteString("\n    [")
				for j := 0; j < b; j++ {
					outer.Index(i).Index(j).SetInt(int64(i*b + j))
					sb.WriteString(fmt.Sprintf("\n        %d", i*b+j))
				}
				sb.WriteString("\n    ](" + outer.Type().Elem().String() + ")") // a Go array (not a slice) prints its type
			}
			sb.WriteString("\n](" + outer.Type().String() + ")\n")
			return outer.Interface(), sb.String()
		}
		prog := func() ([]rt.ThreadSpec, func(*rt.Exec) []string) {
			v1, w1 := mint()
			v2, w2 := mint()
			var got [2]string
			var outs [2]rt.Outcome
			return []rt.ThreadSpec{
					{Name: "A", Body: func() { outs[0] = rt.Protect(0, func() { got[0] = cdc.Notation().Make().FormatValue(v1) }) }},
					{Name: "B", Body: func() { outs[1] = rt.Protect(0, func() { got[1] = cdc.Formatter().Make().FormatValue(v2) }) }},
				}, func(ex *rt.Exec) []string {
					var what []string
					for _, rc := range ex.Races {
						what = append(what, common.RaceSig(rc)+"\x00"+rc.String())
					}
					for k, w := range []string{w1, w2} {
						if outs[k].Panicked {
							what = append(what, "FormatValue panics on first use of a type\x00"+outs[k].Value)
						} else if got[k] != w {
							what = append(what, "FormatValue text on first use of a type differs from the model\x00"+fmt.Sprintf("got %q want %q", got[k], w))
						}
					}
					return what
				}
		}
		schedx.Explore(r, prog, schedx.Opts{Name: name, Desc: name, SigPrefix: "", CapA: 2000, Bounds: []int{1}, CapB: 500})
	}}
}

// firstUse: 2-3 threads call the generic class accessors on reset registries.
func firstUse(name string, calls []func() any, sameClass [][2]int) engine.Unit {
	return engine.Unit{Name: "first-use: " + name, Run: func(r *engine.Rec) {
		prog := func() ([]rt.ThreadSpec, func(*rt.Exec) []string) {
			// every execution is a first use: the registries are emptied, and so is whatever else the collection
			// and agent packages keep at package level (a registry need not be a map)
			rt.ResetRegistries()
			rt.ResetGlobalsOf("collection", "agent")
			got := make([]any, len(calls))
			outs := make([]rt.Outcome, len(calls))
			var threads []rt.ThreadSpec
			var quiet rt.WaitGroup
			quiet.Add(len(calls))
			for k := range calls {
				k := k
				threads = append(threads, rt.ThreadSpec{Name: fmt.Sprintf("T%d", k), Body: func() {
					defer quiet.Done()
					outs[k] = rt.Protect(0, func() { got[k] = calls[k]() })
				}})
			}
			// when all is quiet every call is made once more, still under the scheduler: a registry lock that a first
			// use left held parks this thread for good, which the scheduler reports
			again := make([]any, len(calls))
			againOuts := make([]rt.Outcome, len(calls))
			threads = append(threads, rt.ThreadSpec{Name: "afterwards", Body: func() {
				quiet.Wait()
				for k := range calls {
					againOuts[k] = rt.Protect(0, func() { again[k] = calls[k]() })
				}
			}})
			return threads, func(ex *rt.Exec) []string {
				var what []string
				for _, rc := range ex.Races {
					what = append(what, common.RaceSig(rc)+"\x00"+rc.String())
				}
				if len(ex.Stuck) > 0 {
					what = append(what, "deadlock on first use\x00"+fmt.Sprint(ex.SortedStuck()))
				}
				for k, o := range outs {
					if o.Panicked {
						what = append(what, "class accessor panics on first use\x00"+fmt.Sprint(k, o.Value))
					}
				}
				for _, p := range sameClass {
					if got[p[0]] != got[p[1]] {
						what = append(what, "two calls of one class accessor return different classes for one type\x00"+fmt.Sprintf("%T %p vs %p", got[p[0]], got[p[0]], got[p[1]]))
					}
				}
				// "always return the one class for that type": every accessor, called once more when all is quiet, still
				// returns the class it handed out during the concurrent first uses (a registration must not get lost)
				if len(what) == 0 && len(ex.Stuck) == 0 {
					for k := range calls {
						if againOuts[k].Panicked {
							what = append(what, "class accessor panics when called again after the first uses\x00"+fmt.Sprint(k, againOuts[k].Value))
						} else if !outs[k].Panicked && again[k] != got[k] {
							what = append(what, "a class handed out during concurrent first uses is not the class the accessor returns afterwards\x00"+fmt.Sprintf("call %d: %T %p, afterwards %p", k, got[k], got[k], again[k]))
						}
					}
				}
				return what
			}
		}
		o := schedx.Opts{Name: "first-use: " + name, Desc: name, NoElide: true, CapA: 200000, Bounds: []int{2}, CapB: 200000}
		schedx.Explore(r, prog, o)
		rt.ResetRegistries()
		rt.ResetGlobalsOf("collection", "agent")
	}}
}

// classOf asks a collection for its class (every kind has GetClass; the interface a result is handed out
// under need not list it)
func classOf(v any) any {
	m := reflect.ValueOf(v).MethodByName("GetClass")
	if !m.IsValid() {
		return nil
	}
	return m.Call(nil)[0].Interface()
}

func mapOf() col.MapLike[string, int] {
	m := col.Map[string, int](common.N()).Make()
	m.SetValue("a", 1)
	m.SetValue("b", 2)
	return m
}

func units(tier string) []engine.Unit {
	var us []engine.Unit
	n := len(scriptsFor[int]("int", ints))
	var names []string
	for _, sc := range scriptsFor[int]("int", ints) {
		names = append(names, sc.name)
	}
	for i := 0; i < n; i++ {
		for j := i; j < n; j++ {
			us = append(us, pairUnit[int]("int", ints, i, j, false))
			if names[i] == "ParseSource-rejected" || names[j] == "ParseSource-rejected" {
				continue // the element type plays no part in a parse: once is enough
			}
			us = append(us, pairUnit[[]int]("[]int", slices, i, j, false))
		}
	}
	if tier == "thorough" {
		for i := 0; i < n; i++ {
			us = append(us, pairUnit[[]int]("[]int", slices, i, (i+3)%n, true))
		}
	}
	us = append(us, derivedUnits()...)
	us = append(us, formatterFirstUse())
	us = append(us, longSorts()...)
	us = append(us, engine.RacePassUnit("C19"))
	N := common.N
	us = append(us,
		firstUse("List[int] twice", []func() any{func() any { return col.List[int](N()) }, func() any { return col.List[int](N()) }}, [][2]int{{0, 1}}),
		firstUse("List[int], List[string], List[int]", []func() any{func() any { return col.List[int](N()) }, func() any { return col.List[string](N()) }, func() any { return col.List[int](N()) }}, [][2]int{{0, 2}}),
		firstUse("Set[int] twice (registers Set, List, Array, Collator)", []func() any{func() any { return col.Set[int](N()).Make().GetClass() }, func() any { return col.Set[int](N()).Make().GetClass() }}, [][2]int{{0, 1}}),
		firstUse("Collator[int] twice", []func() any{func() any { return age.Collator[int]() }, func() any { return age.Collator[int]() }}, [][2]int{{0, 1}}),
		firstUse("Sorter[int] twice (registers Collator inside)", []func() any{func() any { return age.Sorter[int]() }, func() any { return age.Sorter[int]() }}, [][2]int{{0, 1}}),
		firstUse("Sorter[int] and Collator[int]", []func() any{func() any { return age.Sorter[int]() }, func() any { return age.Collator[int]() }, func() any { return age.Collator[int]() }}, [][2]int{{1, 2}}),
		firstUse("Queue[int], Stack[int], Queue[int]", []func() any{func() any { return col.Queue[int](N()) }, func() any { return col.Stack[int](N()) }, func() any { return col.Queue[int](N()) }}, [][2]int{{0, 2}}),
		firstUse("Catalog, Map, Association of one type pair", []func() any{func() any { return col.Catalog[string, int](N()) }, func() any { return col.Map[string, int](N()) }, func() any { return col.Catalog[string, int](N()) }}, [][2]int{{0, 2}}),
		firstUse("Array[int] and Array[string] (different type parameters of one class accessor)", []func() any{func() any { return col.Array[int](N()) }, func() any { return col.Array[string](N()) }}, nil),
		firstUse("Set[int] and Set[string]", []func() any{func() any { return col.Set[int](N()) }, func() any { return col.Set[string](N()) }}, nil),
		firstUse("Collator[int], Collator[string], Sorter[int]", []func() any{func() any { return age.Collator[int]() }, func() any { return age.Collator[string]() }, func() any { return age.Sorter[int]() }}, nil),
		firstUse("Catalog[string,int] and Catalog[int,string]", []func() any{func() any { return col.Catalog[string, int](N()) }, func() any { return col.Catalog[int, string](N()) }}, nil),
		firstUse("Iterator[int] twice", []func() any{func() any { return age.Iterator[int]() }, func() any { return age.Iterator[int]() }}, [][2]int{{0, 1}}),
		firstUse("Array[string] reached from the keys of a Map before anybody asked for it, and Array[string]", []func() any{
			func() any { return classOf(mapOf().GetKeys()) }, func() any { return col.Array[string](N()) }}, [][2]int{{0, 1}}),
		firstUse("String() of the values of a Map (an Array nobody asked for yet), and List[int]", []func() any{
			func() any { return fmt.Sprint(mapOf().GetValues(col.List[string](N()).MakeFromArray([]string{"a"}))) }, func() any { return col.List[int](N()) }}, nil),
		firstUse("class of what Map.RemoveValues returns, twice", []func() any{
			func() any {
				return classOf(mapOf().RemoveValues(col.List[string](N()).MakeFromArray([]string{"a"})))
			}, func() any {
				return classOf(mapOf().RemoveValues(col.List[string](N()).MakeFromArray([]string{"a"})))
			}}, [][2]int{{0, 1}}),
		firstUse("class of a Catalog's keys and of a Set's array view", []func() any{
			func() any { c := col.Catalog[string, int](N()).Make(); c.SetValue("a", 1); return classOf(c.GetKeys()) },
			func() any { return classOf(col.Set[string](N()).MakeFromArray([]string{"b"})) }}, nil),
		firstUse("Array[int] via List.Make twice", []func() any{func() any { return col.List[int](N()).Make().GetClass() }, func() any { return col.List[int](N()).Make().GetClass() }}, [][2]int{{0, 1}}),
	)
	// the programs about first uses, derived instances and long sorts are few and short on the current tree: they go
	// first, so that a change of the library that makes every script pair slower cannot use up the budget before them
	var head, tail []engine.Unit
	for _, u := range us {
		if strings.HasPrefix(u.Name, "first-use") || strings.HasPrefix(u.Name, "long sort") || strings.HasPrefix(u.Name, "derived") {
			head = append(head, u)
		} else {
			tail = append(tail, u)
		}
	}
	us = append(head, tail...)
	return us
}

func init() {
	engine.RegisterRacePrograms("C19", racePrograms)
	engine.Register(&engine.Check{
		ID:        "C19",
		Technique: "stateless model checking under the cooperative scheduler with vector-clock race detection on every execution: all pairs of ten operation families on disjoint instances (primitive and composite element types) in two threads (three in the thorough tier), all interleavings by sleep sets where that completes (operations on different objects commute) else preemption bounding; first-use programs on reset class registries with every registry lock a scheduling point",
		Rule:      "case = one schedule of one pair of scripts; every thread's result must equal the script run alone; a race on any struct field, package variable or map is a violation",
		Assume:    []string{"2 goroutines (3 thorough) instead of 2..16", "memory not covered by the source-level access log (whole-slice operations, standard-library internals) is race-checked only by the auxiliary free-running pass under Go's race detector (three goroutines per script pair; sampling: it adds reports, its silence decides nothing)"},
		Budget: func(tier string) time.Duration {
			if tier == "thorough" {
				return 25 * time.Minute
			}
			return 5 * time.Minute
		},
		Units: units,
	})
}

// racePrograms: the same script bodies, run free in three goroutines behind a
// start barrier, for the auxiliary pass under Go's race detector.
func racePrograms() []engine.RaceProgram {
	var ps []engine.RaceProgram
	add := func(tname string, ss []script) {
		for i := range ss {
			for j := i; j < len(ss); j++ {
				i, j := i, j
				ps = append(ps, engine.RaceProgram{Name: fmt.Sprintf("%s: %s || %s || %s", tname, ss[i].name, ss[j].name, ss[i].name), Run: func() {
					var start, done sync.WaitGroup
					start.Add(1)
					for k, s := range []script{ss[i], ss[j], ss[i]} {
						k, s := k, s
						done.Add(1)
						go func() {
							defer done.Done()
							defer func() { recover() }()
							start.Wait()
							s.run(k)
						}()
					}
					start.Done()
					done.Wait()
				}})
			}
		}
	}
	add("int", scriptsFor[int]("int", ints))
	add("[]int", scriptsFor[[]int]("[]int", slices))
	return ps
}
