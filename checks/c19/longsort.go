package c19

import (
	"fmt"

	age "github.com/craterdog/go-collection-framework/v4/agent"
	col "github.com/craterdog/go-collection-framework/v4/collection"
	rt "github.com/craterdog/go-collection-framework/v4/verifrt"
	"verif/checks/common"
	"verif/engine"
	"verif/engine/schedx"
)

// longSorts: "sorting with the default ranker ... with no data race" for
// arrays long enough to cross any size threshold above which a sort might
// divide its work between goroutines: whatever helpers a sort starts share the
// one ranker of the sorter (for the default sorter a collator with a depth
// counter). One caller thread; the vector-clock detector sees every access of
// the helpers. Composite elements make the collator count its depth.
func longSorts() []engine.Unit {
	var us []engine.Unit
	for _, n := range []int{70, 300, 1100} {
		for _, via := range []string{"Sorter.Make().SortValues", "List.SortValues", "two sorters in two goroutines"} {
			n, via := n, via
			name := fmt.Sprintf("long sort: %d values of type []int, %s", n, via)
			us = append(us, engine.Unit{Name: name, Run: func(r *engine.Rec) {
				mk := func(salt int) [][]int {
					a := make([][]int, n)
					for i := range a {
						a[i] = []int{(i*7919 + salt) % (n + 3), i % 3}
					}
					return a
				}
				sorted := func(a [][]int) bool {
					for i := 0; i+1 < len(a); i++ {
						if a[i][0] > a[i+1][0] || (a[i][0] == a[i+1][0] && a[i][1] > a[i+1][1]) {
							return false
						}
					}
					return true
				}
				prog := func() ([]rt.ThreadSpec, func(*rt.Exec) []string) {
					arrs := [][][]int{mk(13), mk(29)}
					outs := make([]rt.Outcome, 2)
					ok := []bool{true, true}
					live := 0
					body := func(k int) func() {
						return func() {
							outs[k] = rt.Protect(0, func() {
								if via == "List.SortValues" {
									l := col.List[[]int](common.N()).MakeFromArray(arrs[k])
									l.SortValues()
									arrs[k] = l.AsArray()
								} else {
									age.Sorter[[]int]().Make().SortValues(arrs[k])
								}
							})
							ok[k] = sorted(arrs[k])
							if k == 0 {
								live = rt.LiveLibraryThreads()
							}
						}
					}
					threads := []rt.ThreadSpec{{Name: "A", Body: body(0)}}
					if via == "two sorters in two goroutines" {
						threads = append(threads, rt.ThreadSpec{Name: "B", Body: body(1)})
					}
					return threads, func(ex *rt.Exec) []string {
						var what []string
						for _, rc := range ex.Races {
							what = append(what, common.RaceSig(rc)+"\x00"+rc.String())
						}
						for k := range threads {
							switch {
							case outs[k].Panicked:
								what = append(what, "a long sort panics\x00"+outs[k].Value)
							case !ok[k]:
								what = append(what, "a long sort returns an array that is not ascending\x00"+name)
							}
						}
						if len(ex.Stuck) > 0 {
							what = append(what, "a long sort never returns\x00"+fmt.Sprint(ex.SortedStuck()))
						}
						if len(threads) == 1 && live > 0 {
							what = append(what, "a goroutine started by SortValues is still running when it has returned\x00"+fmt.Sprint(live))
						}
						return what
					}
				}
				o := schedx.Opts{Name: name, Desc: name, SigPrefix: "long sort: ", SkipA: true, Bounds: []int{0, 1}, CapB: 40}
				if r.Tier == "thorough" {
					o.CapB = 400
				}
				schedx.Explore(r, prog, o)
			}})
		}
	}
	return us
}
