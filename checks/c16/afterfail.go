package c16

import (
	"fmt"
	"reflect"

	col "github.com/craterdog/go-collection-framework/v4/collection"
	rt "github.com/craterdog/go-collection-framework/v4/verifrt"
	"verif/checks/common"
	"verif/engine"
)

// A call that fails (an operand that is nil: the library panics, the caller
// recovers) followed by valid calls: the valid calls are as pure as ever.
// Whatever a function gathered before it failed must not show in a later
// result. Whether the failing call panics is not judged here, only what comes after.

type afterFailCase struct {
	Fn    string `json:"function"`
	Fail  string `json:"failing_call"`
	A     []int  `json:"a"`
	B     []int  `json:"b"`
	Twice bool   `json:"failing_call_twice,omitempty"`
}

func afterFail(r *engine.Rec) {
	L := col.List[int](common.N())
	C := col.Catalog[string, int](common.N())
	var nilList col.ListLike[int]
	var nilCat col.CatalogLike[string, int]
	var nilKeys col.Sequential[string]
	eq := func(a, b []int) bool { return (len(a) == 0 && len(b) == 0) || reflect.DeepEqual(a, b) }
	full := func() col.ListLike[int] { return L.MakeFromArray([]int{41, 42, 43}) }
	fullCat := func() col.CatalogLike[string, int] { return mkCat([]int{0, 1, 2, 3}, 50) }
	keys := func(ks ...int) col.Sequential[string] {
		var names []string
		for _, k := range ks {
			names = append(names, keyNames[k])
		}
		return col.List[string](common.N()).MakeFromArray(names)
	}
	fails := map[string]func(){
		"Concatenate(full, nil)":  func() { L.Concatenate(full(), nilList) },
		"Concatenate(nil, full)":  func() { L.Concatenate(nilList, full()) },
		"Concatenate(nil, nil)":   func() { L.Concatenate(nilList, nilList) },
		"Merge(full, nil)":        func() { C.Merge(fullCat(), nilCat) },
		"Merge(nil, full)":        func() { C.Merge(nilCat, fullCat()) },
		"Extract(full, nil)":      func() { C.Extract(fullCat(), nilKeys) },
		"Extract(nil, keys)":      func() { C.Extract(nilCat, keys(0, 1)) },
		"Extract(full, keys+nil)": func() { C.Extract(fullCat(), keys(0, 1)); C.Extract(fullCat(), nilKeys) },
		"Merge(full, full) + nil": func() { C.Merge(fullCat(), fullCat()); C.Merge(fullCat(), nilCat) },
		"Concatenate then nil":    func() { L.Concatenate(full(), full()); L.Concatenate(full(), nilList) },
	}
	lists := [][]int{{}, {1}, {1, 2}, {3, 1, 2}}
	keysets := [][]int{{}, {0}, {1, 2}, {0, 1, 2}}
	for fname, fail := range fails {
		for _, twice := range []bool{false, true} {
			for _, a := range lists {
				for _, b := range lists {
					c := afterFailCase{Fn: "Concatenate", Fail: fname, A: a, B: b, Twice: twice}
					if !r.Wanted(c) {
						continue
					}
					rt.Protect(1000000, fail)
					if twice {
						rt.Protect(1000000, fail)
					}
					var got1, got2 []int
					out := rt.Protect(1000000, func() {
						got1 = L.Concatenate(L.MakeFromArray(a), L.MakeFromArray(b)).AsArray()
						got2 = L.Concatenate(L.MakeFromArray(b), L.MakeFromArray(a)).AsArray()
					})
					r.Evals += 2
					switch {
					case out.Panicked || out.Fuel:
						r.Violation("a valid Concatenate fails after an earlier call failed", fmt.Sprintf("%+v: %s", c, out.Value), c)
					case !eq(got1, append(append([]int{}, a...), b...)) || !eq(got2, append(append([]int{}, b...), a...)):
						r.Violation("Concatenate(a,b) after an earlier call failed is not a followed by b", fmt.Sprintf("%+v: got %v and %v", c, got1, got2), c)
					}
				}
			}
			for _, ka := range keysets {
				for _, kb := range keysets {
					c := afterFailCase{Fn: "Merge/Extract", Fail: fname, A: ka, B: kb, Twice: twice}
					if !r.Wanted(c) {
						continue
					}
					rt.Protect(1000000, fail)
					if twice {
						rt.Protect(1000000, fail)
					}
					var merged, extracted []kv
					out := rt.Protect(1000000, func() {
						merged = contents(C.Merge(mkCat(ka, 10), mkCat(kb, 20)))
						extracted = contents(C.Extract(mkCat(ka, 10), keys(kb...)))
					})
					r.Evals += 2
					// laws: Merge = a's associations in order, b's values winning, then b's new keys; Extract = requested keys present in a, in request order
					wantM := contents(mkCat(ka, 10))
					for _, p := range contents(mkCat(kb, 20)) {
						found := false
						for i := range wantM {
							if wantM[i].K == p.K {
								wantM[i].V, found = p.V, true
							}
						}
						if !found {
							wantM = append(wantM, p)
						}
					}
					wantE := []kv{}
					for _, k := range kb {
						for _, p := range contents(mkCat(ka, 10)) {
							if p.K == keyNames[k] {
								wantE = append(wantE, p)
							}
						}
					}
					switch {
					case out.Panicked || out.Fuel:
						r.Violation("a valid Merge or Extract fails after an earlier call failed", fmt.Sprintf("%+v: %s", c, out.Value), c)
					case !reflect.DeepEqual(merged, wantM):
						r.Violation("Merge after an earlier call failed does not follow its law", fmt.Sprintf("%+v: got %v want %v", c, merged, wantM), c)
					case !reflect.DeepEqual(extracted, wantE):
						r.Violation("Extract after an earlier call failed does not follow its law", fmt.Sprintf("%+v: got %v want %v", c, extracted, wantE), c)
					}
				}
			}
		}
	}
	r.Transitions += r.Evals
	r.States += r.Evals
	r.Distinct += r.Evals
	r.Sample(afterFailCase{Fn: "Concatenate", Fail: "Concatenate(full, nil)", A: []int{1}, B: []int{1, 2}})
}
