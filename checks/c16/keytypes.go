package c16

import (
	"fmt"
	"math"

	col "github.com/craterdog/go-collection-framework/v4/collection"
	rt "github.com/craterdog/go-collection-framework/v4/verifrt"
	"verif/checks/common"
	"verif/engine"
)

// The laws are stated in terms of "the keys of c": a Catalog identifies keys
// the way a Go map does (==), which differs from structural equality for
// pointers (two pointers to equal values are two keys), for interface keys
// holding different integer kinds (int(1), int64(1) and int8(1) are three
// keys) and for signed zeros (+0 and -0 are ONE key). These universes make the
// two notions disagree; the expected results are computed with a Go map.

type ktCase struct {
	Type string `json:"key_type"`
	A    []int  `json:"a_keys"`
	B    []int  `json:"b_keys_or_requested"`
	Fn   string `json:"function"`
}

type gkv[K comparable] struct {
	K K
	V int
}

func gcontents[K comparable](c col.CatalogLike[K, int]) []gkv[K] {
	out := []gkv[K]{}
	for _, a := range c.AsArray() {
		out = append(out, gkv[K]{a.GetKey(), a.GetValue()})
	}
	return out
}

func sameKV[K comparable](a, b []gkv[K]) bool {
	if len(a) != len(b) {
		return false
	}
	for i := range a {
		// keys by ==, except that the sign of a float zero is compared too where it matters to nobody: == is the catalog's notion
		if a[i].K != b[i].K || a[i].V != b[i].V {
			return false
		}
	}
	return true
}

func keyTypes[K comparable](r *engine.Rec, tname string, universe []K, show func(K) string) {
	C := col.Catalog[K, int](common.N())
	mk := func(keys []int, base int) col.CatalogLike[K, int] {
		c := C.Make()
		for _, k := range keys {
			c.SetValue(universe[k], base+k)
		}
		return c
	}
	str := func(ps []gkv[K]) string {
		s := "["
		for _, p := range ps {
			s += fmt.Sprintf("%s:%d ", show(p.K), p.V)
		}
		return s + "]"
	}
	n := len(universe)
	subs := [][]int{}
	for _, s := range orderedSubsets(n) {
		if len(s) <= 3 {
			subs = append(subs, s)
		}
	}
	// a catalog built by SetValue in this order holds what a Go map + first-insertion order hold
	model := func(keys []int, base int) []gkv[K] {
		var out []gkv[K]
		pos := map[K]int{}
		for _, k := range keys {
			if i, ok := pos[universe[k]]; ok {
				out[i].V = base + k
				continue
			}
			pos[universe[k]] = len(out)
			out = append(out, gkv[K]{universe[k], base + k})
		}
		return out
	}
	for _, a := range subs {
		A0 := mk(a, 10)
		if !sameKV(gcontents(A0), model(a, 10)) {
			// the catalog itself is C03's business; without an agreed starting point the laws below mean nothing
			continue
		}
		// Merge
		for _, b := range subs {
			c := ktCase{tname, a, b, "Merge"}
			A, B := mk(a, 10), mk(b, 20)
			ca, cb := model(a, 10), model(b, 20)
			va, vb := common.View(A), common.View(B)
			var res col.CatalogLike[K, int]
			out := rt.Protect(4000000, func() { res = C.Merge(A, B) })
			r.Evals++
			want := []gkv[K]{}
			bval := map[K]int{}
			for _, p := range cb {
				bval[p.K] = p.V
			}
			inA := map[K]bool{}
			for _, p := range ca {
				inA[p.K] = true
				if v, ok := bval[p.K]; ok {
					want = append(want, gkv[K]{p.K, v})
				} else {
					want = append(want, p)
				}
			}
			for _, p := range cb {
				if !inA[p.K] {
					want = append(want, p)
				}
			}
			switch {
			case out.Panicked:
				r.Violation("Merge fails ("+tname+" keys)", out.Value, c)
			case !sameKV(gcontents(res), want):
				r.Violation("Merge law violated ("+tname+" keys)", fmt.Sprintf("A=%s B=%s got %s want %s", str(ca), str(cb), str(gcontents(res)), str(want)), c)
			case common.View(A) != va || common.View(B) != vb:
				r.Violation("Merge changes an operand ("+tname+" keys)", fmt.Sprintf("A=%s B=%s", str(ca), str(cb)), c)
			}
		}
		// Extract: every key sequence up to length 3 over the universe
		var seqs [][]int
		var rec func(cur []int)
		rec = func(cur []int) {
			seqs = append(seqs, append([]int(nil), cur...))
			if len(cur) == 3 {
				return
			}
			for k := 0; k < n; k++ {
				rec(append(cur, k))
			}
		}
		rec(nil)
		for _, ks := range seqs {
			c := ktCase{tname, a, ks, "Extract"}
			cat := mk(a, 10)
			cc := model(a, 10)
			vc := common.View(cat)
			var req []K
			for _, k := range ks {
				req = append(req, universe[k])
			}
			keys := col.List[K](common.N()).MakeFromArray(req)
			var res col.CatalogLike[K, int]
			out := rt.Protect(4000000, func() { res = C.Extract(cat, keys) })
			r.Evals++
			have := map[K]int{}
			for _, p := range cc {
				have[p.K] = p.V
			}
			want := []gkv[K]{}
			done := map[K]bool{}
			absent := false
			for _, k := range req {
				v, ok := have[k]
				if !ok {
					absent = true
					continue
				}
				if !done[k] {
					done[k] = true
					want = append(want, gkv[K]{k, v})
				}
			}
			sig := ""
			if absent {
				sig = " (a requested key is absent from the catalog)"
			}
			switch {
			case out.Panicked:
				r.Violation("Extract fails ("+tname+" keys)"+sig, out.Value, c)
			case !sameKV(gcontents(res), want):
				var rs string
				for _, k := range req {
					rs += show(k) + " "
				}
				r.Violation("Extract law violated ("+tname+" keys)"+sig, fmt.Sprintf("catalog=%s requested=[%s] got %s want %s", str(cc), rs, str(gcontents(res)), str(want)), c)
			case common.View(cat) != vc:
				r.Violation("Extract changes an operand ("+tname+" keys)", str(cc), c)
			}
		}
	}
	r.Transitions += r.Evals
	r.States += int64(len(subs))
	r.Distinct += int64(len(subs))
}

func keyTypeUnit(r *engine.Rec) {
	p0, p1, p2 := new(int), new(int), new(int)
	*p0, *p1, *p2 = 5, 5, 6
	keyTypes(r, "*int", []*int{p0, p1, p2, nil}, func(p *int) string {
		switch p {
		case p0:
			return "p0->5"
		case p1:
			return "p1->5"
		case p2:
			return "p2->6"
		}
		return "nil"
	})
	keyTypes(r, "any", []any{int(1), int64(1), "1", int8(1)}, func(k any) string { return fmt.Sprintf("%T(%v)", k, k) })
	keyTypes(r, "float64", []float64{0, math.Copysign(0, -1), 1, math.Inf(1)}, func(k float64) string { return fmt.Sprintf("%v", k) })
	type pair struct{ X, Y int }
	keyTypes(r, "struct", []pair{{1, 2}, {2, 1}, {1, 1}, {0, 0}}, func(k pair) string { return fmt.Sprintf("%v", k) })
	r.Sample(ktCase{"*int", []int{0}, []int{1}, "Extract"})
}
