package c16

import (
	"fmt"
	"math"

	col "github.com/craterdog/go-collection-framework/v4/collection"
	rt "github.com/craterdog/go-collection-framework/v4/verifrt"
	"verif/checks/common"
	"verif/engine"
)

// The laws of Merge and Extract speak of keys and of "b's value": which value
// ends up under a key is a matter of identity, not of content. Values that are
// structurally equal but distinct (two pointers to equal ints, two lists with
// equal items, +0.0 and -0.0) tell whose value it is; keys that are not equal
// to themselves (not-a-number) are never shared and never found, but their
// associations are carried over with their values.

type valCase struct {
	Fn    string `json:"function"`
	Kind  string `json:"values"`
	AKeys []int  `json:"a_keys"`
	BKeys []int  `json:"b_keys"`
}

func valueIdentity(r *engine.Rec) {
	N := common.N
	keysets := [][]int{{}, {0}, {0, 1}, {1, 0}, {1, 2}, {0, 1, 2}, {2, 1, 0}}
	cases := 0
	// --- pointers to equal ints, and lists with equal items
	type obj = any
	kinds := map[string]func() obj{
		"pointers to equal ints":                   func() obj { p := new(int); *p = 5; return p },
		"lists with equal items":                   func() obj { return col.List[int](N()).MakeFromArray([]int{1, 2}) },
		"Go slices with equal items (held in any)": func() obj { return &[]int{1, 2} },
	}
	C := col.Catalog[string, any](N())
	for kname, mk := range kinds {
		for _, ka := range keysets {
			for _, kb := range keysets {
				c := valCase{"Merge", kname, ka, kb}
				if !r.Wanted(c) {
					continue
				}
				cases++
				owner := map[any]string{}
				a, b := C.Make(), C.Make()
				for _, k := range ka {
					v := mk()
					owner[v] = "a"
					a.SetValue(keyNames[k], v)
				}
				for _, k := range kb {
					v := mk()
					owner[v] = "b"
					b.SetValue(keyNames[k], v)
				}
				var res col.CatalogLike[string, any]
				o := rt.Protect(1000000, func() { res = C.Merge(a, b) })
				r.Evals++
				if o.Panicked || o.Fuel {
					r.Violation("Merge fails on catalogs whose values are "+kname, fmt.Sprintf("%+v: %s", c, o.Value), c)
					continue
				}
				// law: a's keys in order (b's value where shared), then b's new keys
				var want []string
				inB := map[int]bool{}
				for _, k := range kb {
					inB[k] = true
				}
				inA := map[int]bool{}
				for _, k := range ka {
					inA[k] = true
					if inB[k] {
						want = append(want, keyNames[k]+":b")
					} else {
						want = append(want, keyNames[k]+":a")
					}
				}
				for _, k := range kb {
					if !inA[k] {
						want = append(want, keyNames[k]+":b")
					}
				}
				var got []string
				for _, as := range res.AsArray() {
					got = append(got, as.GetKey()+":"+owner[as.GetValue()])
				}
				if fmt.Sprint(got) != fmt.Sprint(want) {
					r.Violation("Merge: the value under a key is not the operand's own value that the law names (b's for shared keys)", fmt.Sprintf("%+v: got %v want %v", c, got, want), c)
					continue
				}
				// Extract hands out the catalog's own values
				var ex col.CatalogLike[string, any]
				o = rt.Protect(1000000, func() {
					ex = C.Extract(res, col.List[string](N()).MakeFromArray([]string{"c", "a", "x", "b"}))
				})
				r.Evals++
				if o.Panicked || o.Fuel {
					r.Violation("Extract fails on catalogs whose values are "+kname, fmt.Sprintf("%+v: %s", c, o.Value), c)
					continue
				}
				for _, as := range ex.AsArray() {
					if as.GetValue() != res.GetValue(as.GetKey()) {
						r.Violation("Extract: the value under a key is not the catalog's own value", fmt.Sprintf("%+v: key %s", c, as.GetKey()), c)
					}
				}
			}
		}
	}
	// --- +0.0 against -0.0: equal for == and for the collator, yet b's value is b's
	F := col.Catalog[string, float64](N())
	for _, ka := range keysets {
		for _, kb := range keysets {
			c := valCase{"Merge", "+0.0 in a, -0.0 in b", ka, kb}
			if !r.Wanted(c) {
				continue
			}
			cases++
			a, b := F.Make(), F.Make()
			for _, k := range ka {
				a.SetValue(keyNames[k], 0.0)
			}
			for _, k := range kb {
				b.SetValue(keyNames[k], math.Copysign(0, -1))
			}
			var res col.CatalogLike[string, float64]
			o := rt.Protect(1000000, func() { res = F.Merge(a, b) })
			r.Evals++
			if o.Panicked || o.Fuel {
				r.Violation("Merge fails on catalogs of floats", fmt.Sprintf("%+v: %s", c, o.Value), c)
				continue
			}
			inB := map[string]bool{}
			for _, k := range kb {
				inB[keyNames[k]] = true
			}
			for _, as := range res.AsArray() {
				if math.Signbit(as.GetValue()) != inB[as.GetKey()] {
					r.Violation("Merge: the value under a key is not the operand's own value that the law names (b's for shared keys)", fmt.Sprintf("%+v: key %s has %v", c, as.GetKey(), as.GetValue()), c)
					break
				}
			}
		}
	}
	// --- keys that are not equal to themselves
	K := col.Catalog[float64, int](N())
	pairs := func(cat col.CatalogLike[float64, int]) []string {
		out := []string{}
		for _, as := range cat.AsArray() {
			out = append(out, fmt.Sprint(as.GetKey(), "=", as.GetValue()))
		}
		return out
	}
	for na := 0; na <= 2; na++ {
		for nb := 0; nb <= 2; nb++ {
			c := valCase{"Merge/Extract", fmt.Sprintf("float keys, %d not-a-number keys in a, %d in b", na, nb), nil, nil}
			if !r.Wanted(c) {
				continue
			}
			cases++
			a, b := K.Make(), K.Make()
			want := []string{"1=11"}
			a.SetValue(1, 11)
			for i := 1; i <= na; i++ {
				a.SetValue(math.NaN(), 30+i)
				want = append(want, fmt.Sprint("NaN=", 30+i))
			}
			a.SetValue(2, 12)
			want = append(want, "2=22") // b's value wins
			for i := 1; i <= nb; i++ {
				b.SetValue(math.NaN(), 40+i)
				want = append(want, fmt.Sprint("NaN=", 40+i))
			}
			b.SetValue(2, 22)
			b.SetValue(3, 23)
			want = append(want, "3=23")
			var merged, extracted []string
			o := rt.Protect(1000000, func() {
				m := K.Merge(a, b)
				merged = pairs(m)
				extracted = pairs(K.Extract(m, col.List[float64](N()).MakeFromArray([]float64{3, math.NaN(), 1, 7})))
			})
			r.Evals += 2
			switch {
			case o.Panicked || o.Fuel:
				r.Violation("Merge or Extract fails on catalogs with keys that are not equal to themselves", fmt.Sprintf("%+v: %s", c, o.Value), c)
			case fmt.Sprint(merged) != fmt.Sprint(want):
				r.Violation("Merge: associations under keys that are not equal to themselves are not carried over with their values", fmt.Sprintf("%+v: got %v want %v", c, merged, want), c)
			case fmt.Sprint(extracted) != fmt.Sprint([]string{"3=23", "1=11"}):
				r.Violation("Extract with a requested key that is not equal to itself", fmt.Sprintf("%+v: got %v", c, extracted), c)
			}
		}
	}
	r.States += int64(cases)
	r.Distinct += int64(cases)
	r.Transitions += r.Evals
	r.Sample(valCase{"Merge", "pointers to equal ints", []int{0, 1}, []int{1, 2}})
}
