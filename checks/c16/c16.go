// Package c16: Merge, Extract and Concatenate obey their documented laws and are pure.
package c16

import (
	"fmt"
	"reflect"
	"time"

	col "github.com/craterdog/go-collection-framework/v4/collection"
	rt "github.com/craterdog/go-collection-framework/v4/verifrt"
	"verif/checks/common"
	"verif/engine"
)

type listCase struct {
	A     []int `json:"a"`
	B     []int `json:"b"`
	Alias bool  `json:"same_object"`
}

func allLists(maxLen, alpha int) [][]int {
	out := [][]int{}
	var rec func(cur []int)
	rec = func(cur []int) {
		out = append(out, append([]int(nil), cur...))
		if len(cur) == maxLen {
			return
		}
		for v := 0; v < alpha; v++ {
			rec(append(cur, v))
		}
	}
	rec(nil)
	return out
}

func eq(a, b []int) bool { return (len(a) == 0 && len(b) == 0) || reflect.DeepEqual(a, b) }

func concatenate(r *engine.Rec) {
	maxLen := 4
	if r.Tier == "thorough" {
		maxLen = 6
	}
	L := col.List[int](common.N())
	lists := allLists(maxLen, 3)
	for _, a := range lists {
		for _, b := range lists {
			for _, alias := range []bool{false, true} {
				if alias && !reflect.DeepEqual(a, b) {
					continue
				}
				c := listCase{a, b, alias}
				if !r.Wanted(c) {
					continue
				}
				A, B := L.MakeFromArray(a), L.MakeFromArray(b)
				if alias {
					B = A
				}
				da, db := common.View(A), common.View(B)
				var res col.ListLike[int]
				out := rt.Protect(2000000, func() { res = L.Concatenate(A, B) })
				r.Evals++
				want := append(append([]int{}, a...), b...)
				switch {
				case out.Panicked:
					r.Violation("Concatenate fails", out.Value, c)
				case !eq(res.AsArray(), want):
					r.Violation("Concatenate is not a followed by b", fmt.Sprintf("%v + %v = %v", a, b, res.AsArray()), c)
				case common.View(A) != da || common.View(B) != db:
					r.Violation("Concatenate changes an operand", fmt.Sprint(a, b), c)
				case any(res) == any(A) || any(res) == any(B):
					r.Violation("Concatenate returns an operand", fmt.Sprint(a, b), c)
				default:
					res.AppendValue(9)
					if res.GetSize() > 1 {
						res.SetValue(1, 8)
					}
					if common.View(A) != da || common.View(B) != db {
						r.Violation("changing the result of Concatenate changes an operand", fmt.Sprint(a, b), c)
						break
					}
					dr := common.View(res)
					A.AppendValue(7)
					if B.GetSize() > 0 {
						B.SetValue(1, 6)
					}
					B.RemoveAll()
					if common.View(res) != dr {
						r.Violation("changing an operand changes the result of Concatenate", fmt.Sprint(a, b), c)
					}
				}
			}
		}
	}
	r.States += int64(len(lists) * len(lists))
	r.Distinct += int64(len(lists) * len(lists))
	r.Transitions += r.Evals
	r.Sample(listCase{[]int{0, 2}, []int{2, 1, 1}, false})
}

// ordered subsets of a 4-key universe
func orderedSubsets(n int) [][]int {
	out := [][]int{}
	var rec func(cur []int, used int)
	rec = func(cur []int, used int) {
		out = append(out, append([]int(nil), cur...))
		for k := 0; k < n; k++ {
			if used&(1<<k) == 0 {
				rec(append(cur, k), used|1<<k)
			}
		}
	}
	rec(nil, 0)
	return out
}

var keyNames = []string{"a", "b", "c", "d"}

type catCase struct {
	A     []int `json:"a_keys"`
	B     []int `json:"b_keys"`
	Alias bool  `json:"same_object"`
}

type kv struct {
	K string
	V int
}

func contents(c col.CatalogLike[string, int]) []kv {
	out := []kv{}
	for _, a := range c.AsArray() {
		out = append(out, kv{a.GetKey(), a.GetValue()})
	}
	return out
}

// operand-specific values: catalog A stores 0 under its first key (a zero value under a present key), 10+k elsewhere; B stores 20+k
func mkCat(keys []int, base int) col.CatalogLike[string, int] {
	c := col.Catalog[string, int](common.N()).Make()
	for i, k := range keys {
		v := base + k
		if i == 0 && base == 10 {
			v = 0
		}
		c.SetValue(keyNames[k], v)
	}
	return c
}

func merge(r *engine.Rec) {
	C := col.Catalog[string, int](common.N())
	subs := orderedSubsets(4)
	for _, a := range subs {
		for _, b := range subs {
			for _, alias := range []bool{false, true} {
				if alias && !reflect.DeepEqual(a, b) {
					continue
				}
				c := catCase{a, b, alias}
				if !r.Wanted(c) {
					continue
				}
				A, B := mkCat(a, 10), mkCat(b, 20)
				if alias {
					B = A
				}
				ca, cb := contents(A), contents(B)
				da, db := common.View(A), common.View(B)
				var res col.CatalogLike[string, int]
				out := rt.Protect(4000000, func() { res = C.Merge(A, B) })
				r.Evals++
				// law: a's keys in a's order, then b's new keys in b's order; b's value wins
				want := []kv{}
				bval := map[string]int{}
				inB := map[string]bool{}
				for _, p := range cb {
					bval[p.K] = p.V
					inB[p.K] = true
				}
				inA := map[string]bool{}
				for _, p := range ca {
					inA[p.K] = true
					if inB[p.K] {
						want = append(want, kv{p.K, bval[p.K]})
					} else {
						want = append(want, p)
					}
				}
				for _, p := range cb {
					if !inA[p.K] {
						want = append(want, p)
					}
				}
				switch {
				case out.Panicked:
					r.Violation("Merge fails", out.Value, c)
				case !reflect.DeepEqual(contents(res), want):
					r.Violation("Merge law violated", fmt.Sprintf("A=%v B=%v got %v want %v", ca, cb, contents(res), want), c)
				case common.View(A) != da || common.View(B) != db:
					r.Violation("Merge changes an operand", fmt.Sprint(ca, cb), c)
				case any(res) == any(A) || any(res) == any(B):
					r.Violation("Merge returns an operand", fmt.Sprint(ca, cb), c)
				default:
					for _, k := range keyNames {
						res.SetValue(k, 99)
					}
					res.RemoveAll()
					if common.View(A) != da || common.View(B) != db {
						r.Violation("changing the result of Merge changes an operand", fmt.Sprint(ca, cb), c)
						break
					}
					res = C.Merge(A, B)
					dr := common.View(res)
					for _, k := range keyNames {
						A.SetValue(k, 77)
						B.SetValue(k, 66)
					}
					A.RemoveAll()
					if common.View(res) != dr {
						r.Violation("changing an operand changes the result of Merge", fmt.Sprint(ca, cb), c)
					}
				}
			}
		}
	}
	r.States += int64(len(subs) * len(subs))
	r.Distinct += int64(len(subs) * len(subs))
	r.Transitions += r.Evals
	r.Sample(catCase{[]int{2, 0}, []int{0, 3, 2}, false})
}

type extCase struct {
	Cat  []int `json:"catalog_keys"`
	Keys []int `json:"requested"`
}

func extract(r *engine.Rec) {
	C := col.Catalog[string, int](common.N())
	seqLen := 3
	if r.Tier == "thorough" {
		seqLen = 5
	}
	var seqs [][]int
	var rec func(cur []int)
	rec = func(cur []int) {
		seqs = append(seqs, append([]int(nil), cur...))
		if len(cur) == seqLen {
			return
		}
		for k := 0; k < 4; k++ {
			rec(append(cur, k))
		}
	}
	rec(nil)
	cats := orderedSubsets(3) // key 3 ("d") is never present
	for _, ck := range cats {
		for _, ks := range seqs {
			c := extCase{ck, ks}
			if !r.Wanted(c) {
				continue
			}
			cat := mkCat(ck, 10)
			cc := contents(cat)
			dc := common.View(cat)
			var names []string
			for _, k := range ks {
				names = append(names, keyNames[k])
			}
			keys := col.List[string](common.N()).MakeFromArray(names)
			dk := common.View(keys)
			var res col.CatalogLike[string, int]
			out := rt.Protect(4000000, func() { res = C.Extract(cat, keys) })
			r.Evals++
			// law: in the order of keys, exactly the associations of c whose keys were requested (once, at first position); nothing for absent keys
			want := []kv{}
			seen := map[string]bool{}
			for _, kname := range names {
				if seen[kname] {
					continue
				}
				for _, p := range cc {
					if p.K == kname {
						want = append(want, p)
						seen[kname] = true
					}
				}
			}
			absent := false
			for _, kname := range names {
				if !seen[kname] {
					absent = true
				}
			}
			sig := ""
			if absent {
				sig = " (a requested key is absent from the catalog)"
			}
			switch {
			case out.Panicked:
				r.Violation("Extract fails"+sig, out.Value, c)
			case !reflect.DeepEqual(contents(res), want):
				r.Violation("Extract law violated"+sig, fmt.Sprintf("catalog=%v keys=%v got %v want %v", cc, names, contents(res), want), c)
			case common.View(cat) != dc || common.View(keys) != dk:
				r.Violation("Extract changes an operand", fmt.Sprint(cc, names), c)
			case any(res) == any(cat):
				r.Violation("Extract returns its operand", fmt.Sprint(cc, names), c)
			default:
				for _, k := range keyNames {
					res.SetValue(k, 99)
				}
				res.RemoveAll()
				if common.View(cat) != dc {
					r.Violation("changing the result of Extract changes the catalog", fmt.Sprint(cc, names), c)
					break
				}
				res = C.Extract(cat, keys)
				dr := common.View(res)
				for _, k := range keyNames {
					cat.SetValue(k, 77)
				}
				cat.RemoveAll()
				if common.View(res) != dr {
					r.Violation("changing the catalog changes the result of Extract", fmt.Sprint(cc, names), c)
				}
			}
		}
	}
	r.States += int64(len(cats) * len(seqs))
	r.Distinct += int64(len(cats) * len(seqs))
	r.Transitions += r.Evals
	r.Sample(extCase{[]int{1, 0}, []int{3, 0, 0}})
}

func init() {
	engine.Register(&engine.Check{
		ID:        "C16",
		Technique: "bounded-exhaustive enumeration on the real class functions: all pairs of lists up to length 4 over 3 values (incl. the same object twice) for Concatenate; all pairs of catalogs whose keys are ordered subsets of a 4-key universe with operand-specific values for Merge; every catalog over 3 keys x every key sequence up to length 3 over 4 keys for Extract; operand/result dumps compared and then mutated to expose sharing",
		Rule:      "case = operand pair (or catalog + key sequence); the expected result is computed from the documented law",
		Assume:    []string{"string keys, int values; a zero value is stored under a present key; Merge and Extract again over pointer, interface, float (signed zeros) and struct keys, where == and structural equality differ"},
		Budget:    func(string) time.Duration { return 4 * time.Minute },
		Units: func(string) []engine.Unit {
			return []engine.Unit{{Name: "concatenate", Run: concatenate}, {Name: "merge", Run: merge}, {Name: "extract", Run: extract}, {Name: "key-types", Run: keyTypeUnit}, {Name: "results-as-operands-and-repeated-calls", Run: again}, {Name: "valid-calls-after-a-failed-call", Run: afterFail}, {Name: "whose-value-it-is", Run: valueIdentity}}
		},
	})
}
