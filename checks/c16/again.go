package c16

import (
	"fmt"
	"reflect"

	col "github.com/craterdog/go-collection-framework/v4/collection"
	rt "github.com/craterdog/go-collection-framework/v4/verifrt"
	"verif/checks/common"
	"verif/engine"
)

// Results used as operands, and the same function called again after an
// operand was changed: what a function keeps from an earlier call (spare
// capacity shared between results, a cache keyed by the operand) shows only in
// the second or third call.

type againCase struct {
	Fn   string `json:"function"`
	A    []int  `json:"a"`
	B    []int  `json:"b"`
	X    []int  `json:"x,omitempty"`
	Y    []int  `json:"y,omitempty"`
	Step string `json:"step,omitempty"`
}

func again(r *engine.Rec) {
	L := col.List[int](common.N())
	lists := [][]int{{}, {1}, {1, 2}, {3, 1, 2}}
	tails := [][]int{{7}, {8, 9}}
	eq := func(a, b []int) bool { return (len(a) == 0 && len(b) == 0) || reflect.DeepEqual(a, b) }
	cat := func(xs ...[]int) []int {
		var out []int
		for _, x := range xs {
			out = append(out, x...)
		}
		return out
	}
	for _, a := range lists {
		for _, b := range lists {
			for _, x := range tails {
				for _, y := range tails {
					c := againCase{Fn: "Concatenate", A: a, B: b, X: x, Y: y}
					if !r.Wanted(c) {
						continue
					}
					var ab, abx, aby, abab col.ListLike[int]
					out := rt.Protect(4000000, func() {
						ab = L.Concatenate(L.MakeFromArray(a), L.MakeFromArray(b))
						abx = L.Concatenate(ab, L.MakeFromArray(x))
						aby = L.Concatenate(ab, L.MakeFromArray(y))
						abab = L.Concatenate(ab, ab)
					})
					r.Evals += 4
					if out.Panicked || out.Fuel {
						r.Violation("Concatenate of an earlier result fails", out.Value, c)
						continue
					}
					switch {
					case !eq(ab.AsArray(), cat(a, b)) || !eq(abx.AsArray(), cat(a, b, x)) || !eq(aby.AsArray(), cat(a, b, y)) || !eq(abab.AsArray(), cat(a, b, a, b)):
						r.Violation("an earlier result of Concatenate is no longer a followed by b after it was used as an operand", fmt.Sprintf("%+v: ab=%v abx=%v aby=%v abab=%v", c, ab.AsArray(), abx.AsArray(), aby.AsArray(), abab.AsArray()), c)
						continue
					}
					// change each of the four in turn (in place and structurally): the other three keep their values
					all := []col.ListLike[int]{ab, abx, aby, abab}
					names := []string{"ab", "abx", "aby", "abab"}
					for i, victim := range all {
						views := make([]string, len(all))
						for j, o := range all {
							views[j] = common.View(o)
						}
						rt.Protect(1000000, func() {
							if victim.GetSize() > 0 {
								victim.SetValue(1, 100+i)
								victim.ReverseValues()
							}
							victim.AppendValue(200 + i)
							if victim.GetSize() > 1 {
								victim.RemoveValue(1)
							}
						})
						for j, o := range all {
							if j != i && common.View(o) != views[j] {
								c.Step = "change " + names[i] + ", look at " + names[j]
								r.Violation("changing one result of Concatenate changes another one (shared storage between results)", fmt.Sprintf("%+v: %s is now %v", c, names[j], o.AsArray()), c)
							}
						}
					}
				}
			}
		}
	}
	// Extract and Merge called again after the catalog was changed in every way that keeps, grows or shrinks its size
	C := col.Catalog[string, int](common.N())
	type ckv = kv
	law := func(cc []ckv, names []string) []ckv {
		want := []ckv{}
		seen := map[string]bool{}
		for _, kname := range names {
			if seen[kname] {
				continue
			}
			for _, p := range cc {
				if p.K == kname {
					want = append(want, p)
					seen[kname] = true
				}
			}
		}
		return want
	}
	changes := map[string]func(c col.CatalogLike[string, int]){
		"replace a key by another (same size)": func(c col.CatalogLike[string, int]) { c.RemoveValue("a"); c.SetValue("d", 4) },
		"update a value":                       func(c col.CatalogLike[string, int]) { c.SetValue("b", 22) },
		"remove a key":                         func(c col.CatalogLike[string, int]) { c.RemoveValue("b") },
		"add a key":                            func(c col.CatalogLike[string, int]) { c.SetValue("e", 5) },
		"reverse":                              func(c col.CatalogLike[string, int]) { c.ReverseValues() },
		"empty and refill (same size)": func(c col.CatalogLike[string, int]) {
			n := c.GetSize()
			c.RemoveAll()
			for i := 0; i < n; i++ {
				c.SetValue(string(rune('p'+i)), i)
			}
		},
	}
	requests := [][]string{{"a", "b", "c"}, {"d", "c", "a", "x"}, {"b", "e", "p", "q"}, {}}
	for _, keys := range [][]int{{0, 1, 2}, {0, 1}, {1}, {}} {
		for cn, change := range changes {
			for _, req1 := range requests {
				for _, req2 := range requests {
					c := againCase{Fn: "Extract", A: keys, Step: cn + fmt.Sprint(" ", req1, " then ", req2)}
					if !r.Wanted(c) {
						continue
					}
					catg := mkCat(keys, 10)
					other := mkCat([]int{0, 2}, 30)
					var res1, res2, res3 col.CatalogLike[string, int]
					var mid []ckv
					out := rt.Protect(4000000, func() {
						res1 = C.Extract(catg, col.List[string](common.N()).MakeFromArray(req1))
						change(catg)
						mid = contents(catg)
						res2 = C.Extract(catg, col.List[string](common.N()).MakeFromArray(req2))
						res3 = C.Extract(other, col.List[string](common.N()).MakeFromArray(req2))
					})
					r.Evals += 3
					switch {
					case out.Panicked || out.Fuel:
						r.Violation("Extract fails when called again", fmt.Sprintf("%+v: %s", c, out.Value), c)
					case !reflect.DeepEqual(contents(res2), law(mid, req2)):
						r.Violation("Extract called again after the catalog was changed does not describe the catalog as it is now", fmt.Sprintf("%+v: catalog now %v requested %v got %v want %v", c, mid, req2, contents(res2), law(mid, req2)), c)
					case !reflect.DeepEqual(contents(res3), law(contents(other), req2)):
						r.Violation("Extract on another catalog is wrong after earlier calls", fmt.Sprintf("%+v: got %v", c, contents(res3)), c)
					case !reflect.DeepEqual(contents(res1), law(contents(mkCat(keys, 10)), req1)):
						r.Violation("an earlier result of Extract changes when the catalog is changed or Extract is called again", fmt.Sprintf("%+v: %v", c, contents(res1)), c)
					}
				}
			}
		}
	}
	r.Transitions += r.Evals
	r.States += r.Evals
	r.Distinct += r.Evals
	r.Sample(againCase{Fn: "Concatenate", A: []int{1, 2}, B: []int{3}, X: []int{7}, Y: []int{8, 9}})
}
