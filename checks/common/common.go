// Package common holds small helpers shared by the per-property harnesses.
package common

import (
	"fmt"
	"reflect"
	"sort"
	"strings"

	"verif/engine/dump"

	cdc "github.com/craterdog/go-collection-framework/v4/cdcn"
	col "github.com/craterdog/go-collection-framework/v4/collection"
	rt "github.com/craterdog/go-collection-framework/v4/verifrt"
)

// N returns a fresh CDCN notation (class registries keep the first one they see).
func N() col.NotationLike { return cdc.Notation().Make() }

// RaceSig turns a race report into a signature that does not depend on line
// numbers: file, expression text and access kinds of both sides, sorted.
func RaceSig(r rt.Race) string {
	a, b := stripLine(r.First), stripLine(r.Second)
	s := []string{a, b}
	sort.Strings(s)
	return "race " + s[0] + " <-> " + s[1]
}

// stripLine turns "W queue.go:293 v.available_" into "W queue.go v.available_".
func stripLine(s string) string {
	parts := strings.SplitN(s, " ", 3)
	if len(parts) < 3 {
		return s
	}
	file := parts[1]
	if i := strings.IndexByte(file, ':'); i >= 0 {
		file = file[:i]
	}
	return parts[0] + " " + file + " " + parts[2]
}

// PanicClass shortens a panic message to a stable class.
func PanicClass(msg string) string {
	msg = strings.TrimSpace(msg)
	if i := strings.IndexByte(msg, '\n'); i >= 0 {
		msg = msg[:i]
	}
	// drop trailing numbers / values after a colon so that the class is stable
	if i := strings.Index(msg, ": "); i >= 0 && i > 12 {
		msg = msg[:i]
	}
	if len(msg) > 80 {
		msg = msg[:80]
	}
	return msg
}

func Sprintf(f string, a ...any) string { return fmt.Sprintf(f, a...) }

// View renders what a caller can observe of v through the public interface:
// collections by their array view (recursively), associations by key and
// value, Go slices, arrays and maps element-wise, everything else by value.
// Oracles that say "unchanged" compare views, never private dumps: a private
// cache, counter or buffer that no observer can see may change freely.
func View(v any) string {
	var b strings.Builder
	view(&b, reflect.ValueOf(v), 0)
	return b.String()
}

func view(b *strings.Builder, v reflect.Value, depth int) {
	if depth > 40 {
		b.WriteString("<deep>")
		return
	}
	if !v.IsValid() {
		b.WriteString("nil")
		return
	}
	for v.Kind() == reflect.Interface {
		if v.IsNil() {
			b.WriteString("nil")
			return
		}
		v = v.Elem()
	}
	if v.Kind() == reflect.Pointer && v.IsNil() {
		b.WriteString("nil")
		return
	}
	if v.CanInterface() {
		if m := v.MethodByName("AsArray"); m.IsValid() && m.Type().NumIn() == 0 && m.Type().NumOut() == 1 {
			b.WriteString(v.Type().String())
			if c := v.MethodByName("GetCapacity"); c.IsValid() && c.Type().NumIn() == 0 && c.Type().NumOut() == 1 {
				fmt.Fprintf(b, "cap=%v", c.Call(nil)[0].Interface())
			}
			arr := m.Call(nil)[0]
			if v.MethodByName("GetKeys").IsValid() && !v.MethodByName("SortValues").IsValid() && arr.Kind() == reflect.Slice {
				// an associative collection without an order of its own (Map): its array view is in no particular order
				var ents []string
				for i := 0; i < arr.Len(); i++ {
					var e strings.Builder
					view(&e, arr.Index(i), depth+1)
					ents = append(ents, e.String())
				}
				sort.Strings(ents)
				b.WriteString("{" + strings.Join(ents, ",") + "}")
				return
			}
			view(b, arr, depth+1)
			return
		}
		k, w := v.MethodByName("GetKey"), v.MethodByName("GetValue")
		if k.IsValid() && w.IsValid() && k.Type().NumIn() == 0 && w.Type().NumIn() == 0 {
			b.WriteString("(")
			view(b, k.Call(nil)[0], depth+1)
			b.WriteString(":")
			view(b, w.Call(nil)[0], depth+1)
			b.WriteString(")")
			return
		}
	}
	switch v.Kind() {
	case reflect.Pointer:
		b.WriteString("&")
		view(b, v.Elem(), depth+1)
	case reflect.Slice, reflect.Array:
		if v.Kind() == reflect.Slice && v.IsNil() {
			b.WriteString("[]")
			return
		}
		b.WriteString("[")
		for i := 0; i < v.Len(); i++ {
			if i > 0 {
				b.WriteString(",")
			}
			view(b, v.Index(i), depth+1)
		}
		b.WriteString("]")
	case reflect.Map:
		var ents []string
		it := v.MapRange()
		for it.Next() {
			var e strings.Builder
			view(&e, it.Key(), depth+1)
			e.WriteString("=>")
			view(&e, it.Value(), depth+1)
			ents = append(ents, e.String())
		}
		sort.Strings(ents)
		b.WriteString("{" + strings.Join(ents, ",") + "}")
	default:
		if v.CanInterface() {
			b.WriteString(dump.Dump(v.Interface()))
		} else {
			fmt.Fprintf(b, "%v", v)
		}
	}
}
