// Package common holds small helpers shared by the per-property harnesses.
package common

import (
	"fmt"
	"sort"
	"strings"

	cdc "github.com/craterdog/go-collection-framework/v4/cdcn"
	col "github.com/craterdog/go-collection-framework/v4/collection"
	rt "github.com/craterdog/go-collection-framework/v4/verifrt"
)

// N returns a fresh CDCN notation (class registries keep the first one they see).
func N() col.NotationLike { return cdc.Notation().Make() }

// RaceSig turns a race report into a signature that does not depend on line
// numbers: file, expression text and access kinds of both sides, sorted.
func RaceSig(r rt.Race) string {
	a, b := stripLine(r.First), stripLine(r.Second)
	s := []string{a, b}
	sort.Strings(s)
	return "race " + s[0] + " <-> " + s[1]
}

// stripLine turns "W queue.go:293 v.available_" into "W queue.go v.available_".
func stripLine(s string) string {
	parts := strings.SplitN(s, " ", 3)
	if len(parts) < 3 {
		return s
	}
	file := parts[1]
	if i := strings.IndexByte(file, ':'); i >= 0 {
		file = file[:i]
	}
	return parts[0] + " " + file + " " + parts[2]
}

// PanicClass shortens a panic message to a stable class.
func PanicClass(msg string) string {
	msg = strings.TrimSpace(msg)
	if i := strings.IndexByte(msg, '\n'); i >= 0 {
		msg = msg[:i]
	}
	// drop trailing numbers / values after a colon so that the class is stable
	if i := strings.Index(msg, ": "); i >= 0 && i > 12 {
		msg = msg[:i]
	}
	if len(msg) > 80 {
		msg = msg[:80]
	}
	return msg
}

func Sprintf(f string, a ...any) string { return fmt.Sprintf(f, a...) }
