package common

import (
	"reflect"

	col "github.com/craterdog/go-collection-framework/v4/collection"
)

// Scribble changes every collection of element type any that can be reached
// from v (v itself included): lists, stacks and sets get a value, catalogs
// and maps a key, arrays have their first item replaced. Items are visited
// before their holder is changed, and a collection reached twice (because two
// positions hold one object) is changed twice.
func Scribble(v any, depth int) {
	if depth > 6 || v == nil {
		return
	}
	rv := reflect.ValueOf(v)
	if m := rv.MethodByName("AsArray"); m.IsValid() && m.Type().NumIn() == 0 {
		arr := m.Call(nil)[0]
		for i := 0; i < arr.Len(); i++ {
			e := arr.Index(i).Interface()
			if a, ok := e.(col.AssociationLike[any, any]); ok {
				Scribble(a.GetValue(), depth+1)
				continue
			}
			Scribble(e, depth+1)
		}
	}
	mark := int64(9900 + depth)
	switch x := v.(type) {
	case col.ListLike[any]:
		x.AppendValue(mark)
	case col.CatalogLike[any, any]:
		x.SetValue("scribbled", mark)
	case col.MapLike[any, any]:
		x.SetValue("scribbled", mark)
	case col.SetLike[any]:
		x.AddValue(mark)
	case col.StackLike[any]:
		if uint(x.GetSize()) < x.GetCapacity() {
			x.AddValue(mark)
		}
	case col.ArrayLike[any]:
		if x.GetSize() > 0 {
			x.SetValue(1, mark)
		}
	}
}
