package common

import "reflect"

// SameObject: a and b are one object (the same pointer, or the same Go map or slice storage).
func SameObject(a, b any) bool {
	va, vb := reflect.ValueOf(a), reflect.ValueOf(b)
	if !va.IsValid() || !vb.IsValid() || va.Kind() != vb.Kind() {
		return false
	}
	switch va.Kind() {
	case reflect.Pointer, reflect.Map:
		return va.Pointer() == vb.Pointer() && va.Pointer() != 0
	case reflect.Slice:
		return va.Len() > 0 && vb.Len() > 0 && va.Pointer() == vb.Pointer()
	}
	return false
}
