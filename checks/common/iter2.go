package common

import (
	"fmt"
	"reflect"
	"sort"
)

// iteratorLike is what every collection's GetIterator returns (the element type is erased here).
type iterOf[V any] interface {
	HasNext() bool
	GetNext() V
}

// TwoLiveIterators obtains an iterator, advances it by one, obtains a second
// one and drains both: each must enumerate want (the collection as it is now)
// on its own - in order, or as a multiset when the collection has no order.
// "" when they do.
func TwoLiveIterators[V any, I iterOf[V]](get func() I, want []V, ordered bool) string {
	it1 := get()
	var got1, got2 []V
	if it1.HasNext() {
		got1 = append(got1, it1.GetNext())
	}
	it2 := get()
	for n := 0; it2.HasNext() && n <= len(want)+1; n++ {
		got2 = append(got2, it2.GetNext())
	}
	for n := 0; it1.HasNext() && n <= len(want)+1; n++ {
		got1 = append(got1, it1.GetNext())
	}
	render := func(vs []V) []string {
		var out []string
		for _, v := range vs {
			out = append(out, View(v))
		}
		if !ordered {
			sort.Strings(out)
		}
		return out
	}
	w := render(want)
	if g := render(got2); !(len(g) == 0 && len(w) == 0) && !reflect.DeepEqual(g, w) {
		return fmt.Sprintf("an iterator obtained while another one is in use enumerates %v instead of %v", g, w)
	}
	if g := render(got1); !(len(g) == 0 && len(w) == 0) && !reflect.DeepEqual(g, w) {
		return fmt.Sprintf("an iterator enumerates %v instead of %v after a second iterator was obtained and used", g, w)
	}
	return ""
}
