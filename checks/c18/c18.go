// Package c18: Go arrays and maps crossing the API are copied, never aliased.
package c18

import (
	"fmt"
	"time"

	col "github.com/craterdog/go-collection-framework/v4/collection"
	rt "github.com/craterdog/go-collection-framework/v4/verifrt"
	"verif/checks/c06"
	"verif/checks/common"
	"verif/engine"
	"verif/engine/dump"
)

type aCase struct {
	Entry string `json:"entry"`
	N     int    `json:"n"`
	Pos   int    `json:"pos"`
	Mode  string `json:"mode"`
}

func mk(n int) []int {
	a := make([]int, n)
	for i := range a {
		a[i] = 10 * (n - i) // descending so that sets/sorts have something to do
	}
	return a
}

type AL = col.AssociationLike[string, int]

func mkAssocs(n int) []AL {
	var as []AL
	for i := 0; i < n; i++ {
		as = append(as, col.Association[string, int](common.N()).Make(fmt.Sprint("k", n-i), 10*(i+1)))
	}
	return as
}

func mkMap(n int) map[string]int {
	m := map[string]int{}
	for i := 0; i < n; i++ {
		m[fmt.Sprint("k", i)] = 10 * (i + 1)
	}
	return m
}

// mutateSeq changes a returned sequence in place by every means its dynamic type offers.
func mutateSeq[V any](s col.Sequential[V], pos int, v V) {
	if u, ok := s.(col.Updatable[V]); ok && s.GetSize() > 0 {
		rt.Protect(100000, func() { u.SetValue(pos%s.GetSize()+1, v) })
	}
	if e, ok := s.(col.Expandable[V]); ok {
		rt.Protect(100000, func() { e.AppendValue(v) })
		rt.Protect(100000, func() { e.RemoveValue(1) })
	}
	if so, ok := s.(col.Sortable[V]); ok {
		rt.Protect(100000, func() { so.ReverseValues() })
	}
	if f, ok := s.(col.Flexible[V]); ok {
		rt.Protect(100000, func() { f.AddValue(v) })
	}
}

type subject struct {
	name string
	// build creates the collection from a fresh argument and returns (collection, function mutating the argument at pos)
	build func(n int) (coll any, mutateArg func(pos int))
}

func N() col.NotationLike { return common.N() }

func constructors() []subject {
	var out []subject
	intSeq := func(a []int) col.ListLike[int] { return col.List[int](N()).MakeFromArray(a) }
	type mkFrom struct {
		name string
		arr  func(a []int) any
		seq  func(s col.Sequential[int]) any
	}
	kinds := []mkFrom{
		{"Array", func(a []int) any { return col.Array[int](N()).MakeFromArray(a) }, func(s col.Sequential[int]) any { return col.Array[int](N()).MakeFromSequence(s) }},
		{"List", func(a []int) any { return col.List[int](N()).MakeFromArray(a) }, func(s col.Sequential[int]) any { return col.List[int](N()).MakeFromSequence(s) }},
		{"Set", func(a []int) any { return col.Set[int](N()).MakeFromArray(a) }, func(s col.Sequential[int]) any { return col.Set[int](N()).MakeFromSequence(s) }},
		{"Stack", func(a []int) any { return col.Stack[int](N()).MakeFromArray(a) }, func(s col.Sequential[int]) any { return col.Stack[int](N()).MakeFromSequence(s) }},
		{"Queue", func(a []int) any { return col.Queue[int](N()).MakeFromArray(a) }, func(s col.Sequential[int]) any { return col.Queue[int](N()).MakeFromSequence(s) }},
	}
	for _, k := range kinds {
		k := k
		out = append(out, subject{k.name + ".MakeFromArray", func(n int) (any, func(int)) {
			a := mk(n)
			return k.arr(a), func(pos int) {
				if n > 0 {
					a[pos%n] = -1
				}
			}
		}})
		out = append(out, subject{k.name + ".MakeFromSequence", func(n int) (any, func(int)) {
			s := intSeq(mk(n))
			return k.seq(s), func(pos int) {
				if n > 0 {
					s.SetValue(pos%n+1, -1)
				}
				s.AppendValue(-2)
			}
		}})
	}
	// same-kind and cross-kind collection sources: a collection built from another collection must not share its storage
	type src struct {
		name string
		mk   func(n int) (col.Sequential[int], func(pos int))
	}
	srcs := []src{
		{"Array", func(n int) (col.Sequential[int], func(int)) {
			a := col.Array[int](N()).MakeFromArray(mk(n))
			return a, func(pos int) {
				if n > 0 {
					a.SetValue(pos%n+1, -1)
					a.ReverseValues()
				}
			}
		}},
		{"List", func(n int) (col.Sequential[int], func(int)) {
			l := col.List[int](N()).MakeFromArray(mk(n))
			return l, func(pos int) {
				if n > 0 {
					l.SetValue(pos%n+1, -1)
				}
				l.AppendValue(-2)
				l.ReverseValues()
			}
		}},
		{"Set", func(n int) (col.Sequential[int], func(int)) {
			x := col.Set[int](N()).MakeFromArray(mk(n))
			return x, func(pos int) { x.AddValue(-1); x.RemoveValue(10); x.AddValue(15) }
		}},
		{"Stack", func(n int) (col.Sequential[int], func(int)) {
			x := col.Stack[int](N()).MakeFromArray(mk(n))
			return x, func(pos int) {
				x.AddValue(-1)
				x.AddValue(-2)
				x.RemoveTop()
			}
		}},
		{"Queue", func(n int) (col.Sequential[int], func(int)) {
			x := col.Queue[int](N()).MakeFromArray(mk(n))
			return x, func(pos int) {
				x.AddValue(-1)
				x.RemoveHead()
			}
		}},
	}
	for _, k := range kinds {
		for _, sc := range srcs {
			k, sc := k, sc
			out = append(out, subject{k.name + ".MakeFromSequence(" + sc.name + ")", func(n int) (any, func(int)) {
				s, mut := sc.mk(n)
				return k.seq(s), mut
			}})
		}
	}
	// ... and the other direction: mutating the new collection must not change the source
	for _, k := range kinds {
		for _, sc := range srcs {
			k, sc := k, sc
			out = append(out, subject{"source " + sc.name + " of " + k.name + ".MakeFromSequence", func(n int) (any, func(int)) {
				s, _ := sc.mk(n)
				c := k.seq(s)
				return s, func(pos int) {
					switch x := c.(type) {
					case col.ListLike[int]:
						if n > 0 {
							x.SetValue(pos%n+1, -7)
						}
						x.AppendValue(-8)
						x.ReverseValues()
					case col.ArrayLike[int]:
						if n > 0 {
							x.SetValue(pos%n+1, -7)
							x.ReverseValues()
						}
					case col.SetLike[int]:
						x.AddValue(-7)
						x.RemoveValue(10)
					case col.StackLike[int]:
						x.AddValue(-7)
						x.AddValue(-8)
						x.RemoveTop()
					case col.QueueLike[int]:
						x.AddValue(-7)
						x.RemoveHead()
					}
				}
			}})
		}
	}
	// Catalog and Map
	type assocKind struct {
		name string
		arr  func(a []AL) any
		mp   func(m map[string]int) any
		seq  func(s col.Sequential[AL]) any
	}
	aks := []assocKind{
		{"Catalog", func(a []AL) any { return col.Catalog[string, int](N()).MakeFromArray(a) }, func(m map[string]int) any { return col.Catalog[string, int](N()).MakeFromMap(m) },
			func(s col.Sequential[AL]) any { return col.Catalog[string, int](N()).MakeFromSequence(s) }},
		{"Map", func(a []AL) any { return col.Map[string, int](N()).MakeFromArray(a) }, func(m map[string]int) any { return col.Map[string, int](N()).MakeFromMap(m) },
			func(s col.Sequential[AL]) any { return col.Map[string, int](N()).MakeFromSequence(s) }},
	}
	for _, k := range aks {
		k := k
		out = append(out, subject{k.name + ".MakeFromArray", func(n int) (any, func(int)) {
			a := mkAssocs(n)
			return k.arr(a), func(pos int) {
				if n > 0 {
					a[pos%n].SetValue(-1) // the caller's association objects must not be kept
					a[pos%n] = col.Association[string, int](N()).Make("other", -3)
				}
			}
		}})
		out = append(out, subject{k.name + ".MakeFromMap", func(n int) (any, func(int)) {
			m := mkMap(n)
			return k.mp(m), func(pos int) {
				if n > 0 {
					m[fmt.Sprint("k", pos%n)] = -1
				}
				m["new"] = -2
				delete(m, "k0")
			}
		}})
		out = append(out, subject{k.name + ".MakeFromSequence", func(n int) (any, func(int)) {
			as := mkAssocs(n)
			s := col.List[AL](N()).MakeFromArray(as)
			return k.seq(s), func(pos int) {
				if n > 0 {
					as[pos%n].SetValue(-1)
					s.RemoveValue(pos%n + 1)
				}
			}
		}})
		out = append(out, subject{k.name + ".MakeFromSequence(Map)", func(n int) (any, func(int)) {
			src := col.Map[string, int](N()).MakeFromMap(mkMap(n))
			return k.seq(src), func(pos int) { src.SetValue("new", -1); src.RemoveValue("k0"); src.SetValue("k1", -2) }
		}})
		out = append(out, subject{k.name + ".MakeFromSequence(Catalog)", func(n int) (any, func(int)) {
			src := col.Catalog[string, int](N()).MakeFromMap(mkMap(n))
			return k.seq(src), func(pos int) {
				src.SetValue("new", -1)
				src.RemoveValue("k0")
				src.SetValue("k1", -2)
				src.ReverseValues()
			}
		}})
		out = append(out, subject{"source Map of " + k.name + ".MakeFromSequence", func(n int) (any, func(int)) {
			src := col.Map[string, int](N()).MakeFromMap(mkMap(n))
			c := k.seq(src)
			return src, func(pos int) {
				a := c.(col.Associative[string, int])
				a.SetValue("new", -1)
				a.RemoveValue("k0")
				a.SetValue("k1", -2)
			}
		}})
		out = append(out, subject{"source Catalog of " + k.name + ".MakeFromSequence", func(n int) (any, func(int)) {
			src := col.Catalog[string, int](N()).MakeFromMap(mkMap(n))
			c := k.seq(src)
			return src, func(pos int) {
				a := c.(col.Associative[string, int])
				a.SetValue("new", -1)
				a.RemoveValue("k0")
				a.SetValue("k1", -2)
			}
		}})
	}
	return out
}

func maxSize(r *engine.Rec) int {
	if r.Tier == "thorough" {
		return 12
	}
	return 4
}

func constructorAliasing(r *engine.Rec) {
	for _, sub := range constructors() {
		for n := 0; n <= maxSize(r); n++ {
			for pos := 0; pos < n || pos == 0; pos++ {
				c := aCase{sub.name, n, pos, "mutate-argument-after-call"}
				if !r.Wanted(c) {
					continue
				}
				var coll any
				var mut func(int)
				out := rt.Protect(4000000, func() { coll, mut = sub.build(n) })
				r.Evals++
				if out.Panicked {
					r.Violation(sub.name+" fails", out.Value, c)
					continue
				}
				before := dump.Dump(coll)
				mut(pos)
				if dump.Dump(coll) != before {
					r.Violation(sub.name+" keeps the caller's storage (mutating the argument changes the collection)", fmt.Sprintf("%+v\nbefore %s\nafter  %s", c, before, dump.Dump(coll)), c)
				}
				r.Outcome(sub.name)
			}
		}
	}
	r.Sample(aCase{"Catalog.MakeFromArray", 3, 1, "mutate-argument-after-call"})
}

// results: every accessor that returns an array or a sequence
type accessor struct {
	name string
	// run builds a collection of size n, obtains the result, and returns: the collection, mutateResult(pos), mutateCollection(), snapshot of result
	run func(n int) (coll any, mutateResult func(pos int), mutateColl func(), resultDump func() string)
}

func seqAccessor[V any](name string, build func(n int) any, get func(coll any) col.Sequential[V], mutColl func(coll any), v V) accessor {
	return accessor{name, func(n int) (any, func(int), func(), func() string) {
		c := build(n)
		res := get(c)
		return c, func(pos int) { mutateSeq(res, pos, v) }, func() { mutColl(c) }, func() string { return fmt.Sprint(res.AsArray()) }
	}}
}

func arrAccessor[V any](name string, build func(n int) any, get func(coll any) []V, mutColl func(coll any), v V) accessor {
	return accessor{name, func(n int) (any, func(int), func(), func() string) {
		c := build(n)
		res := get(c)
		return c, func(pos int) {
			if len(res) > 0 {
				res[pos%len(res)] = v
			}
		}, func() { mutColl(c) }, func() string { return fmt.Sprint(res) }
	}}
}

func accessors() []accessor {
	var out []accessor
	bArray := func(n int) any { return col.Array[int](N()).MakeFromArray(mk(n)) }
	bList := func(n int) any { return col.List[int](N()).MakeFromArray(mk(n)) }
	bSet := func(n int) any { return col.Set[int](N()).MakeFromArray(mk(n)) }
	bStack := func(n int) any { return col.Stack[int](N()).MakeFromArray(mk(n)) }
	bQueue := func(n int) any { return col.Queue[int](N()).MakeFromArray(mk(n)) }
	bCat := func(n int) any { return col.Catalog[string, int](N()).MakeFromMap(mkMap(n)) }
	bMap := func(n int) any { return col.Map[string, int](N()).MakeFromMap(mkMap(n)) }
	mArray := func(c any) {
		a := c.(col.ArrayLike[int])
		if a.GetSize() > 0 {
			a.SetValue(1, -5)
			a.ReverseValues()
			a.SetValue(-1, -6)
		}
	}
	mList := func(c any) {
		l := c.(col.ListLike[int])
		l.AppendValue(-5)
		l.SetValue(1, -6)
		l.ReverseValues()
		l.RemoveValue(1)
		l.InsertValue(0, -7)
	}
	mSet := func(c any) { s := c.(col.SetLike[int]); s.AddValue(-5); s.RemoveValue(10); s.AddValue(15) }
	mStack := func(c any) { s := c.(col.StackLike[int]); s.AddValue(-5); s.RemoveTop(); s.AddValue(-6) }
	mQueue := func(c any) {
		q := c.(col.QueueLike[int])
		q.AddValue(-5)
		q.RemoveHead()
	}
	mCat := func(c any) {
		ct := c.(col.CatalogLike[string, int])
		ct.SetValue("new", -5)
		ct.RemoveValue("k0")
		ct.ReverseValues()
	}
	mMap := func(c any) {
		m := c.(col.MapLike[string, int])
		m.SetValue("new", -5)
		m.RemoveValue("k0")
		m.SetValue("k1", -6)
	}
	keyList := func(n int) col.Sequential[string] {
		var ks []string
		for i := 0; i < n; i++ {
			ks = append(ks, fmt.Sprint("k", i))
		}
		return col.List[string](N()).MakeFromArray(ks)
	}
	// AsArray of every kind
	out = append(out,
		arrAccessor("Array.AsArray", bArray, func(c any) []int { return c.(col.ArrayLike[int]).AsArray() }, mArray, -1),
		arrAccessor("List.AsArray", bList, func(c any) []int { return c.(col.ListLike[int]).AsArray() }, mList, -1),
		arrAccessor("Set.AsArray", bSet, func(c any) []int { return c.(col.SetLike[int]).AsArray() }, mSet, -1),
		arrAccessor("Stack.AsArray", bStack, func(c any) []int { return c.(col.StackLike[int]).AsArray() }, mStack, -1),
		arrAccessor("Queue.AsArray", bQueue, func(c any) []int { return c.(col.QueueLike[int]).AsArray() }, mQueue, -1),
		arrAccessor[AL]("Catalog.AsArray", bCat, func(c any) []AL { return c.(col.CatalogLike[string, int]).AsArray() }, mCat, nil),
		arrAccessor[AL]("Map.AsArray", bMap, func(c any) []AL { return c.(col.MapLike[string, int]).AsArray() }, mMap, nil),
	)
	// GetValues(first,last) of the accessible kinds
	out = append(out,
		seqAccessor("Array.GetValues", bArray, func(c any) col.Sequential[int] {
			a := c.(col.ArrayLike[int])
			if a.GetSize() == 0 {
				return col.List[int](N()).Make()
			}
			return a.GetValues(1, -1)
		}, mArray, -1),
		seqAccessor("List.GetValues", bList, func(c any) col.Sequential[int] {
			l := c.(col.ListLike[int])
			if l.GetSize() == 0 {
				return col.List[int](N()).Make()
			}
			return l.GetValues(1, -1)
		}, mList, -1),
		seqAccessor("Set.GetValues", bSet, func(c any) col.Sequential[int] {
			s := c.(col.SetLike[int])
			if s.GetSize() == 0 {
				return col.List[int](N()).Make()
			}
			return s.GetValues(1, -1)
		}, mSet, -1),
		seqAccessor("List.RemoveValues", bList, func(c any) col.Sequential[int] {
			l := c.(col.ListLike[int])
			if l.GetSize() < 2 {
				return col.List[int](N()).Make()
			}
			return l.RemoveValues(1, 2)
		}, mList, -1),
		seqAccessor("Catalog.GetKeys", bCat, func(c any) col.Sequential[string] { return c.(col.CatalogLike[string, int]).GetKeys() }, mCat, "zz"),
		seqAccessor("Map.GetKeys", bMap, func(c any) col.Sequential[string] { return c.(col.MapLike[string, int]).GetKeys() }, mMap, "zz"),
	)
	for n := 0; n <= 4; n++ {
		n := n
		out = append(out,
			seqAccessor(fmt.Sprintf("Catalog.GetValues(keys%d)", n), bCat, func(c any) col.Sequential[int] { return c.(col.CatalogLike[string, int]).GetValues(keyList(n)) }, mCat, -1),
			seqAccessor(fmt.Sprintf("Map.GetValues(keys%d)", n), bMap, func(c any) col.Sequential[int] { return c.(col.MapLike[string, int]).GetValues(keyList(n)) }, mMap, -1),
			seqAccessor(fmt.Sprintf("Catalog.RemoveValues(keys%d)", n), bCat, func(c any) col.Sequential[int] { return c.(col.CatalogLike[string, int]).RemoveValues(keyList(n)) }, mCat, -1),
			seqAccessor(fmt.Sprintf("Map.RemoveValues(keys%d)", n), bMap, func(c any) col.Sequential[int] { return c.(col.MapLike[string, int]).RemoveValues(keyList(n)) }, mMap, -1),
		)
	}
	return out
}

func resultAliasing(r *engine.Rec) {
	for _, acc := range accessors() {
		for n := 0; n <= maxSize(r); n++ {
			for pos := 0; pos < n || pos == 0; pos++ {
				for _, mode := range []string{"mutate-result", "mutate-collection"} {
					c := aCase{acc.name, n, pos, mode}
					if !r.Wanted(c) {
						continue
					}
					var coll any
					var mutRes func(int)
					var mutColl func()
					var resDump func() string
					out := rt.Protect(4000000, func() { coll, mutRes, mutColl, resDump = acc.run(n) })
					r.Evals++
					if out.Panicked {
						r.Violation(acc.name+" fails", out.Value, c)
						continue
					}
					if mode == "mutate-result" {
						before := dump.Dump(coll)
						mutRes(pos)
						if dump.Dump(coll) != before {
							r.Violation(acc.name+" returns the collection's own storage (mutating the result changes the collection)", fmt.Sprintf("%+v\nbefore %s\nafter  %s", c, before, dump.Dump(coll)), c)
						}
					} else {
						before := resDump()
						o := rt.Protect(4000000, mutColl)
						_ = o
						if resDump() != before {
							r.Violation(acc.name+" result changes when the collection is mutated afterwards", fmt.Sprintf("%+v before %s after %s", c, before, resDump()), c)
						}
					}
					r.Outcome(acc.name)
				}
			}
		}
	}
	r.Sample(aCase{"Set.GetValues", 3, 2, "mutate-result"})
}

// self operands: a bulk operation given the receiver itself (or a view of it)
// behaves as if a separate copy had been passed.
func selfOperands(r *engine.Rec) {
	type selfOp struct {
		name string
		run  func(n int, alias bool) (string, rt.Outcome)
	}
	L := func(a []int) col.ListLike[int] { return col.List[int](N()).MakeFromArray(a) }
	ops := []selfOp{}
	listOp := func(name string, f func(l col.ListLike[int], operand col.Sequential[int]), view func(l col.ListLike[int]) col.Sequential[int]) {
		ops = append(ops, selfOp{name, func(n int, alias bool) (string, rt.Outcome) {
			l := L(mk(n))
			var operand col.Sequential[int] = L(mk(n))
			if alias {
				operand = view(l)
			}
			o := rt.Protect(4000000, func() { f(l, operand) })
			return fmt.Sprint(l.AsArray()), o
		}})
	}
	self := func(l col.ListLike[int]) col.Sequential[int] { return l }
	viewAll := func(l col.ListLike[int]) col.Sequential[int] {
		if l.GetSize() == 0 {
			return l
		}
		return l.GetValues(1, -1)
	}
	for vname, view := range map[string]func(l col.ListLike[int]) col.Sequential[int]{"self": self, "self.GetValues(1,-1)": viewAll} {
		view := view
		listOp("List.AppendValues("+vname+")", func(l col.ListLike[int], o col.Sequential[int]) { l.AppendValues(o) }, view)
		listOp("List.InsertValues(0,"+vname+")", func(l col.ListLike[int], o col.Sequential[int]) { l.InsertValues(0, o) }, view)
		listOp("List.InsertValues(1,"+vname+")", func(l col.ListLike[int], o col.Sequential[int]) {
			if l.GetSize() >= 1 {
				l.InsertValues(1, o)
			}
		}, view)
		listOp("List.SetValues(1,"+vname+")", func(l col.ListLike[int], o col.Sequential[int]) {
			if l.GetSize() >= 1 {
				l.SetValues(1, o)
			}
		}, view)
	}
	ops = append(ops, selfOp{"Array.SetValues(1,self)", func(n int, alias bool) (string, rt.Outcome) {
		a := col.Array[int](N()).MakeFromArray(mk(n))
		var operand col.Sequential[int] = col.Array[int](N()).MakeFromArray(mk(n))
		if alias {
			operand = a
		}
		o := rt.Protect(4000000, func() {
			if n > 0 {
				a.SetValues(1, operand)
			}
		})
		return fmt.Sprint(a.AsArray()), o
	}})
	ops = append(ops, selfOp{"Array.SetValues(2,self.GetValues(1,-2))", func(n int, alias bool) (string, rt.Outcome) {
		a := col.Array[int](N()).MakeFromArray(mk(n))
		b := col.Array[int](N()).MakeFromArray(mk(n))
		o := rt.Protect(4000000, func() {
			if n >= 2 {
				src := b
				if alias {
					src = a
				}
				a.SetValues(2, src.GetValues(1, -2))
			}
		})
		return fmt.Sprint(a.AsArray()), o
	}})
	setOp := func(name string, f func(s col.SetLike[int], operand col.Sequential[int])) {
		ops = append(ops, selfOp{name, func(n int, alias bool) (string, rt.Outcome) {
			s := col.Set[int](N()).MakeFromArray(mk(n))
			var operand col.Sequential[int] = col.Set[int](N()).MakeFromArray(mk(n))
			if alias {
				operand = s
			}
			o := rt.Protect(4000000, func() { f(s, operand) })
			return fmt.Sprint(s.AsArray()), o
		}})
	}
	setOp("Set.AddValues(self)", func(s col.SetLike[int], o col.Sequential[int]) { s.AddValues(o) })
	setOp("Set.RemoveValues(self)", func(s col.SetLike[int], o col.Sequential[int]) { s.RemoveValues(o) })
	ops = append(ops, selfOp{"Catalog.RemoveValues(self.GetKeys())", func(n int, alias bool) (string, rt.Outcome) {
		c := col.Catalog[string, int](N()).MakeFromArray(mkAssocs(n))
		d := col.Catalog[string, int](N()).MakeFromArray(mkAssocs(n))
		var res col.Sequential[int]
		o := rt.Protect(4000000, func() {
			src := d
			if alias {
				src = c
			}
			res = c.RemoveValues(src.GetKeys())
		})
		if res == nil {
			return "nil", o
		}
		return fmt.Sprint(res.AsArray(), c.GetSize()), o
	}})
	ops = append(ops, selfOp{"Map.RemoveValues(self.GetKeys())", func(n int, alias bool) (string, rt.Outcome) {
		c := col.Map[string, int](N()).MakeFromMap(mkMap(n))
		d := col.Map[string, int](N()).MakeFromMap(mkMap(n))
		o := rt.Protect(4000000, func() {
			src := d
			if alias {
				src = c
			}
			c.RemoveValues(src.GetKeys())
		})
		return fmt.Sprint(c.GetSize()), o
	}})
	for _, op := range ops {
		for n := 0; n <= maxSize(r); n++ {
			c := aCase{op.name, n, 0, "self-operand"}
			if !r.Wanted(c) {
				continue
			}
			want, o1 := op.run(n, false)
			got, o2 := op.run(n, true)
			r.Evals += 2
			switch {
			case o2.Fuel:
				r.Violation(op.name+" does not terminate", fmt.Sprint(c), c)
			case o1.Panicked != o2.Panicked:
				r.Violation(op.name+" panics only with the aliased operand (or only with the copy)", fmt.Sprintf("copy: %v %s; aliased: %v %s", o1.Panicked, o1.Value, o2.Panicked, o2.Value), c)
			case got != want:
				r.Violation(op.name+" differs from the same call with a separate copy", fmt.Sprintf("n=%d aliased %s copy %s", n, got, want), c)
			}
			r.Outcome(op.name)
		}
	}
	r.Sample(aCase{"List.InsertValues(1,self)", 3, 0, "self-operand"})
}

func finish(f func(r *engine.Rec)) func(r *engine.Rec) {
	return func(r *engine.Rec) {
		f(r)
		r.States += r.Evals
		r.Transitions += r.Evals
		r.Distinct += r.Evals
	}
}

func init() {
	engine.Register(&engine.Check{
		ID:        "C18",
		Technique: "bounded-exhaustive enumeration of the aliasing matrix on the real code: every entry point accepting or returning a Go array, Go map or sequence (7 kinds) x sizes 0..4 x every position x {mutate argument after call, mutate result, mutate collection after obtaining the result}, observed through the private-state dump; every bulk operation with the receiver (or a view of it) as operand compared with the same call on an independent copy",
		Rule:      "case = (entry point, size, position, mode)",
		Assume:    []string{"association objects handed out by Catalog.AsArray/iterators are live handles by design; constructors must not keep the caller's association objects (checked)"},
		Budget:    func(string) time.Duration { return 2 * time.Minute },
		Units: func(tier string) []engine.Unit {
			us := []engine.Unit{{Name: "constructors", Run: finish(constructorAliasing)}, {Name: "results", Run: finish(resultAliasing)}, {Name: "self-operands", Run: finish(selfOperands)}, {Name: "large-views", Run: largeViews}, {Name: "class-functions", Run: classFunctions}}
			// the sequence of output queues returned by Queue.Fork/Split, modified by the caller while the helper goroutine runs (every schedule)
			return append(us, c06.ReturnedSequenceUnits(tier)...)
		},
	})
}
