package c18

import (
	"fmt"

	col "github.com/craterdog/go-collection-framework/v4/collection"
	rt "github.com/craterdog/go-collection-framework/v4/verifrt"
	"verif/checks/common"
	"verif/engine"
)

// classFunctions: "a sequence returned by a class function shares no storage"
// with its operands - for every class function that takes collections and
// returns one (List.Concatenate; Set.And, Or, Sans, Xor; Catalog.Merge,
// Extract), every combination of operand sizes 0..3 (an empty operand is where
// a short cut would hand an operand back), and the same object passed twice:
// the result is an object of its own; changing the result leaves the operands
// as they were, and changing either operand leaves the result as it was.

type cfCase struct {
	Fn    string `json:"function"`
	A     int    `json:"size_a"`
	B     int    `json:"size_b"`
	Alias bool   `json:"same_object_twice,omitempty"`
	Step  string `json:"then"`
}

func classFunctions(r *engine.Rec) {
	N := common.N
	L, S, C := col.List[int](N()), col.Set[int](N()), col.Catalog[string, int](N())
	ints := func(n, base int) []int {
		out := make([]int, n)
		for i := range out {
			out[i] = base + i
		}
		return out
	}
	cat := func(n, base int) col.CatalogLike[string, int] {
		c := C.Make()
		for i := 0; i < n; i++ {
			c.SetValue(string(rune('a'+(base+i)%5)), base+i)
		}
		return c
	}
	type mut struct {
		who int // 0 = first operand, 1 = second operand, 2 = result
		f   func()
	}
	type triple struct {
		a, b, res any
		mutate    map[string]mut
	}
	fns := map[string]func(na, nb int, alias bool) triple{}
	for _, name := range []string{"And", "Or", "Sans", "Xor"} {
		name := name
		fns["Set."+name] = func(na, nb int, alias bool) triple {
			a, b := S.MakeFromArray(ints(na, 1)), S.MakeFromArray(ints(nb, 2))
			if alias {
				b = a
			}
			var res col.SetLike[int]
			switch name {
			case "And":
				res = S.And(a, b)
			case "Or":
				res = S.Or(a, b)
			case "Sans":
				res = S.Sans(a, b)
			default:
				res = S.Xor(a, b)
			}
			return triple{a, b, res, map[string]mut{
				"add to the result": {2, func() { res.AddValue(99) }}, "empty the result": {2, func() { res.RemoveAll() }},
				"add to a": {0, func() { a.AddValue(98) }}, "empty a": {0, func() { a.RemoveAll() }},
				"add to b": {1, func() { b.AddValue(97) }}, "empty b": {1, func() { b.RemoveAll() }}}}
		}
	}
	fns["List.Concatenate"] = func(na, nb int, alias bool) triple {
		a, b := L.MakeFromArray(ints(na, 1)), L.MakeFromArray(ints(nb, 11))
		if alias {
			b = a
		}
		res := L.Concatenate(a, b)
		return triple{a, b, res, map[string]mut{
			"append to the result": {2, func() { res.AppendValue(99) }}, "empty the result": {2, func() { res.RemoveAll() }},
			"overwrite in the result": {2, func() {
				if res.GetSize() > 0 {
					res.SetValue(1, 96)
					res.ReverseValues()
				}
			}},
			"append to a": {0, func() { a.AppendValue(98) }}, "overwrite in a": {0, func() {
				if a.GetSize() > 0 {
					a.SetValue(1, 95)
				}
			}},
			"append to b": {1, func() { b.AppendValue(97) }}, "empty b": {1, func() { b.RemoveAll() }}}}
	}
	fns["Catalog.Merge"] = func(na, nb int, alias bool) triple {
		a, b := cat(na, 0), cat(nb, 1)
		if alias {
			b = a
		}
		res := C.Merge(a, b)
		return triple{a, b, res, map[string]mut{
			"set in the result": {2, func() { res.SetValue("z", 99) }}, "empty the result": {2, func() { res.RemoveAll() }},
			"set in a": {0, func() { a.SetValue("y", 98) }}, "update in a": {0, func() { a.SetValue("a", 90) }}, "empty a": {0, func() { a.RemoveAll() }},
			"set in b": {1, func() { b.SetValue("x", 97) }}, "update in b": {1, func() { b.SetValue("b", 91) }}, "empty b": {1, func() { b.RemoveAll() }}}}
	}
	fns["Catalog.Extract"] = func(na, nb int, alias bool) triple {
		a := cat(na, 0)
		keys := col.List[string](N()).MakeFromArray([]string{"c", "a", "q", "b"}[:nb])
		res := C.Extract(a, keys)
		return triple{a, keys, res, map[string]mut{
			"set in the result": {2, func() { res.SetValue("z", 99) }}, "empty the result": {2, func() { res.RemoveAll() }},
			"update in the result": {2, func() { res.SetValue("a", 93) }},
			"set in the catalog":   {0, func() { a.SetValue("y", 98) }}, "update in the catalog": {0, func() { a.SetValue("a", 90) }}, "empty the catalog": {0, func() { a.RemoveAll() }},
			"append to the keys": {1, func() { keys.AppendValue("a") }}, "empty the keys": {1, func() { keys.RemoveAll() }}}}
	}
	cases := 0
	for fname, build := range fns {
		for na := 0; na <= 3; na++ {
			for nb := 0; nb <= 3; nb++ {
				for _, alias := range []bool{false, true} {
					if alias && (na != nb || fname == "Catalog.Extract") {
						continue
					}
					var names []string
					o := rt.Protect(1000000, func() {
						for n := range build(na, nb, alias).mutate {
							names = append(names, n)
						}
					})
					if o.Panicked {
						continue // the function itself is decided by C15/C16
					}
					for _, step := range names {
						c := cfCase{fname, na, nb, alias, step}
						if !r.Wanted(c) {
							continue
						}
						cases++
						var bad string
						o := rt.Protect(1000000, func() {
							t := build(na, nb, alias)
							if common.SameObject(t.res, t.a) || common.SameObject(t.res, t.b) {
								bad = "the result is one of the operands"
								return
							}
							before := [3]string{common.View(t.a), common.View(t.b), common.View(t.res)}
							m := t.mutate[step]
							m.f()
							after := [3]string{common.View(t.a), common.View(t.b), common.View(t.res)}
							touched := map[int]bool{m.who: true}
							if alias && m.who < 2 {
								touched[0], touched[1] = true, true
							}
							for i, what := range []string{"the first operand", "the second operand", "the result"} {
								if !touched[i] && before[i] != after[i] {
									bad = fmt.Sprintf("%s changes (%s -> %s)", what, before[i], after[i])
								}
							}
						})
						r.Evals++
						if !o.Panicked && !o.Fuel && bad != "" {
							r.Violation("the collection returned by "+fname+" shares storage with an operand (or is one)", fmt.Sprintf("%+v: %s", c, bad), c)
						}
					}
				}
			}
		}
	}
	r.States += int64(cases)
	r.Distinct += int64(cases)
	r.Transitions += r.Evals
	r.Sample(cfCase{"Set.Or", 2, 0, false, "add to the result"})
}
