package c18

import (
	"fmt"
	"reflect"

	age "github.com/craterdog/go-collection-framework/v4/agent"
	col "github.com/craterdog/go-collection-framework/v4/collection"
	rt "github.com/craterdog/go-collection-framework/v4/verifrt"
	"verif/checks/common"
	"verif/engine"
)

// largeViews: the small-size matrix cannot reach storage that is only shared
// above a threshold (a pooled sort buffer, a growth policy). For every size
// 2..140: arrays and sequences handed out by a collection must keep their
// contents when the collection - or another collection of the same element
// type - is sorted, reversed, extended or emptied afterwards.
type largeCase struct {
	Kind string `json:"kind"`
	N    int    `json:"n"`
	Then string `json:"then"`
}

func largeViews(r *engine.Rec) {
	N := common.N
	maxN := 140
	if r.Tier == "thorough" {
		maxN = 600
	}
	for n := 2; n <= maxN; n++ {
		vals := make([]int, n)
		for i := range vals {
			vals[i] = (n - i) * 3
		}
		other := make([]int, n)
		for i := range other {
			other[i] = 500000 + (n-i)*3
		}
		for _, kind := range []string{"List", "Array", "Set", "Stack"} {
			thens := map[string]func(x, y any){
				"sort this collection, then another one": func(x, y any) {
					if s, ok := x.(col.Sortable[int]); ok {
						s.SortValues()
					}
					if s, ok := y.(col.Sortable[int]); ok {
						s.SortValues()
					}
				},
				"sort another collection twice": func(x, y any) {
					if s, ok := y.(col.Sortable[int]); ok {
						s.SortValues()
						s.ReverseValues()
						s.SortValues()
					}
				},
				"reverse and shuffle this collection": func(x, y any) {
					if s, ok := x.(col.Sortable[int]); ok {
						s.ReverseValues()
						s.ShuffleValues()
					}
				},
			}
			for tn, then := range thens {
				c := largeCase{kind, n, tn}
				if !r.Wanted(c) {
					continue
				}
				mk := func(v []int) any {
					switch kind {
					case "List":
						return col.List[int](N()).MakeFromArray(append([]int(nil), v...))
					case "Array":
						return col.Array[int](N()).MakeFromArray(append([]int(nil), v...))
					case "Set":
						return col.Set[int](N()).MakeFromArray(append([]int(nil), v...))
					}
					return col.Stack[int](N()).MakeFromArray(append([]int(nil), v...))
				}
				x, y := mk(vals), mk(other)
				seq := x.(col.Sequential[int])
				arr := seq.AsArray()
				want := append([]int(nil), arr...)
				var part []int
				var wantPart []int
				if acc, ok := x.(col.Accessible[int]); ok {
					part = acc.GetValues(2, -1).AsArray()
					wantPart = append([]int(nil), part...)
				}
				out := rt.Protect(80000000, func() { then(x, y) })
				r.Evals++
				arrOK := reflect.DeepEqual(arr, want)
				partOK := part == nil || reflect.DeepEqual(part, wantPart)
				// ... and modifying what was handed out (sorting the returned arrays, writing into them) must not change the collections
				xv, yv := common.View(x), common.View(y)
				out2 := rt.Protect(80000000, func() {
					age.Sorter[int]().Make().SortValues(arr)
					age.Sorter[int]().Make().ReverseValues(arr)
					if part != nil {
						age.Sorter[int]().Make().SortValues(part)
					}
					for i := range arr {
						arr[i] = -1
					}
				})
				if !out.Panicked && !out2.Panicked && (common.View(x) != xv || common.View(y) != yv) {
					r.Violation(kind+": sorting or overwriting a returned array changes a collection (large collections)", fmt.Sprintf("%+v", c), c)
					continue
				}
				switch {
				case out.Panicked || out.Fuel:
					r.Violation(kind+": "+tn+" fails (large collections)", fmt.Sprintf("%+v: %s", c, out.Value), c)
				case !arrOK:
					r.Violation(kind+".AsArray result changes when collections are reordered afterwards (large collections)", fmt.Sprintf("%+v", c), c)
				case !partOK:
					r.Violation(kind+".GetValues result changes when collections are reordered afterwards (large collections)", fmt.Sprintf("%+v", c), c)
				}
			}
		}
	}
	r.States += int64(maxN)
	r.Distinct += int64(maxN)
	r.Transitions += r.Evals
	r.Sample(largeCase{"List", 100, "sort this collection, then another one"})
}
