package c06

import (
	"fmt"
	"reflect"
	"strings"

	col "github.com/craterdog/go-collection-framework/v4/collection"
	rt "github.com/craterdog/go-collection-framework/v4/verifrt"
	"verif/checks/common"
	"verif/engine"
	"verif/engine/schedx"
)

// Two fan-outs of one element type alive at the same time - side by side, or
// the second fed by an output of the first. Each must route its own stream to
// its own outputs whatever the other does: the class that Fork and Split
// belong to is shared by all queues of the element type. The streams fit the
// capacity, so the caller drains the outputs after its wait group has returned.

type twoFan struct {
	Name    string
	A, B    string // Fork | Split
	NA, NB  int
	L       int
	Chained bool // the second fan-out reads the first output of the first
}

func (s twoFan) String() string {
	if s.Chained {
		return fmt.Sprintf("%s(n=%d) whose first output feeds %s(n=%d), stream=%d", s.A, s.NA, s.B, s.NB, s.L)
	}
	return fmt.Sprintf("%s(n=%d) and %s(n=%d) side by side, streams of %d", s.A, s.NA, s.B, s.NB, s.L)
}

func expected(fn string, input []int, n int) [][]int {
	out := make([][]int, n)
	for j := 0; j < n; j++ {
		if fn == "Fork" {
			out[j] = append([]int{}, input...)
			continue
		}
		out[j] = []int{}
		for i := j; i < len(input); i += n {
			out[j] = append(out[j], input[i])
		}
	}
	return out
}

func (s twoFan) program() rt.Program {
	return func() ([]rt.ThreadSpec, func(*rt.Exec) []string) {
		Q := col.Queue[int](common.N())
		capacity := uint(s.L + 1)
		inA, inB := Q.MakeWithCapacity(capacity), Q.MakeWithCapacity(capacity)
		var wg rt.WaitGroup
		var gotA, gotB [][]int
		mainDone := false
		fan := func(fn string, in col.QueueLike[int], n int) []col.QueueLike[int] {
			if fn == "Fork" {
				return Q.Fork(&wg, in, uint(n)).AsArray()
			}
			return Q.Split(&wg, in, uint(n)).AsArray()
		}
		// the wait group has returned, so everything is delivered and every output closed: the caller reads each
		// output to its end; an output left open parks the caller, which the scheduler reports
		drain := func(qs []col.QueueLike[int]) [][]int {
			out := make([][]int, len(qs))
			for j, q := range qs {
				out[j] = []int{}
				for {
					v, ok := q.RemoveHead()
					if !ok {
						break
					}
					out[j] = append(out[j], v)
				}
			}
			return out
		}
		threads := []rt.ThreadSpec{
			{Name: "main", Body: func() {
				outsA := fan(s.A, inA, s.NA)
				src := inB
				if s.Chained {
					src = outsA[0]
				}
				outsB := fan(s.B, src, s.NB)
				wg.Wait()
				if s.Chained {
					gotA = drain(outsA[1:])
				} else {
					gotA = drain(outsA)
				}
				gotB = drain(outsB)
				mainDone = true
			}},
			{Name: "feederA", Body: func() {
				for i := 1; i <= s.L; i++ {
					inA.AddValue(i)
				}
				inA.CloseQueue()
			}},
		}
		if !s.Chained {
			threads = append(threads, rt.ThreadSpec{Name: "feederB", Body: func() {
				for i := 1; i <= s.L; i++ {
					inB.AddValue(100 + i)
				}
				inB.CloseQueue()
			}})
		}
		judge := func(ex *rt.Exec) []string {
			var what []string
			add := func(kind, detail string) { what = append(what, kind+"\x00"+detail) }
			for _, r := range ex.Races {
				add(common.RaceSig(r), r.String())
			}
			for _, p := range ex.Panics {
				add("goroutine died: "+common.PanicClass(p.Value), p.Name+": "+p.Value)
			}
			if len(ex.Stuck) > 0 {
				add("streams do not terminate: "+strings.Join(ex.SortedStuck(), ","), s.String())
				return what
			}
			if !mainDone {
				return what
			}
			var a, b []int
			for i := 1; i <= s.L; i++ {
				a = append(a, i)
				b = append(b, 100+i)
			}
			wantA := expected(s.A, a, s.NA)
			if s.Chained {
				b = wantA[0]
				wantA = wantA[1:]
			}
			wantB := expected(s.B, b, s.NB)
			if !reflect.DeepEqual(gotA, wantA) || !reflect.DeepEqual(gotB, wantB) {
				add("an output of one of two simultaneous fan-outs differs from its expected stream", fmt.Sprintf("%s: first got %v want %v, second got %v want %v", s, gotA, wantA, gotB, wantB))
			}
			return what
		}
		return threads, judge
	}
}

func twoFanUnits(tier string) []engine.Unit {
	var us []engine.Unit
	cases := []twoFan{
		{A: "Fork", NA: 3, B: "Fork", NB: 2, L: 1},
		{A: "Fork", NA: 2, B: "Fork", NB: 2, L: 2},
		{A: "Split", NA: 3, B: "Split", NB: 2, L: 2},
		{A: "Split", NA: 2, B: "Fork", NB: 2, L: 1},
		{A: "Fork", NA: 2, B: "Split", NB: 2, L: 1},
		{A: "Fork", NA: 2, B: "Fork", NB: 2, L: 1, Chained: true},
		{A: "Fork", NA: 3, B: "Split", NB: 2, L: 2, Chained: true},
		{A: "Split", NA: 2, B: "Fork", NB: 2, L: 2, Chained: true},
	}
	for _, c := range cases {
		c := c
		c.Name = "two-fan-outs: " + c.String()
		us = append(us, engine.Unit{Name: c.Name, Early: true, Run: func(r *engine.Rec) {
			o := schedx.Opts{Name: c.Name, Desc: c.String(), SigPrefix: "two fan-outs: ", CapA: 60000, Bounds: []int{0, 1}, CapB: 30000}
			if r.Tier == "thorough" {
				o.CapA, o.Bounds, o.CapB = 2000000, []int{0, 1, 2}, 1000000
			}
			schedx.Explore(r, c.program(), o)
		}})
	}
	return us
}
