// Package c06: Fork, Split and Join conserve, order and terminate streams.
package c06

import (
	"fmt"
	"reflect"
	"strings"
	"time"

	col "github.com/craterdog/go-collection-framework/v4/collection"
	rt "github.com/craterdog/go-collection-framework/v4/verifrt"
	"verif/checks/common"
	"verif/engine"
	"verif/engine/schedx"
)

type scenario struct {
	Name     string
	Fn       string // Fork | Split | SplitJoin
	L        int
	N        int
	Capacity int
	Peek     bool // readers look at IsEmpty()/GetSize() before every RemoveHead (a polling reader)
	// Mutate: the caller modifies the sequence of outputs that Fork/Split returned (after noting which queues
	// it holds) - at once, or after the first value has come through. The sequence is the caller's: what the
	// helper routes to must not depend on it (C18). "" | "RemoveAll" | "Reverse" | "RemoveAll-later" | "Reverse-later"
	Mutate string
}

func (s scenario) String() string {
	peek := ""
	if s.Peek {
		peek = " (readers poll IsEmpty/GetSize)"
	}
	if s.Mutate != "" {
		peek += " (the caller applies " + s.Mutate + " to the returned sequence)"
	}
	return fmt.Sprintf("%s(n=%d) stream=%d capacity=%d%s", s.Fn, s.N, s.L, s.Capacity, peek)
}

func scenarios(tier string) []scenario {
	var out []scenario
	maxL := 3
	if tier == "thorough" {
		maxL = 4
	}
	for _, fn := range []string{"Fork", "Split", "SplitJoin"} {
		for _, n := range []int{2, 3} {
			for _, c := range []int{1, 2} {
				for l := 0; l <= maxL; l++ {
					if tier != "thorough" && ((n == 3 && l > 2) || (fn != "Split" && c == 2 && l > 2) || (fn == "Fork" && n == 3 && l > 1)) {
						continue // the larger scenarios need the thorough tier's caps to be covered completely
					}
					s := scenario{Fn: fn, L: l, N: n, Capacity: c}
					s.Name = fmt.Sprintf("%s-n%d-c%d-L%d", fn, n, c, l)
					out = append(out, s)
					if n == 2 && l >= 1 && ((l == 1 && c == 1) || (l <= 2 && tier == "thorough")) {
						p := s
						p.Peek = true
						p.Name += "-peeking-readers"
						out = append(out, p)
					}
				}
			}
		}
	}
	return out
}

func (s scenario) program() rt.Program {
	return func() ([]rt.ThreadSpec, func(*rt.Exec) []string) {
		Q := col.Queue[int](common.N())
		input := Q.MakeWithCapacity(uint(s.Capacity))
		var wg rt.WaitGroup    // the caller's group handed to the library
		var ready rt.WaitGroup // outputs published
		ready.Add(1)
		var outputs []col.QueueLike[int]
		got := make([][]int, s.N)
		afterClose := make([]bool, s.N)
		var joined col.QueueLike[int]
		mainDone := false
		helpersAliveAtWait := 0
		var mutate func() // pending modification of the returned sequence (applied by the first reader after its first value)
		var threads []rt.ThreadSpec
		threads = append(threads, rt.ThreadSpec{Name: "main", Body: func() {
			switch s.Fn {
			case "Fork", "Split":
				var outs col.Sequential[col.QueueLike[int]]
				if s.Fn == "Fork" {
					outs = Q.Fork(&wg, input, uint(s.N))
				} else {
					outs = Q.Split(&wg, input, uint(s.N))
				}
				outputs = outs.AsArray()
				if s.Mutate != "" {
					mutate = func() {
						if l, ok := outs.(col.ListLike[col.QueueLike[int]]); ok {
							if strings.HasPrefix(s.Mutate, "RemoveAll") {
								l.RemoveAll()
							} else {
								l.ReverseValues()
							}
						} else if a, ok := outs.(col.ArrayLike[col.QueueLike[int]]); ok {
							a.ReverseValues()
						}
					}
					if !strings.HasSuffix(s.Mutate, "-later") {
						mutate()
						mutate = nil
					}
				}
			case "SplitJoin":
				outs := Q.Split(&wg, input, uint(s.N))
				outputs = outs.AsArray()
				joined = Q.Join(&wg, outs)
				if s.Mutate != "" {
					// the sequence handed to Join is the caller's again as soon as Join has returned
					if l, ok := outs.(col.ListLike[col.QueueLike[int]]); ok {
						if strings.HasPrefix(s.Mutate, "RemoveAll") {
							l.RemoveAll()
						} else {
							l.ReverseValues()
						}
					}
				}
			}
			ready.Done()
			wg.Wait()
			helpersAliveAtWait = rt.LiveLibraryThreads()
			mainDone = true
		}})
		threads = append(threads, rt.ThreadSpec{Name: "feeder", Body: func() {
			for i := 1; i <= s.L; i++ {
				input.AddValue(i)
			}
			input.CloseQueue()
		}})
		readers := s.N
		if s.Fn == "SplitJoin" {
			readers = 1
		}
		for j := 0; j < readers; j++ {
			j := j
			threads = append(threads, rt.ThreadSpec{Name: fmt.Sprintf("reader%d", j), Body: func() {
				ready.Wait()
				q := joined
				if s.Fn != "SplitJoin" {
					q = outputs[j]
				}
				for {
					if s.Peek {
						q.IsEmpty()
						q.GetSize()
					}
					v, ok := q.RemoveHead()
					if !ok {
						break
					}
					got[j] = append(got[j], v)
					if j == 0 && mutate != nil {
						mutate()
						mutate = nil
					}
				}
				if v, ok := q.RemoveHead(); ok { // nothing may be delivered after closure
					afterClose[j] = true
					got[j] = append(got[j], v)
				}
			}})
		}
		judge := func(ex *rt.Exec) []string {
			var what []string
			add := func(kind, detail string) { what = append(what, kind+"\x00"+detail) }
			for _, r := range ex.Races {
				add(common.RaceSig(r), r.String())
			}
			for _, p := range ex.Panics {
				add("goroutine died: "+common.PanicClass(p.Value), p.Name+": "+p.Value)
			}
			if len(ex.Stuck) > 0 {
				add("streams do not terminate: "+strings.Join(ex.SortedStuck(), ","), fmt.Sprintf("%s: got %v", s, got))
				return what
			}
			if !mainDone {
				add("the caller's wait group never returns to zero", s.String())
			}
			if helpersAliveAtWait > 0 {
				add("the caller's wait group returns while a helper goroutine has not finished", fmt.Sprintf("%s: %d helper goroutines still running when Wait() returned", s, helpersAliveAtWait))
			}
			var input []int
			for i := 1; i <= s.L; i++ {
				input = append(input, i)
			}
			same := func(a, b []int) bool { return (len(a) == 0 && len(b) == 0) || reflect.DeepEqual(a, b) }
			for j := 0; j < readers; j++ {
				if afterClose[j] {
					add("a value is delivered after the output was closed", fmt.Sprintf("%s reader %d: %v", s, j, got[j]))
				}
				var want []int
				switch s.Fn {
				case "Fork", "SplitJoin":
					want = input
				case "Split":
					for i := j; i < s.L; i += s.N {
						want = append(want, input[i])
					}
				}
				if !same(got[j], want) {
					add(s.Fn+" output differs from the expected stream", fmt.Sprintf("%s output %d: got %v want %v", s, j, got[j], want))
				}
			}
			return what
		}
		return threads, judge
	}
}

// ReturnedSequenceUnits are the scenarios in which the caller modifies the
// sequence that Fork or Split returned (registered under C18, which states that
// a sequence returned by a class function shares no storage with the collection).
func ReturnedSequenceUnits(tier string) []engine.Unit {
	var us []engine.Unit
	for _, fn := range []string{"Fork", "Split", "SplitJoin"} {
		for _, m := range []string{"RemoveAll", "Reverse", "RemoveAll-later", "Reverse-later"} {
			for _, l := range []int{1, 2} {
				if strings.HasSuffix(m, "-later") && (l < 2 || fn == "SplitJoin") {
					continue
				}
				if fn == "SplitJoin" && l == 1 && tier != "thorough" {
					continue
				}
				if l == 2 && fn == "Fork" && tier != "thorough" && !strings.HasSuffix(m, "-later") {
					continue
				}
				s := scenario{Fn: fn, L: l, N: 2, Capacity: 1, Mutate: m}
				s.Name = fmt.Sprintf("%s-returned-sequence-%s-L%d", fn, m, l)
				us = append(us, engine.Unit{Name: s.Name, Run: func(r *engine.Rec) { explore(r, s) }})
			}
		}
	}
	return us
}

func explore(r *engine.Rec, s scenario) {
	o := schedx.Opts{Name: s.Name, Desc: s.String(), SigPrefix: s.Fn + ": ", CapA: 250000, Bounds: []int{0, 1, 2}, CapB: 60000}
	if r.Tier == "thorough" {
		o.CapA, o.Bounds, o.CapB = 8000000, []int{0, 1, 2, 3}, 2000000
	}
	schedx.Explore(r, s.program(), o)
}

func invalid(r *engine.Rec) {
	Q := col.Queue[int](common.N())
	type ic struct {
		Fn   string `json:"fn"`
		Size int    `json:"size"`
	}
	for _, c := range []ic{{"Fork", 0}, {"Fork", 1}, {"Split", 0}, {"Split", 1}, {"Join", 0}} {
		if !r.Wanted(c) {
			continue
		}
		var wg rt.WaitGroup
		var out rt.Outcome
		ex := rt.RunOnce(rt.Config{Elide: true}, nil, []rt.ThreadSpec{{Name: "caller", Body: func() {
			out = rt.Protect(1000000, func() {
				in := Q.MakeWithCapacity(1)
				switch c.Fn {
				case "Fork":
					Q.Fork(&wg, in, uint(c.Size))
				case "Split":
					Q.Split(&wg, in, uint(c.Size))
				case "Join":
					Q.Join(&wg, col.List[col.QueueLike[int]](common.N()).Make())
				}
			})
		}}})
		r.Evals++
		r.States++
		r.Transitions++
		if !out.Panicked {
			r.Violation(c.Fn+" accepts an invalid fan-out", fmt.Sprintf("%+v returned normally", c), c)
		}
		if ex.Threads > 1 {
			r.Violation(c.Fn+" spawns a goroutine before rejecting an invalid fan-out", fmt.Sprintf("%+v", c), c)
		}
	}
	r.Distinct += 5
	r.Sample(map[string]any{"invalid": "Fork(size=1), Split(size=0), Join(empty)"})
}

func init() {
	engine.Register(&engine.Check{
		ID:        "C06",
		Technique: "stateless model checking of the real Fork/Split/Join helper goroutines under the cooperative scheduler: every schedule of {caller, feeder, library helpers, one reader per output} up to a preemption bound (and all interleavings where that completes), race detection on every execution, stream oracles",
		Rule:      "case = one complete schedule of one scenario (function, fan-out, stream length, capacity); distinct = distinct (stuck-set, panic) outcomes",
		Assume:    []string{"stream lengths 0..3 (4 thorough), fan-out 2..3, capacity 1..2", "the randomized stress clause (sampling) is not a deciding step"},
		Budget: func(tier string) time.Duration {
			if tier == "thorough" {
				return 25 * time.Minute
			}
			return 5 * time.Minute
		},
		Units: func(tier string) []engine.Unit {
			var us []engine.Unit
			for _, s := range scenarios(tier) {
				s := s
				us = append(us, engine.Unit{Name: s.Name, Run: func(r *engine.Rec) { explore(r, s) }})
			}
			us = append(us, twoFanUnits(tier)...)
			us = append(us, engine.Unit{Name: "invalid-fan-out", Early: true, Run: invalid})
			return us
		},
	})
}
