package c07

import (
	"fmt"

	age "github.com/craterdog/go-collection-framework/v4/agent"
	col "github.com/craterdog/go-collection-framework/v4/collection"
	rt "github.com/craterdog/go-collection-framework/v4/verifrt"
	"verif/checks/common"
	"verif/engine"
)

// "An undefined value (nil) ranks before every defined one" - also where the
// nil sits inside a collection, at the position that decides the comparison.

type nilCase struct {
	Wrap    string `json:"position"`
	Defined string `json:"defined_value"`
}

func nilFirst(which string) func(r *engine.Rec) {
	return func(r *engine.Rec) {
		N := common.N
		x, y := 5, 6
		defined := map[string]any{
			"false": false, "int64(0)": int64(0), "int64(-3)": int64(-3), "empty string": "", "1.5": 1.5, "rune 0": rune(0),
			"empty []any": []any{}, "empty map": map[string]any{}, "empty List": col.List[any](N()).Make(), "pointer": &x,
		}
		wraps := map[string]func(v any) any{
			"item of []any":                  func(v any) any { return []any{v} },
			"second item of []any":           func(v any) any { return []any{int64(1), v} },
			"item of List[any]":              func(v any) any { return col.List[any](N()).MakeFromArray([]any{v}) },
			"second item of List[any]":       func(v any) any { return col.List[any](N()).MakeFromArray([]any{"a", v}) },
			"item of Stack[any]":             func(v any) any { return col.Stack[any](N()).MakeFromArray([]any{v}) },
			"value in map[string]any":        func(v any) any { return map[string]any{"k": v} },
			"value in Catalog[string,any]":   func(v any) any { c := col.Catalog[string, any](N()).Make(); c.SetValue("k", v); return c },
			"value in Map[string,any]":       func(v any) any { m := col.Map[string, any](N()).Make(); m.SetValue("k", v); return m },
			"item of []any inside List[any]": func(v any) any { return col.List[any](N()).MakeFromArray([]any{[]any{v}}) },
			"value of the second association": func(v any) any {
				c := col.Catalog[string, any](N()).Make()
				c.SetValue("a", int64(1))
				c.SetValue("b", v)
				return c
			},
		}
		coll := age.Collator[any]().Make()
		for wn, w := range wraps {
			for dn, d := range defined {
				c := nilCase{wn, dn}
				if !r.Wanted(c) {
					continue
				}
				a, b := w(nil), w(d)
				var r1, r2 age.Rank
				var eq bool
				o := rt.Protect(fuel, func() { r1 = coll.RankValues(a, b); r2 = coll.RankValues(b, a); eq = coll.CompareValues(a, b) })
				r.Evals += 3
				switch {
				case o.Panicked || o.Fuel:
					r.Violation("ranking a nil against a defined value inside a collection fails", fmt.Sprintf("%+v: %s", c, o.Value), c)
				case which == "C07" && (r1 != age.LesserRank || r2 != age.GreaterRank):
					r.Violation("an undefined value (nil) inside a collection does not rank before a defined one", fmt.Sprintf("%+v: rank(nil side, defined side) = %v, reversed = %v", c, r1, r2), c)
				case which == "C08" && eq:
					r.Violation("a collection holding nil compares equal to one holding a defined value", fmt.Sprintf("%+v", c), c)
				}
			}
		}
		// typed nil pointers under a typed collator
		pc := age.Collator[*int]().Make()
		var np *int
		var r1, r2, r3 age.Rank
		o := rt.Protect(fuel, func() { r1 = pc.RankValues(np, &x); r2 = pc.RankValues(&y, np); r3 = pc.RankValues(np, np) })
		r.Evals += 3
		c := nilCase{"*int under Collator[*int]", "pointer"}
		if which == "C07" && (o.Panicked || r1 != age.LesserRank || r2 != age.GreaterRank || r3 != age.EqualRank) {
			r.Violation("a nil pointer does not rank before a non-nil one", fmt.Sprintf("%v %v %v %s", r1, r2, r3, o.Value), c)
		}
		r.States += int64(len(wraps) * len(defined))
		r.Distinct += int64(len(wraps) * len(defined))
		r.Transitions += r.Evals
		r.Sample(nilCase{"item of []any", "false"})
	}
}
