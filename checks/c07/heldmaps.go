package c07

import (
	"fmt"
	"sort"
	"strings"

	age "github.com/craterdog/go-collection-framework/v4/agent"
	col "github.com/craterdog/go-collection-framework/v4/collection"
	rt "github.com/craterdog/go-collection-framework/v4/verifrt"
	"verif/checks/common"
	"verif/engine"
)

// A Map that the collator reaches through a typed interface - the items of a
// []MapLike[K,V] or of a List[MapLike[K,V]], a struct field, the values of a Go
// map or of a Catalog - is still a Map: compared regardless of insertion order,
// ranked key-then-value over its sorted keys. (The universe of the other units
// holds its collections in `any`, where the collator sees the concrete value.)
// Maps of five keys, rebuilt for every call: an order taken from the iteration
// of the underlying Go map differs from call to call.

type heldCase struct {
	Holder string `json:"held_in"`
	A      string `json:"a"`
	B      string `json:"b"`
	Law    string `json:"law,omitempty"`
}

type heldMap struct {
	name string
	kv   map[string]int
}

func heldFamily() []heldMap {
	return []heldMap{
		{"{}", map[string]int{}},
		{"{a1 b2 c3 d4}", map[string]int{"a": 1, "b": 2, "c": 3, "d": 4}},
		{"{a1 b2 c3 d4 e5}", map[string]int{"a": 1, "b": 2, "c": 3, "d": 4, "e": 5}},
		{"{a1 b2 c3 d4 e6}", map[string]int{"a": 1, "b": 2, "c": 3, "d": 4, "e": 6}},
		{"{a1 b2 c3 d4 f5}", map[string]int{"a": 1, "b": 2, "c": 3, "d": 4, "f": 5}},
		{"{a2 b2 c3 d4 e5}", map[string]int{"a": 2, "b": 2, "c": 3, "d": 4, "e": 5}},
		{"{b2 c3 d4 e5 f6}", map[string]int{"b": 2, "c": 3, "d": 4, "e": 5, "f": 6}},
	}
}

// model: key-then-value over the sorted keys, a proper prefix first
func heldRank(a, b map[string]int) age.Rank {
	keys := func(m map[string]int) []string {
		var ks []string
		for k := range m {
			ks = append(ks, k)
		}
		sort.Strings(ks)
		return ks
	}
	ka, kb := keys(a), keys(b)
	for i := 0; i < len(ka) && i < len(kb); i++ {
		switch {
		case ka[i] < kb[i]:
			return age.LesserRank
		case ka[i] > kb[i]:
			return age.GreaterRank
		case a[ka[i]] < b[kb[i]]:
			return age.LesserRank
		case a[ka[i]] > b[kb[i]]:
			return age.GreaterRank
		}
	}
	switch {
	case len(ka) < len(kb):
		return age.LesserRank
	case len(ka) > len(kb):
		return age.GreaterRank
	}
	return age.EqualRank
}

type heldStruct struct {
	Name string
	M    col.MapLike[string, int]
}

func heldMaps(which string) func(r *engine.Rec) {
	return func(r *engine.Rec) {
		N := common.N
		type ML = col.MapLike[string, int]
		mk := func(h heldMap, reverse bool) ML {
			var ks []string
			for k := range h.kv {
				ks = append(ks, k)
			}
			sort.Strings(ks)
			if reverse {
				sort.Sort(sort.Reverse(sort.StringSlice(ks)))
			}
			m := col.Map[string, int](N()).Make()
			for _, k := range ks {
				m.SetValue(k, h.kv[k])
			}
			return m
		}
		holders := map[string]func(m ML) any{
			"item of []MapLike":           func(m ML) any { return []ML{m} },
			"second item of []MapLike":    func(m ML) any { return []ML{mk(heldFamily()[1], false), m} },
			"item of List[MapLike]":       func(m ML) any { return col.List[ML](N()).MakeFromArray([]ML{m}) },
			"item of Array[MapLike]":      func(m ML) any { return col.Array[ML](N()).MakeFromArray([]ML{m}) },
			"item of Stack[MapLike]":      func(m ML) any { return col.Stack[ML](N()).MakeFromArray([]ML{m}) },
			"value of map[string]MapLike": func(m ML) any { return map[string]ML{"k": m} },
			"value of Catalog[string,MapLike]": func(m ML) any {
				c := col.Catalog[string, ML](N()).Make()
				c.SetValue("k", m)
				return c
			},
			"value of Map[string,MapLike]": func(m ML) any {
				o := col.Map[string, ML](N()).Make()
				o.SetValue("k", m)
				return o
			},
			"field of a struct": func(m ML) any { return heldStruct{"s", m} },
			"item of []Sequential[AssociationLike]": func(m ML) any {
				return []col.Sequential[col.AssociationLike[string, int]]{m}
			},
			"item of [][]MapLike": func(m ML) any { return [][]ML{{m}} },
		}
		fam := heldFamily()
		coll := age.Collator[any]().Make()
		for hn, hold := range holders {
			for _, a := range fam {
				for _, b := range fam {
					c := heldCase{Holder: hn, A: a.name, B: b.name}
					if !r.Wanted(c) {
						continue
					}
					want := heldRank(a.kv, b.kv)
					// four rounds, every value rebuilt, insertion orders mixed
					for round := 0; round < 4; round++ {
						x, y := hold(mk(a, round%2 == 1)), hold(mk(b, round/2 == 1))
						var rk, back age.Rank
						var eq bool
						o := rt.Protect(fuel, func() {
							rk, back, eq = coll.RankValues(x, y), coll.RankValues(y, x), coll.CompareValues(x, y)
						})
						r.Evals += 3
						if hn == "field of a struct" && o.Panicked {
							// structs are compared with Go's == where that is defined; not judged here
							continue
						}
						if o.Panicked || o.Fuel {
							c.Law = "no failure"
							r.Violation("ranking or comparing a Map held through a typed interface fails", fmt.Sprintf("%+v: %s", c, o.Value), c)
							break
						}
						if which == "C07" {
							mirror := map[age.Rank]age.Rank{age.LesserRank: age.GreaterRank, age.GreaterRank: age.LesserRank, age.EqualRank: age.EqualRank}
							switch {
							case back != mirror[rk]:
								c.Law = "mirror image"
								r.Violation("RankValues of Maps held through a typed interface is not the mirror image when the arguments are swapped", fmt.Sprintf("%+v: %v and %v (round %d)", c, rk, back, round), c)
							case rk != want:
								c.Law = "key-then-value over sorted keys"
								r.Violation("Maps held through a typed interface are not ranked key-then-value over their sorted keys (the result depends on the order of the underlying Go map)", fmt.Sprintf("%+v: got %v want %v (round %d)", c, rk, want, round), c)
							default:
								continue
							}
							break
						}
						if hn == "field of a struct" {
							continue // CompareValues of structs is Go's ==: interface fields holding maps are not comparable that way
						}
						if eq != (want == age.EqualRank) {
							c.Law = "equal parts compare equal"
							r.Violation("two values holding Maps (through a typed interface) built from equal parts do not compare equal, or unequal ones do", fmt.Sprintf("%+v: CompareValues %v (round %d)", c, eq, round), c)
							break
						}
					}
				}
			}
		}
		// a Map against a Catalog with the same associations under one interface type: whatever the verdict on two
		// collections of different kinds is, it is the same on every call, mirrored when swapped, and CompareValues agrees with RankValues
		for _, a := range fam {
			c := heldCase{Holder: "[]Sequential[AssociationLike]: Map against Catalog", A: a.name, B: a.name}
			if !r.Wanted(c) {
				continue
			}
			type SQ = col.Sequential[col.AssociationLike[string, int]]
			seen := map[string]bool{}
			bad := ""
			for round := 0; round < 6 && bad == ""; round++ {
				m := mk(a, round%2 == 1)
				cat := col.Catalog[string, int](N()).Make()
				for _, as := range mk(a, false).AsArray() {
					cat.SetValue(as.GetKey(), as.GetValue())
				}
				cat.SortValues()
				x, y := []SQ{m}, []SQ{cat}
				var rk, back age.Rank
				var eq bool
				o := rt.Protect(fuel, func() {
					rk, back, eq = coll.RankValues(x, y), coll.RankValues(y, x), coll.CompareValues(x, y)
				})
				r.Evals += 3
				seen[fmt.Sprint(rk, back, eq)] = true
				switch {
				case o.Panicked || o.Fuel:
					bad = "fails\x00" + o.Value
				case which == "C07" && (rk == age.LesserRank) != (back == age.GreaterRank), which == "C07" && (rk == age.EqualRank) != (back == age.EqualRank):
					bad = fmt.Sprintf("RankValues is not a mirror image\x00%v and %v", rk, back)
				case which == "C08" && eq != (rk == age.EqualRank):
					bad = fmt.Sprintf("CompareValues disagrees with RankValues\x00%v, %v", eq, rk)
				}
			}
			if bad == "" && len(seen) > 1 && len(a.kv) > 1 {
				bad = fmt.Sprintf("the result changes from call to call on rebuilt equal values\x00%v", seen)
			}
			if bad != "" {
				kind, detail, _ := strings.Cut(bad, "\x00")
				r.Violation("a Map against a Catalog with the same associations, both held as Sequential: "+kind, fmt.Sprintf("%+v: %s", c, detail), c)
			}
		}
		heldSequences(which, r)
		n := int64(len(holders) * len(fam) * len(fam))
		r.States += n
		r.Distinct += n
		r.Transitions += r.Evals
		r.Sample(heldCase{Holder: "item of List[MapLike]", A: fam[2].name, B: fam[2].name})
	}
}

// heldSequences: the same for Lists, Sets and Stacks reached through a typed
// interface: ranked lexicographically by their items (a proper prefix first),
// equal exactly when their items are.
func heldSequences(which string, r *engine.Rec) {
	N := common.N
	type LL = col.ListLike[int]
	type SL = col.SetLike[int]
	type SQ = col.Sequential[int]
	contents := [][]int{{}, {1}, {1, 2}, {1, 3}, {2}, {1, 2, 3}, {0, 5}}
	lex := func(a, b []int) age.Rank {
		for i := 0; i < len(a) && i < len(b); i++ {
			if a[i] != b[i] {
				if a[i] < b[i] {
					return age.LesserRank
				}
				return age.GreaterRank
			}
		}
		switch {
		case len(a) < len(b):
			return age.LesserRank
		case len(a) > len(b):
			return age.GreaterRank
		}
		return age.EqualRank
	}
	mkL := func(v []int) LL { return col.List[int](N()).MakeFromArray(append([]int(nil), v...)) }
	mkS := func(v []int) SL {
		rev := append([]int(nil), v...)
		for i, j := 0, len(rev)-1; i < j; i, j = i+1, j-1 {
			rev[i], rev[j] = rev[j], rev[i]
		}
		return col.Set[int](N()).MakeFromArray(rev)
	}
	holders := map[string]func(v []int) any{
		"item of []ListLike":            func(v []int) any { return []LL{mkL(v)} },
		"item of List[ListLike]":        func(v []int) any { return col.List[LL](N()).MakeFromArray([]LL{mkL(v)}) },
		"item of List[SetLike]":         func(v []int) any { return col.List[SL](N()).MakeFromArray([]SL{mkS(v)}) },
		"item of []Sequential (a List)": func(v []int) any { return []SQ{mkL(v)} },
		"item of []Sequential (a Set)":  func(v []int) any { return []SQ{mkS(v)} },
		"value of map[string]SetLike":   func(v []int) any { return map[string]SL{"k": mkS(v)} },
		"value of Catalog[string,ListLike]": func(v []int) any {
			c := col.Catalog[string, LL](N()).Make()
			c.SetValue("k", mkL(v))
			return c
		},
		"second item of Stack[Sequential]": func(v []int) any {
			return col.Stack[SQ](N()).MakeFromArray([]SQ{mkL([]int{9}), mkS(v)})
		},
	}
	coll := age.Collator[any]().Make()
	n := 0
	for hn, hold := range holders {
		for ai, a := range contents {
			for bi, b := range contents {
				c := heldCase{Holder: hn, A: fmt.Sprint(a), B: fmt.Sprint(b)}
				if !r.Wanted(c) {
					continue
				}
				n++
				_, _ = ai, bi
				want := lex(a, b)
				x, y := hold(a), hold(b)
				var rk, back age.Rank
				var eq bool
				o := rt.Protect(fuel, func() {
					rk, back, eq = coll.RankValues(x, y), coll.RankValues(y, x), coll.CompareValues(x, y)
				})
				r.Evals += 3
				mirror := map[age.Rank]age.Rank{age.LesserRank: age.GreaterRank, age.GreaterRank: age.LesserRank, age.EqualRank: age.EqualRank}
				switch {
				case o.Panicked || o.Fuel:
					r.Violation("ranking or comparing a collection held through a typed interface fails", fmt.Sprintf("%+v: %s", c, o.Value), c)
				case which == "C07" && back != mirror[rk]:
					r.Violation("RankValues of collections held through a typed interface is not the mirror image when the arguments are swapped", fmt.Sprintf("%+v: %v and %v", c, rk, back), c)
				case which == "C07" && rk != want:
					r.Violation("collections held through a typed interface are not ranked lexicographically by their items", fmt.Sprintf("%+v: got %v want %v", c, rk, want), c)
				case which == "C08" && eq != (want == age.EqualRank):
					r.Violation("collections held through a typed interface: CompareValues is not equality of their items", fmt.Sprintf("%+v: %v", c, eq), c)
				}
			}
		}
	}
	r.States += int64(n)
	r.Distinct += int64(n)
}
