// Package c07 decides C07 (RankValues is a total preorder) and C08
// (CompareValues is structural equality and agrees with ranking) on the real
// collator over a structured universe.
package c07

import (
	"fmt"
	"math"
	"sort"

	col "github.com/craterdog/go-collection-framework/v4/collection"
	"verif/checks/common"
)

// Node is a value description from which Go values are built; it lets the
// generator produce independent copies and single-point mutations together
// with the expected (reference) equality.
type Node struct {
	Kind string  // leaf, slice, gomap, Array, List, Set, Stack, Queue, Catalog, Map
	Leaf any     // for leaf
	Kids []*Node // items (values); for gomap/Catalog/Map the values
	Keys []any   // keys for gomap (string), Catalog/Map (any)
}

func L(v any) *Node                      { return &Node{Kind: "leaf", Leaf: v} }
func C(kind string, kids ...*Node) *Node { return &Node{Kind: kind, Kids: kids} }
func M(kind string, keys []any, kids ...*Node) *Node {
	return &Node{Kind: kind, Kids: kids, Keys: keys}
}

func (n *Node) String() string {
	switch n.Kind {
	case "leaf":
		return fmt.Sprintf("%T(%#v)", n.Leaf, n.Leaf)
	case "gomap", "Catalog", "Map":
		s := n.Kind + "{"
		for i, k := range n.Kids {
			s += fmt.Sprintf("%v:%s ", n.Keys[i], k)
		}
		return s + "}"
	}
	s := n.Kind + "["
	for _, k := range n.Kids {
		s += k.String() + " "
	}
	return s + "]"
}

// Build constructs a fresh Go value (collections have element type any). For
// maps `order` permutes the insertion order.
func (n *Node) Build(reverse bool) any {
	N := common.N()
	kids := make([]any, len(n.Kids))
	for i, k := range n.Kids {
		kids[i] = k.Build(reverse)
	}
	idx := make([]int, len(kids))
	for i := range idx {
		idx[i] = i
		if reverse {
			idx[i] = len(kids) - 1 - i
		}
	}
	switch n.Kind {
	case "leaf":
		return n.Leaf
	case "slice":
		return append([]any{}, kids...)
	case "gomap":
		m := map[string]any{}
		for _, i := range idx {
			m[n.Keys[i].(string)] = kids[i]
		}
		return m
	case "Array":
		return col.Array[any](N).MakeFromArray(kids)
	case "List":
		return col.List[any](N).MakeFromArray(kids)
	case "Set":
		s := col.Set[any](N).Make()
		for _, i := range idx {
			s.AddValue(kids[i])
		}
		return s
	case "Stack":
		return col.Stack[any](N).MakeFromArray(kids)
	case "Queue":
		return col.Queue[any](N).MakeFromArray(kids)
	case "Catalog":
		c := col.Catalog[any, any](N).Make()
		for i := range kids {
			c.SetValue(n.Keys[i], kids[i])
		}
		return c
	case "Map":
		m := col.Map[any, any](N).Make()
		for _, i := range idx {
			m.SetValue(n.Keys[i], kids[i])
		}
		return m
	}
	panic("unknown kind " + n.Kind)
}

// leafEqual is the reference equality on leaves (Go ==, which identifies +0 and -0).
func leafEqual(a, b any) bool { return a == b }

// RefEqual is the reference structural equality.
func RefEqual(a, b *Node) bool {
	if a.Kind != b.Kind || len(a.Kids) != len(b.Kids) {
		// a Set is compared after de-duplication: generator never produces duplicate set items
		return false
	}
	switch a.Kind {
	case "leaf":
		return leafEqual(a.Leaf, b.Leaf)
	case "gomap", "Map":
		for i, k := range a.Keys {
			found := false
			for j, k2 := range b.Keys {
				if k == k2 {
					found = RefEqual(a.Kids[i], b.Kids[j])
				}
			}
			if !found {
				return false
			}
		}
		return true
	case "Catalog":
		for i := range a.Kids {
			if a.Keys[i] != b.Keys[i] || !RefEqual(a.Kids[i], b.Kids[i]) {
				return false
			}
		}
		return true
	case "Set":
		// order-insensitive: the set orders its items itself
		used := make([]bool, len(b.Kids))
	outer:
		for _, x := range a.Kids {
			for j, y := range b.Kids {
				if !used[j] && RefEqual(x, y) {
					used[j] = true
					continue outer
				}
			}
			return false
		}
		return true
	}
	for i := range a.Kids {
		if !RefEqual(a.Kids[i], b.Kids[i]) {
			return false
		}
	}
	return true
}

func (n *Node) clone() *Node {
	c := &Node{Kind: n.Kind, Leaf: n.Leaf, Keys: append([]any(nil), n.Keys...)}
	for _, k := range n.Kids {
		c.Kids = append(c.Kids, k.clone())
	}
	return c
}

var altLeaf = func(v any) any {
	switch x := v.(type) {
	case nil:
		return int64(0)
	case bool:
		return !x
	case int64:
		return x + 1
	case uint64:
		return x + 1
	case float64:
		return x + 0.5
	case complex128:
		return x + complex(0, 1)
	case rune:
		return x + 1
	case string:
		return x + "x"
	}
	return "other"
}

// Mutations returns every single-point mutation of n with a description.
func Mutations(n *Node) (out []*Node, what []string) {
	var paths [][]int
	var walk func(m *Node, p []int)
	walk = func(m *Node, p []int) {
		paths = append(paths, append([]int(nil), p...))
		for i, k := range m.Kids {
			walk(k, append(p, i))
		}
	}
	walk(n, nil)
	at := func(root *Node, p []int) *Node {
		for _, i := range p {
			root = root.Kids[i]
		}
		return root
	}
	for _, p := range paths {
		orig := at(n, p)
		if orig.Kind == "leaf" {
			c := n.clone()
			at(c, p).Leaf = altLeaf(orig.Leaf)
			// a set must not end up with two equal items
			out, what = append(out, c), append(what, fmt.Sprintf("leaf at %v changed", p))
			continue
		}
		keyed := orig.Kind == "gomap" || orig.Kind == "Catalog" || orig.Kind == "Map"
		// one element added
		c := n.clone()
		t := at(c, p)
		t.Kids = append(t.Kids, L("added-item"))
		if keyed {
			if orig.Kind == "gomap" {
				t.Keys = append(t.Keys, "added-key")
			} else {
				t.Keys = append(t.Keys, any("added-key"))
			}
		}
		out, what = append(out, c), append(what, fmt.Sprintf("element added at %v", p))
		if len(orig.Kids) > 0 {
			// one element removed (the last and the first)
			for _, which := range []int{0, len(orig.Kids) - 1} {
				c := n.clone()
				t := at(c, p)
				t.Kids = append(append([]*Node(nil), t.Kids[:which]...), t.Kids[which+1:]...)
				if keyed {
					t.Keys = append(append([]any(nil), t.Keys[:which]...), t.Keys[which+1:]...)
				}
				out, what = append(out, c), append(what, fmt.Sprintf("element %d removed at %v", which, p))
			}
		}
		if len(orig.Kids) >= 2 && orig.Kind != "Set" && orig.Kind != "gomap" && orig.Kind != "Map" {
			c := n.clone()
			t := at(c, p)
			if !RefEqual(t.Kids[0], t.Kids[1]) || (keyed && t.Keys[0] != t.Keys[1]) {
				t.Kids[0], t.Kids[1] = t.Kids[1], t.Kids[0]
				if keyed {
					t.Keys[0], t.Keys[1] = t.Keys[1], t.Keys[0]
				}
				out, what = append(out, c), append(what, fmt.Sprintf("elements 0,1 swapped at %v", p))
			}
		}
		if keyed && len(orig.Keys) > 0 {
			c := n.clone()
			t := at(c, p)
			if orig.Kind == "gomap" {
				t.Keys[0] = t.Keys[0].(string) + "-renamed"
			} else {
				t.Keys[0] = any(fmt.Sprint(t.Keys[0], "-renamed"))
			}
			out, what = append(out, c), append(what, fmt.Sprintf("key 0 renamed at %v", p))
		}
	}
	return
}

// validSets reports whether no Set node has two equal items (the generator's
// mutations could create one; such mutants are skipped).
func validSets(n *Node) bool {
	if n.Kind == "Set" {
		for i := range n.Kids {
			for j := i + 1; j < len(n.Kids); j++ {
				if RefEqual(n.Kids[i], n.Kids[j]) {
					return false
				}
			}
		}
	}
	for _, k := range n.Kids {
		if !validSets(k) {
			return false
		}
	}
	return true
}

var kinds = []string{"slice", "gomap", "Array", "List", "Set", "Stack", "Queue", "Catalog", "Map"}

func keyed(kind string) bool { return kind == "gomap" || kind == "Catalog" || kind == "Map" }

func mkColl(kind string, kids ...*Node) *Node {
	if keyed(kind) {
		keys := make([]any, len(kids))
		for i := range kids {
			if kind == "gomap" {
				keys[i] = fmt.Sprint("k", i)
			} else {
				keys[i] = any(fmt.Sprint("k", i))
			}
		}
		return M(kind, keys, kids...)
	}
	return C(kind, kids...)
}

// AnyUniverse is the structured universe for the `any` collator: canonical
// leaves, every kind at sizes 0..2 over a few leaves, and nests to depth 3.
func AnyUniverse(thorough bool) []*Node {
	leaves := []any{nil, false, true, int64(-1), int64(0), int64(2), uint64(0), uint64(7), -2.5, 0.0, 3.25, math.Inf(1),
		complex(1, 2), complex(3, 4), complex(4, 3), 'a', 'b', "", "a", "ab", "b"}
	var out []*Node
	for _, l := range leaves {
		out = append(out, L(l))
	}
	small := []any{int64(1), int64(2), "a", nil}
	for _, k := range kinds {
		out = append(out, mkColl(k))
		for _, a := range small {
			out = append(out, mkColl(k, L(a)))
			for _, b := range small {
				if k == "Set" && a == b {
					continue
				}
				out = append(out, mkColl(k, L(a), L(b)))
			}
		}
	}
	// keyed collections whose first value is itself a two-key map and whose later association differs
	for _, k1 := range []string{"gomap", "Catalog", "Map"} {
		for _, k2 := range []string{"gomap", "Map", "Catalog", "List"} {
			for _, lastv := range []any{int64(1), int64(2), nil} {
				out = append(out, mkColl(k1, mkColl(k2, L(int64(1)), L("a")), L(lastv)))
				out = append(out, mkColl(k1, L(lastv), mkColl(k2, L(int64(1)), L("a"))))
			}
			out = append(out, mkColl(k1, mkColl(k2, L(int64(1)), L("a")), mkColl(k2, L(int64(1)), L("b")), L(int64(3))))
		}
	}
	// depth 2 and 3
	nest := []string{"slice", "List", "Set", "Catalog", "gomap"}
	if thorough {
		nest = kinds
	}
	for _, k1 := range nest {
		for _, k2 := range nest {
			out = append(out, mkColl(k1, mkColl(k2, L(int64(1)))))
			out = append(out, mkColl(k1, mkColl(k2), L(int64(1))))
			if thorough {
				out = append(out, mkColl(k1, mkColl(k2, L(int64(1)), L("a")), mkColl(k2, L(int64(2)))))
			}
			for _, k3 := range []string{"List", "gomap"} {
				out = append(out, mkColl(k1, mkColl(k2, mkColl(k3, L("a")))))
			}
		}
	}
	return out
}

func sortedKeys(m map[string]int) []string {
	var ks []string
	for k := range m {
		ks = append(ks, k)
	}
	sort.Strings(ks)
	return ks
}
