package c07

import (
	"fmt"
	"math"
	"sort"
	"strings"
	"time"

	age "github.com/craterdog/go-collection-framework/v4/agent"
	col "github.com/craterdog/go-collection-framework/v4/collection"
	rt "github.com/craterdog/go-collection-framework/v4/verifrt"
	"verif/checks/common"
	"verif/engine"
	"verif/engine/dump"
)

const fuel = 3000000

// typed universe with an optional reference order
type uni[T any] struct {
	name  string
	vals  []T
	tag   func(v T) string      // input-class tag for signatures ("" = ordinary)
	ref   func(a, b T) age.Rank // nil = laws only
	eqRef func(a, b T) bool     // reference equality only (where the statement fixes no order)
}

type pairCase struct {
	Universe string `json:"universe"`
	I        int    `json:"i"`
	J        int    `json:"j"`
	K        int    `json:"k,omitempty"`
	Desc     string `json:"values"`
}

func mirror(r age.Rank) age.Rank {
	switch r {
	case age.LesserRank:
		return age.GreaterRank
	case age.GreaterRank:
		return age.LesserRank
	}
	return r
}

func tags(ts ...string) string {
	seen := map[string]bool{}
	var out []string
	for _, t := range ts {
		if t != "" && !seen[t] {
			seen[t] = true
			out = append(out, t)
		}
	}
	if len(out) == 0 {
		return ""
	}
	sort.Strings(out)
	return " [" + strings.Join(out, ",") + "]"
}

// laws computes the full rank/compare matrices with the real collator and
// checks the preorder and equivalence laws on all pairs and triples.
// which: "C07" reports ranking violations, "C08" comparison violations.
func laws[T any](r *engine.Rec, u uni[T], which string) {
	n := len(u.vals)
	coll := age.Collator[T]().Make()
	R := make([][]age.Rank, n)
	Cm := make([][]bool, n)
	ok := make([][]bool, n)
	desc := func(i int) string { return fmt.Sprintf("%#v", u.vals[i]) }
	tg := func(is ...int) string {
		var ts []string
		for _, i := range is {
			if u.tag != nil {
				ts = append(ts, u.tag(u.vals[i]))
			}
		}
		return tags(ts...)
	}
	for i := 0; i < n; i++ {
		R[i], Cm[i], ok[i] = make([]age.Rank, n), make([]bool, n), make([]bool, n)
		for j := 0; j < n; j++ {
			c := pairCase{u.name, i, j, 0, desc(i) + " , " + desc(j)}
			o1 := rt.Protect(fuel, func() { R[i][j] = coll.RankValues(u.vals[i], u.vals[j]) })
			o2 := rt.Protect(fuel, func() { Cm[i][j] = coll.CompareValues(u.vals[i], u.vals[j]) })
			r.Evals += 2
			r.Max("fuel_ticks", o1.Ticks)
			ok[i][j] = !o1.Panicked && !o2.Panicked
			if o1.Panicked && which == "C07" {
				r.Violation(u.name+": RankValues "+fail(o1)+tg(i, j), c.Desc+": "+o1.Value, c)
			}
			if o2.Panicked && which == "C08" {
				r.Violation(u.name+": CompareValues "+fail(o2)+tg(i, j), c.Desc+": "+o2.Value, c)
			}
			if coll.GetDepth() != 0 {
				r.Violation(u.name+": collator depth not restored after a call"+tg(i, j), c.Desc, c)
				coll = age.Collator[T]().Make()
			}
		}
	}
	for i := 0; i < n; i++ {
		for j := 0; j < n; j++ {
			if !ok[i][j] || !ok[j][i] {
				continue
			}
			c := pairCase{u.name, i, j, 0, desc(i) + " , " + desc(j)}
			if which == "C07" {
				if i == j && R[i][i] != age.EqualRank {
					r.Violation(u.name+": RankValues(a,a) is not Equal"+tg(i), c.Desc, c)
				}
				if R[i][j] != mirror(R[j][i]) {
					r.Violation(u.name+": RankValues(a,b) is not the mirror image of RankValues(b,a)"+tg(i, j), fmt.Sprintf("%s: %v vs %v", c.Desc, R[i][j], R[j][i]), c)
				}
				if u.ref != nil && R[i][j] != u.ref(u.vals[i], u.vals[j]) {
					r.Violation(u.name+": RankValues differs from the natural order"+tg(i, j), fmt.Sprintf("%s: got %v want %v", c.Desc, R[i][j], u.ref(u.vals[i], u.vals[j])), c)
				}
				if u.eqRef != nil && (R[i][j] == age.EqualRank) != u.eqRef(u.vals[i], u.vals[j]) {
					r.Violation(u.name+": RankValues is Equal for values that differ, or not Equal for values built from equal parts"+tg(i, j), fmt.Sprintf("%s: rank %v", c.Desc, R[i][j]), c)
				}
			} else {
				if i == j && !Cm[i][i] {
					r.Violation(u.name+": CompareValues(a,a) is false"+tg(i), c.Desc, c)
				}
				if Cm[i][j] != Cm[j][i] {
					r.Violation(u.name+": CompareValues is not symmetric"+tg(i, j), c.Desc, c)
				}
				if Cm[i][j] != (R[i][j] == age.EqualRank) {
					r.Violation(u.name+": CompareValues disagrees with RankValues==Equal"+tg(i, j), fmt.Sprintf("%s: compare %v rank %v", c.Desc, Cm[i][j], R[i][j]), c)
				}
				if u.ref != nil && Cm[i][j] != (u.ref(u.vals[i], u.vals[j]) == age.EqualRank) {
					r.Violation(u.name+": CompareValues differs from reference equality"+tg(i, j), c.Desc, c)
				}
				if u.eqRef != nil && Cm[i][j] != u.eqRef(u.vals[i], u.vals[j]) {
					r.Violation(u.name+": CompareValues differs from reference equality"+tg(i, j), fmt.Sprintf("%s: compare %v", c.Desc, Cm[i][j]), c)
				}
			}
		}
	}
	// transitivity over all triples
	le := func(i, j int) bool { return R[i][j] != age.GreaterRank }
	triples := 0
	for i := 0; i < n; i++ {
		for j := 0; j < n; j++ {
			if !ok[i][j] {
				continue
			}
			for k := 0; k < n; k++ {
				if !ok[j][k] || !ok[i][k] {
					continue
				}
				triples++
				if which == "C07" && le(i, j) && le(j, k) && !le(i, k) {
					c := pairCase{u.name, i, j, k, desc(i) + " , " + desc(j) + " , " + desc(k)}
					r.Violation(u.name+": lesser-or-equal is not transitive"+tg(i, j, k), fmt.Sprintf("%s: a<=b, b<=c but a>c (ranks %v %v %v)", c.Desc, R[i][j], R[j][k], R[i][k]), c)
				}
				if which == "C08" && Cm[i][j] && Cm[j][k] && !Cm[i][k] {
					c := pairCase{u.name, i, j, k, desc(i) + " , " + desc(j) + " , " + desc(k)}
					r.Violation(u.name+": CompareValues is not transitive"+tg(i, j, k), c.Desc, c)
				}
			}
		}
	}
	r.States += int64(n)
	r.Transitions += int64(n*n) * 2
	r.Distinct += int64(n * n)
	r.Add("pairs", int64(n*n))
	r.Add("triples", int64(triples))
	if n > 3 {
		r.Sample(map[string]any{"universe": u.name, "a": desc(1), "b": desc(n / 2), "c": desc(n - 1)})
	}
}

func fail(o rt.Outcome) string {
	if o.Fuel {
		return "does not terminate"
	}
	return "panics: " + common.PanicClass(o.Value)
}

func ord[T int | int8 | int16 | int32 | int64 | uint | uint8 | uint16 | uint32 | uint64 | float32 | float64 | string](a, b T) age.Rank {
	switch {
	case a < b:
		return age.LesserRank
	case a > b:
		return age.GreaterRank
	}
	return age.EqualRank
}

func floatTag(f float64) string {
	if math.IsNaN(f) {
		return "NaN operand"
	}
	return ""
}

func complexTag(c complex128) string {
	switch {
	case math.IsNaN(real(c)) || math.IsNaN(imag(c)):
		return "complex with NaN part"
	case math.IsInf(real(c), 0) || math.IsInf(imag(c), 0):
		return "complex with infinite part"
	case imag(c) == 0 && real(c) < 0:
		return "complex with negative real part and zero imaginary part (signed zero decides the phase)"
	}
	return ""
}

func lex[T any](a, b []T, f func(x, y T) age.Rank) age.Rank {
	for i := 0; i < len(a) && i < len(b); i++ {
		if r := f(a[i], b[i]); r != age.EqualRank {
			return r
		}
	}
	return ord(len(a), len(b))
}

func typedUnits(which string) []engine.Unit {
	var us []engine.Unit
	add := func(name string, f func(r *engine.Rec)) { us = append(us, engine.Unit{Name: name, Run: f}) }
	add("bool", func(r *engine.Rec) {
		laws(r, uni[bool]{name: "bool", vals: []bool{false, true}, ref: func(a, b bool) age.Rank {
			switch {
			case !a && b:
				return age.LesserRank
			case a && !b:
				return age.GreaterRank
			}
			return age.EqualRank
		}}, which)
	})
	add("signed", func(r *engine.Rec) {
		laws(r, uni[int8]{name: "int8", vals: []int8{math.MinInt8, -1, 0, 1, math.MaxInt8}, ref: ord[int8]}, which)
		laws(r, uni[int16]{name: "int16", vals: []int16{math.MinInt16, -1, 0, 1, math.MaxInt16}, ref: ord[int16]}, which)
		laws(r, uni[int64]{name: "int64", vals: []int64{math.MinInt64, math.MinInt32, -1, 0, 1, math.MaxInt32, math.MaxInt64}, ref: ord[int64]}, which)
		laws(r, uni[int]{name: "int", vals: []int{math.MinInt, -1, 0, 1, math.MaxInt}, ref: ord[int]}, which)
		laws(r, uni[rune]{name: "rune", vals: []rune{-1, 0, 'a', 0x7f, 0xd7ff, 0xffff, 0x10ffff, math.MinInt32, math.MaxInt32}, ref: ord[rune]}, which)
	})
	add("unsigned", func(r *engine.Rec) {
		laws(r, uni[uint8]{name: "uint8", vals: []uint8{0, 1, 127, 128, 255}, ref: ord[uint8]}, which)
		laws(r, uni[uint16]{name: "uint16", vals: []uint16{0, 1, 0x7fff, 0x8000, 0xffff}, ref: ord[uint16]}, which)
		laws(r, uni[uint32]{name: "uint32", vals: []uint32{0, 1, 0x7fffffff, 0x80000000, 0xffffffff}, ref: ord[uint32]}, which)
		laws(r, uni[uint64]{name: "uint64", vals: []uint64{0, 1, 0x7fffffffffffffff, 0x8000000000000000, math.MaxUint64}, ref: ord[uint64]}, which)
		laws(r, uni[uint]{name: "uint", vals: []uint{0, 1, math.MaxInt, math.MaxInt + 1, math.MaxUint}, ref: ord[uint]}, which)
	})
	add("float", func(r *engine.Rec) {
		negZero := math.Copysign(0, -1)
		f64 := []float64{math.Inf(-1), -math.MaxFloat64, -1, -math.SmallestNonzeroFloat64, negZero, 0, math.SmallestNonzeroFloat64, 1, math.Nextafter(1, 2), math.MaxFloat64, math.Inf(1), math.NaN()}
		laws(r, uni[float64]{name: "float64", vals: f64, tag: floatTag, ref: nil}, which)
		// reference order on the NaN-free part
		laws(r, uni[float64]{name: "float64 (no NaN)", vals: f64[:len(f64)-1], ref: ord[float64]}, which)
		f32 := []float32{float32(math.Inf(-1)), -math.MaxFloat32, -1, float32(negZero), 0, math.SmallestNonzeroFloat32, 1, math.MaxFloat32, float32(math.Inf(1)), float32(math.NaN())}
		laws(r, uni[float32]{name: "float32", vals: f32, tag: func(f float32) string { return floatTag(float64(f)) }}, which)
		laws(r, uni[float32]{name: "float32 (no NaN)", vals: f32[:len(f32)-1], ref: ord[float32]}, which)
	})
	add("complex", func(r *engine.Rec) {
		negZero := math.Copysign(0, -1)
		grid := []float64{-1, negZero, 0, 1, 2}
		var cs []complex128
		for _, re := range grid {
			for _, im := range grid {
				cs = append(cs, complex(re, im))
			}
		}
		cs = append(cs, complex(3, 4), complex(4, 3), complex(5, 0), complex(-5, 0), complex(-5, negZero), complex(0, 5),
			complex(math.Inf(1), 1), complex(math.Inf(1), 2), complex(1, math.Inf(-1)), complex(math.NaN(), 0),
			// exactly one part not-a-number, the other ordinary, differing or infinite; both parts not-a-number
			complex(math.NaN(), 1), complex(math.NaN(), 2), complex(1, math.NaN()), complex(2, math.NaN()), complex(math.NaN(), math.NaN()),
			complex(math.NaN(), math.Inf(1)), complex(math.Inf(-1), math.NaN()), complex(math.NaN(), 1))
		laws(r, uni[complex128]{name: "complex128", vals: cs, tag: complexTag}, which)
		var plain []complex128
		for _, c := range cs {
			if complexTag(c) == "" {
				plain = append(plain, c)
			}
		}
		laws(r, uni[complex128]{name: "complex128 (finite, no negative-real signed-zero points)", vals: plain}, which)
	})
	add("integer-kinds-in-any", func(r *engine.Rec) {
		// integers of different widths under the any collator: their relative order is the collator's business, the
		// preorder laws are not. (Whether two integers of different widths are "the same value" is not specified:
		// the collator ranks them by number and compares them by type, so the C08 agreement clause is only
		// checked on the canonical dynamic types - see the stated assumption.)
		if which != "C07" {
			return
		}
		laws(r, uni[any]{name: "any holding unsigned integers of different widths", vals: []any{uint8(0), uint8(1), uint8(44), uint8(255), uint16(1), uint16(255), uint16(256), uint16(300), uint32(511), uint(512), uint64(1), uint64(300), uint64(math.MaxUint64)}}, which)
		laws(r, uni[any]{name: "any holding signed integers of different widths", vals: []any{int8(-128), int8(-1), int8(1), int16(-129), int16(-1), int16(300), int(-1), int(5), int64(-1), int64(5), int64(math.MinInt64), int64(math.MaxInt64)}}, which)
		// sequences whose leading items are the same number in different widths: the order is decided further on
		// (or by the lengths), whatever the verdict on the leading pair is
		L := func(items ...any) any { return col.List[any](common.N()).MakeFromArray(items) }
		laws(r, uni[any]{name: "any holding sequences that start with integers of different widths", vals: []any{
			[]any{int(1), 5}, []any{int64(1), 4}, []any{int(1), 3}, []any{int(1)}, []any{int8(1), 2}, []any{int64(1)}, []any{int16(1), 9, 9}, []any{int(2)}, []any{int8(0), 7},
			[]any{int(1), int64(5)}, []any{int64(1), int(5)}, []any{int64(1), int(6)}}}, which)
		laws(r, uni[any]{name: "any holding Lists that start with integers of different widths", vals: []any{
			L(int(1), 5), L(int64(1), 4), L(int(1), 3), L(int(1)), L(int8(1), 2), L(int64(1)), L(int(2)), L(int8(0), 7)}}, which)
	})
	add("string", func(r *engine.Rec) {
		laws(r, uni[string]{name: "string", vals: []string{"", "a", "ab", "b", "a\x00", "\xff", "é", "A"}, ref: ord[string]}, which)
		// byte-wise order is defined for every string, well-formed UTF-8 or not: bytes that decode to the same
		// replacement character are still different bytes
		laws(r, uni[string]{name: "string with ill-formed UTF-8", vals: []string{"\x80", "\xc0", "\xfe", "\xff", "\ufffd", "é", "\U0010ffff", "a\xfeb", "a\xffb", "a\ufffdb", "\xc3", "\xc3\xa9", "\xed\xa0\x80", "z"}, ref: ord[string]}, which)
	})
	add("slices", func(r *engine.Rec) {
		var vs [][]int
		vs = append(vs, nil, []int{})
		for _, a := range []int{1, 2} {
			vs = append(vs, []int{a})
			for _, b := range []int{1, 2} {
				vs = append(vs, []int{a, b})
				for _, c := range []int{1, 2} {
					vs = append(vs, []int{a, b, c})
				}
			}
		}
		laws(r, uni[[]int]{name: "[]int", vals: vs, ref: func(a, b []int) age.Rank {
			if a == nil || b == nil {
				switch {
				case a == nil && b == nil:
					return age.EqualRank
				case a == nil:
					return age.LesserRank
				}
				return age.GreaterRank
			}
			return lex(a, b, ord[int])
		}}, which)
		// windows of ONE backing array: equal-content collections that share storage, prefixes of each other
		// that start at the same address, overlapping windows ("does not depend on which of two equal-content
		// collections is passed" - nor on whether they are views of the same memory)
		base := []int{1, 2, 1, 2, 3}
		var ws [][]int
		for i := 0; i <= len(base); i++ {
			for j := i; j <= len(base) && j <= i+3; j++ {
				ws = append(ws, base[i:j])
			}
		}
		ws = append(ws, base[:2:2], []int{1, 2}, []int{1, 2, 1})
		laws(r, uni[[]int]{name: "[]int windows of one backing array", vals: ws, ref: func(a, b []int) age.Rank { return lex(a, b, ord[int]) }}, which)
		fbase := []float64{0.5, 1.5, 0.5, 1.5}
		var fw [][]float64
		for i := 0; i <= len(fbase); i++ {
			for j := i; j <= len(fbase); j++ {
				fw = append(fw, fbase[i:j])
			}
		}
		laws(r, uni[[]float64]{name: "[]float64 windows of one backing array", vals: fw, ref: func(a, b []float64) age.Rank { return lex(a, b, ord[float64]) }}, which)
		sbase := []string{"a", "b", "a", "b"}
		var sw [][]string
		for i := 0; i <= len(sbase); i++ {
			for j := i; j <= len(sbase); j++ {
				sw = append(sw, sbase[i:j])
			}
		}
		laws(r, uni[[]string]{name: "[]string windows of one backing array", vals: sw, ref: func(a, b []string) age.Rank { return lex(a, b, ord[string]) }}, which)
		// the same windows one level down: rows of a [][]int that alias each other
		var nested [][][]int
		for _, a := range [][]int{base[:1], base[:2], base[2:4], base[:3]} {
			for _, b := range [][]int{base[:0], base[:2], base[:3]} {
				nested = append(nested, [][]int{a, b})
			}
		}
		laws(r, uni[[][]int]{name: "[][]int with rows aliasing one backing array", vals: nested, ref: func(a, b [][]int) age.Rank {
			return lex(a, b, func(x, y []int) age.Rank { return lex(x, y, ord[int]) })
		}}, which)
		nan := math.NaN()
		fs := [][]float64{nil, {}, {1}, {nan}, {1, nan}, {nan, 1}, {math.Inf(1)}, {math.Copysign(0, -1)}, {0}, {1, 2}, {nan}, {1, nan}, {2.5, nan, nan}}
		rankF := func(a, b float64) age.Rank {
			an, bn := a != a, b != b
			switch {
			case an && bn:
				return age.EqualRank
			case an:
				return age.LesserRank
			case bn:
				return age.GreaterRank
			}
			return ord(a, b)
		}
		nilFirst := func(an, bn bool) (age.Rank, bool) {
			switch {
			case an && bn:
				return age.EqualRank, true
			case an:
				return age.LesserRank, true
			case bn:
				return age.GreaterRank, true
			}
			return age.EqualRank, false
		}
		laws(r, uni[[]float64]{name: "[]float64 (with NaN elements)", vals: fs, tag: func(v []float64) string {
			for _, x := range v {
				if x != x {
					return "NaN element"
				}
			}
			return ""
		}, ref: func(a, b []float64) age.Rank {
			if rk, ok := nilFirst(a == nil, b == nil); ok {
				return rk
			}
			return lex(a, b, rankF)
		}}, which)
		var fl []col.ListLike[float64]
		for _, e := range fs[1:] {
			fl = append(fl, col.List[float64](common.N()).MakeFromArray(e))
		}
		laws(r, uni[col.ListLike[float64]]{name: "ListLike[float64] (with NaN elements)", vals: fl, ref: func(a, b col.ListLike[float64]) age.Rank { return lex(a.AsArray(), b.AsArray(), rankF) }}, which)
		cs := [][]complex128{{}, {complex(1, 2)}, {complex(nan, 0)}, {complex(nan, 0)}, {complex(1, 2), complex(0, nan)}, {complex(1, 2), complex(0, nan)}}
		laws(r, uni[[]complex128]{name: "[]complex128 (with NaN parts)", vals: cs}, which)
		var ss [][]string
		for _, a := range []string{"", "a", "b"} {
			ss = append(ss, []string{a})
			for _, b := range []string{"", "a"} {
				ss = append(ss, []string{a, b})
			}
		}
		ss = append(ss, []string{})
		laws(r, uni[[]string]{name: "[]string", vals: ss, ref: func(a, b []string) age.Rank { return lex(a, b, ord[string]) }}, which)
	})
	add("gomaps", func(r *engine.Rec) {
		// all maps over 2 keys x 2 values plus nil, each built in every insertion order
		var ms []map[string]int
		ms = append(ms, nil, map[string]int{})
		for _, ka := range []int{0, 1, 2} { // 0 = key absent
			for _, kb := range []int{0, 1, 2} {
				if ka == 0 && kb == 0 {
					continue
				}
				for order := 0; order < 2; order++ {
					m := map[string]int{}
					ins := []string{"a", "b"}
					if order == 1 {
						ins = []string{"b", "a"}
					}
					for _, k := range ins {
						if k == "a" && ka > 0 {
							m["a"] = ka
						}
						if k == "b" && kb > 0 {
							m["b"] = kb
						}
					}
					ms = append(ms, m)
				}
			}
		}
		ref := func(a, b map[string]int) age.Rank {
			if a == nil || b == nil {
				switch {
				case a == nil && b == nil:
					return age.EqualRank
				case a == nil:
					return age.LesserRank
				}
				return age.GreaterRank
			}
			ka, kb := sortedKeys(a), sortedKeys(b)
			for i := 0; i < len(ka) && i < len(kb); i++ {
				if r := ord(ka[i], kb[i]); r != age.EqualRank {
					return r
				}
				if r := ord(a[ka[i]], b[kb[i]]); r != age.EqualRank {
					return r
				}
			}
			return ord(len(ka), len(kb))
		}
		laws(r, uni[map[string]int]{name: "map[string]int", vals: ms, ref: ref}, which)
		// keys that a lookup cannot find again: every NaN is a key of its own. Reference: key-then-value over
		// the sorted (key, value) pairs, NaN ranking Equal to NaN and after every number as for float leaves.
		nan := math.NaN()
		mk := func(pairs ...float64) map[float64]int {
			m := map[float64]int{}
			for i := 0; i+1 < len(pairs); i += 2 {
				m[pairs[i]] = int(pairs[i+1])
			}
			return m
		}
		fm := []map[float64]int{mk(), mk(nan, 1), mk(nan, 2), mk(nan, 1), mk(nan, 1, nan, 2), mk(nan, 2, nan, 1), mk(1, 1), mk(1, 1, nan, 1), mk(nan, 1, 1, 1), mk(1, 2, nan, 1), mk(nan, 1, nan, 1)}
		type fkv struct {
			k float64
			v int
		}
		rankF := func(a, b float64) age.Rank {
			switch {
			case a != a && b != b:
				return age.EqualRank
			case a != a:
				return age.GreaterRank
			case b != b:
				return age.LesserRank
			}
			return ord(a, b)
		}
		entries := func(m map[float64]int) []fkv {
			var es []fkv
			for k, v := range m {
				es = append(es, fkv{k, v})
			}
			sort.Slice(es, func(i, j int) bool {
				if r := rankF(es[i].k, es[j].k); r != age.EqualRank {
					return r == age.LesserRank
				}
				return es[i].v < es[j].v
			})
			return es
		}
		laws(r, uni[map[float64]int]{name: "map[float64]int with NaN keys", vals: fm, tag: func(m map[float64]int) string {
			n := 0
			for k := range m {
				if k != k {
					n++
				}
			}
			switch n {
			case 0:
				return ""
			case 1:
				return "one NaN key"
			}
			return "several NaN keys"
		}, eqRef: func(a, b map[float64]int) bool {
			// the same multiset of (key, value) pairs; the order among keys that rank Equal is nobody's to fix
			ea, eb := entries(a), entries(b)
			if len(ea) != len(eb) {
				return false
			}
			for i := range ea {
				if rankF(ea[i].k, eb[i].k) != age.EqualRank || ea[i].v != eb[i].v {
					return false
				}
			}
			return true
		}}, which)
	})
	add("gomaps-nan-keys-nested", func(r *engine.Rec) {
		// NaN keys whose values are maps themselves (ranking the values of two NaN-keyed associations sorts
		// again, inside the sort), and a NaN key held in an interface (map[any]V)
		nan := math.NaN()
		inner := func(v int) map[string]int { return map[string]int{"a": v, "b": v + 1} }
		mkN := func(vs ...int) map[float64]map[string]int {
			m := map[float64]map[string]int{}
			for _, v := range vs {
				m[math.NaN()] = inner(v)
			}
			return m
		}
		ns := []map[float64]map[string]int{mkN(), mkN(1), mkN(1, 5), mkN(5, 1), mkN(1, 5, 9), mkN(9, 5, 1), mkN(1, 1), mkN(2, 5)}
		canon := func(m map[float64]map[string]int) string {
			var vs []string
			for _, in := range m {
				vs = append(vs, fmt.Sprint(in["a"]))
			}
			sort.Strings(vs)
			return strings.Join(vs, ",")
		}
		laws(r, uni[map[float64]map[string]int]{name: "map[float64]map[string]int with NaN keys", vals: ns,
			eqRef: func(a, b map[float64]map[string]int) bool { return canon(a) == canon(b) }}, which)
		am := []map[any]int{{}, {nan: 1}, {nan: 1}, {nan: 2}, {nan: 1, "k": 2}, {"k": 2, nan: 1}, {"k": 2}, {nan: 1, nan: 1}}
		acanon := func(m map[any]int) string {
			var vs []string
			for k, v := range m {
				vs = append(vs, fmt.Sprintf("%T:%v=%d", k, k, v))
			}
			sort.Strings(vs)
			return strings.Join(vs, ",")
		}
		laws(r, uni[map[any]int]{name: "map[any]int with a NaN key", vals: am, eqRef: func(a, b map[any]int) bool { return acanon(a) == acanon(b) }}, which)
	})
	add("collections-typed", func(r *engine.Rec) {
		N := common.N()
		var ls []col.ListLike[int]
		var ss []col.SetLike[int]
		var st []col.StackLike[int]
		for _, e := range [][]int{{}, {1}, {2}, {1, 1}, {1, 2}, {2, 1}, {1, 2, 3}, {1, 2}} {
			ls = append(ls, col.List[int](N).MakeFromArray(e))
			ss = append(ss, col.Set[int](N).MakeFromArray(e))
			st = append(st, col.Stack[int](N).MakeFromArray(e))
		}
		laws(r, uni[col.ListLike[int]]{name: "ListLike[int]", vals: ls, ref: func(a, b col.ListLike[int]) age.Rank { return lex(a.AsArray(), b.AsArray(), ord[int]) }}, which)
		laws(r, uni[col.SetLike[int]]{name: "SetLike[int]", vals: ss, ref: func(a, b col.SetLike[int]) age.Rank { return lex(a.AsArray(), b.AsArray(), ord[int]) }}, which)
		laws(r, uni[col.StackLike[int]]{name: "StackLike[int]", vals: st, ref: func(a, b col.StackLike[int]) age.Rank { return lex(a.AsArray(), b.AsArray(), ord[int]) }}, which)
		var cs []col.CatalogLike[string, int]
		for _, e := range [][]string{{}, {"a"}, {"b"}, {"a", "b"}, {"b", "a"}, {"a", "b"}} {
			c := col.Catalog[string, int](N).Make()
			for i, k := range e {
				c.SetValue(k, i)
			}
			cs = append(cs, c)
		}
		laws(r, uni[col.CatalogLike[string, int]]{name: "CatalogLike[string,int]", vals: cs}, which)
		var as []col.AssociationLike[string, int]
		for _, k := range []string{"a", "b"} {
			for _, v := range []int{1, 2} {
				as = append(as, col.Association[string, int](N).Make(k, v))
			}
		}
		as = append(as, col.Association[string, int](N).Make("a", 1))
		laws(r, uni[col.AssociationLike[string, int]]{name: "AssociationLike[string,int]", vals: as, ref: func(a, b col.AssociationLike[string, int]) age.Rank {
			if r := ord(a.GetKey(), b.GetKey()); r != age.EqualRank {
				return r
			}
			return ord(a.GetValue(), b.GetValue())
		}}, which)
	})
	return us
}

func nodeTag(n *Node) string {
	t := ""
	var walk func(m *Node)
	walk = func(m *Node) {
		if m.Kind == "leaf" {
			switch x := m.Leaf.(type) {
			case float64:
				if s := floatTag(x); s != "" {
					t = s
				}
			case complex128:
				if s := complexTag(x); s != "" {
					t = s
				}
			}
		}
		for _, k := range m.Kids {
			walk(k)
		}
	}
	walk(n)
	return t
}

// anyUnit: the mixed universe under the `any` collator.
func anyUnit(which string) func(r *engine.Rec) {
	return func(r *engine.Rec) {
		nodes := AnyUniverse(r.Tier == "thorough")
		vals := make([]any, len(nodes))
		for i, n := range nodes {
			vals[i] = n.Build(false)
		}
		byVal := map[int]*Node{}
		for i, n := range nodes {
			byVal[i] = n
		}
		idx := map[string]int{}
		_ = idx
		u := uni[any]{name: "any (canonical dynamic types, nested collections)", vals: vals}
		// the tag needs the node, look it up by position through a side table
		pos := 0
		_ = pos
		laws(r, u, which)
		// RankValues == Equal exactly for structurally equal values (the specified order distinguishes any two
		// values that differ in a part: natural order on leaves, element-wise on sequences, key-then-value on maps)
		if which == "C07" {
			coll := age.Collator[any]().Make()
			for i := range nodes {
				for j := range nodes {
					var rk age.Rank
					o := rt.Protect(fuel, func() { rk = coll.RankValues(vals[i], vals[j]) })
					r.Evals++
					if o.Panicked {
						continue
					}
					if want := RefEqual(nodes[i], nodes[j]); (rk == age.EqualRank) != want {
						c := pairCase{u.name, i, j, 0, nodes[i].String() + " , " + nodes[j].String()}
						r.Violation("any: RankValues is Equal for structurally different values (or not Equal for equal ones)"+tags(nodeTag(nodes[i]), nodeTag(nodes[j])), fmt.Sprintf("%s: rank %v, structurally equal %v", c.Desc, rk, want), c)
					}
				}
			}
		}
		// reference equality on all pairs (C08): CompareValues == RefEqual
		if which == "C08" {
			coll := age.Collator[any]().Make()
			for i := range nodes {
				for j := range nodes {
					var got bool
					o := rt.Protect(fuel, func() { got = coll.CompareValues(vals[i], vals[j]) })
					r.Evals++
					if o.Panicked {
						continue // reported by laws
					}
					if want := RefEqual(nodes[i], nodes[j]); got != want {
						c := pairCase{u.name, i, j, 0, nodes[i].String() + " , " + nodes[j].String()}
						r.Violation("any: CompareValues differs from structural equality"+tags(nodeTag(nodes[i]), nodeTag(nodes[j])), fmt.Sprintf("%s: got %v want %v", c.Desc, got, want), c)
					}
				}
			}
		}
	}
}

type mutCase struct {
	Value    string `json:"value"`
	Mutation string `json:"mutation"`
}

// copiesAndMutations: an independently rebuilt copy compares equal (and ranks
// Equal, also when maps/sets are built in another insertion order); every
// single-point mutation compares unequal.
func copiesAndMutations(which string) func(r *engine.Rec) {
	return func(r *engine.Rec) {
		nodes := AnyUniverse(r.Tier == "thorough")
		coll := age.Collator[any]().Make()
		muts := 0
		for _, n := range nodes {
			v := n.Build(false)
			for _, rev := range []bool{false, true} {
				cp := n.Build(rev)
				c := mutCase{n.String(), fmt.Sprintf("independent copy (reverse insertion order: %v)", rev)}
				if !r.Wanted(c) {
					continue
				}
				var eq bool
				var rk age.Rank
				o := rt.Protect(fuel, func() { eq = coll.CompareValues(v, cp); rk = coll.RankValues(v, cp) })
				r.Evals++
				if o.Panicked {
					r.Violation("copy: collator "+fail(o)+tags(nodeTag(n)), c.Value, c)
					coll = age.Collator[any]().Make()
					continue
				}
				if which == "C08" && !eq {
					r.Violation("an independently built equal value compares unequal"+tags(nodeTag(n)), c.Value+" "+c.Mutation, c)
				}
				if which == "C07" && rk != age.EqualRank {
					r.Violation("an independently built equal value does not rank Equal"+tags(nodeTag(n)), c.Value+" "+c.Mutation, c)
				}
			}
			if which != "C08" {
				continue
			}
			ms, what := Mutations(n)
			for i, m := range ms {
				if !validSets(m) || RefEqual(n, m) {
					continue
				}
				c := mutCase{n.String(), what[i] + " -> " + m.String()}
				if !r.Wanted(c) {
					continue
				}
				mv := m.Build(false)
				var eq bool
				var rk age.Rank
				o := rt.Protect(fuel, func() { eq = coll.CompareValues(v, mv); rk = coll.RankValues(v, mv) })
				r.Evals++
				muts++
				if o.Panicked {
					r.Violation("mutation: collator "+fail(o)+tags(nodeTag(n)), c.Value+" "+c.Mutation, c)
					coll = age.Collator[any]().Make()
					continue
				}
				if eq || rk == age.EqualRank {
					r.Violation("a single-point mutation still compares/ranks equal"+tags(nodeTag(n), nodeTag(m)), fmt.Sprintf("%s | %s (compare %v rank %v)", c.Value, c.Mutation, eq, rk), c)
				}
			}
		}
		r.States += int64(len(nodes))
		r.Transitions += r.Evals
		r.Distinct += int64(len(nodes) + muts)
		r.Add("mutations", int64(muts))
		r.Sample(mutCase{nodes[len(nodes)/2].String(), "every single-point mutation"})
	}
}

// ---- cyclic values and history independence ----

func cyclicValues() map[string]func() any {
	N := common.N
	return map[string]func() any{
		"list containing itself": func() any {
			l := col.List[any](N()).Make()
			l.AppendValue(l)
			return l
		},
		"list containing itself next to siblings": func() any {
			l := col.List[any](N()).Make()
			l.AppendValue(int64(1))
			l.AppendValue(l)
			l.AppendValue("z")
			return l
		},
		"list containing itself at depth 2": func() any {
			l := col.List[any](N()).Make()
			inner := col.List[any](N()).Make()
			inner.AppendValue(l)
			l.AppendValue(inner)
			return l
		},
		"list containing itself at depth 3": func() any {
			l := col.List[any](N()).Make()
			a := col.List[any](N()).Make()
			b := col.List[any](N()).Make()
			b.AppendValue(l)
			a.AppendValue(b)
			l.AppendValue(a)
			return l
		},
		"catalog containing itself": func() any {
			c := col.Catalog[any, any](N()).Make()
			c.SetValue("self", c)
			return c
		},
		"catalog containing itself inside one list": func() any {
			c := col.Catalog[any, any](N()).Make()
			c.SetValue("self", c)
			return col.List[any](N()).MakeFromArray([]any{c})
		},
		"catalog containing itself inside three lists": func() any {
			c := col.Catalog[any, any](N()).Make()
			c.SetValue("self", c)
			var v any = c
			for i := 0; i < 3; i++ {
				v = col.List[any](N()).MakeFromArray([]any{v, int64(i)})
			}
			return v
		},
		"catalog whose value is a list containing the catalog": func() any {
			c := col.Catalog[any, any](N()).Make()
			l := col.List[any](N()).Make()
			l.AppendValue(c)
			c.SetValue("k", int64(1))
			c.SetValue("loop", l)
			return c
		},
		"map collection containing itself inside a list": func() any {
			m := col.Map[any, any](N()).Make()
			m.SetValue("self", m)
			return col.List[any](N()).MakeFromArray([]any{int64(0), m})
		},
		"go map containing itself inside two slices": func() any {
			m := map[string]any{}
			m["self"] = m
			return []any{[]any{m}}
		},
		"stack containing itself": func() any {
			s := col.Stack[any](N()).Make()
			s.AddValue(s)
			return s
		},
		"go slice containing itself": func() any {
			s := make([]any, 1)
			s[0] = s
			return s
		},
		"go map containing itself": func() any {
			m := map[string]any{}
			m["self"] = m
			return m
		},
	}
}

type histOp struct {
	K string `json:"k"` // Rank | Compare
	P int    `json:"pair"`
}

// history: every sequence of calls on one collator gives the results of a
// fresh collator (explicit-state search over the collator's private state).
func history(which string) func(r *engine.Rec) {
	return func(r *engine.Rec) {
		N := common.N
		type pair struct {
			name string
			a, b func() any
		}
		lst := func(vs ...any) func() any { return func() any { return col.List[any](N()).MakeFromArray(vs) } }
		val := func(v any) func() any { return func() any { return v } }
		pairs := []pair{
			{"1,2", val(int64(1)), val(int64(2))},
			{"[1 2],[1 2]", lst(int64(1), int64(2)), lst(int64(1), int64(2))},
			{"[1 2],[1 3]", lst(int64(1), int64(2)), lst(int64(1), int64(3))},
			{"[[1]],[[1]]", func() any { return col.List[any](N()).MakeFromArray([]any{[]any{int64(1)}}) }, func() any { return col.List[any](N()).MakeFromArray([]any{[]any{int64(1)}}) }},
			{"gomap,gomap", val(map[string]any{"a": int64(1)}), val(map[string]any{"a": int64(1)})},
			{"[],[1]", lst(), lst(int64(1))},
			{"{a:{p,q},b:1},{a:{p,q},b:2}", val(map[string]any{"a": map[string]any{"p": int64(1), "q": int64(2)}, "b": int64(1)}), val(map[string]any{"a": map[string]any{"p": int64(1), "q": int64(2)}, "b": int64(2)})},
			{"big map,big map", val(map[string]any{"a": int64(1), "b": int64(2), "c": int64(3), "d": int64(4), "e": int64(5)}), val(map[string]any{"a": int64(1), "b": int64(2), "c": int64(3), "d": int64(4), "e": int64(6)})},
		}
		// traversals that fail part way down for another reason than the depth limit (a value of a kind the collator
		// does not rank, two and three levels down): whatever they leave behind must not show in later calls
		ch := make(chan int)
		pairs = append(pairs,
			pair{"failing: channel two levels down", val([]any{[]any{ch}}), val([]any{[]any{ch}})},
			pair{"failing: channel three levels down", lst([]any{[]any{ch}}), lst([]any{[]any{ch}})},
			pair{"failing: func inside a map value", val(map[string]any{"k": []any{func() {}}}), val(map[string]any{"k": []any{func() {}}})},
			pair{"[[[1]]],[[[2]]]", val([]any{[]any{[]any{int64(1)}}}), val([]any{[]any{[]any{int64(2)}}})},
		)
		for name, mk := range cyclicValues() {
			mk := mk
			pairs = append(pairs, pair{"cyclic: " + name, mk, mk})
			pairs = append(pairs, pair{"cyclic twins: " + name, mk, mk})
		}
		run := func(coll age.CollatorLike[any], op histOp) (string, rt.Outcome) {
			p := pairs[op.P]
			a, b := p.a(), p.b()
			if strings.HasPrefix(p.name, "cyclic: ") {
				// the same object on both sides ("cyclic twins" are two separately built values of the same shape)
				b = a
				if strings.Contains(p.name, "go slice") || strings.Contains(p.name, "go map") {
					b = p.b()
				}
			}
			res := ""
			o := rt.Protect(fuel, func() {
				if op.K == "Rank" {
					res = fmt.Sprint(coll.RankValues(a, b))
				} else {
					res = fmt.Sprint(coll.CompareValues(a, b))
				}
			})
			return res, o
		}
		// reference results from fresh collators
		type outcome struct {
			res   string
			panic string
		}
		fresh := map[histOp]outcome{}
		var ops []histOp
		for p := range pairs {
			for _, k := range []string{"Rank", "Compare"} {
				if (which == "C07") != (k == "Rank") && !strings.HasPrefix(pairs[p].name, "cyclic") {
					// C07 drives ranking, C08 comparison; the cyclic (panicking) calls of both kinds are in both alphabets
					continue
				}
				op := histOp{k, p}
				res, o := run(age.Collator[any]().Make(), op)
				r.Evals++
				fresh[op] = outcome{res, o.Value}
				ops = append(ops, op)
				cyc := strings.HasPrefix(pairs[p].name, "cyclic")
				if cyc {
					c := map[string]any{"pair": pairs[p].name, "op": k}
					switch {
					case o.Fuel:
						r.Violation("self-containing value: "+k+"Values does not terminate", pairs[p].name, c)
					case !o.Panicked:
						// the statement is explicit: the call "ends with the documented depth-limit panic" - also when
						// both arguments are the same object (a shortcut that answers Equal for identical arguments
						// would make the outcome depend on whether the caller holds one object or two equal ones)
						r.Violation("self-containing value: "+k+"Values returns instead of ending with the documented depth-limit panic", pairs[p].name+": returned "+res, c)
					case !strings.Contains(o.Value, "maximum traversal depth was exceeded"):
						r.Violation("self-containing value: "+k+"Values ends with another panic than the documented depth-limit panic", pairs[p].name+": "+o.Value, c)
					}
				}
			}
		}
		// BFS over private states of one collator
		type node struct{ path []histOp }
		seen := map[string]bool{}
		rebuild := func(path []histOp) age.CollatorLike[any] {
			c := age.Collator[any]().Make()
			for _, op := range path {
				run(c, op)
			}
			return c
		}
		frontier := []node{{nil}}
		seen[dump.Dump(age.Collator[any]().Make())] = true
		for len(frontier) > 0 && len(seen) < 400 {
			n := frontier[0]
			frontier = frontier[1:]
			for _, op := range ops {
				c := rebuild(n.path)
				res, o := run(c, op)
				r.Evals++
				r.Transitions++
				want := fresh[op]
				cs := map[string]any{"path": n.path, "op": op, "pair": pairs[op.P].name}
				if res != want.res || common.PanicClass(o.Value) != common.PanicClass(want.panic) {
					r.Violation("the result of "+op.K+"Values depends on earlier calls on the same collator",
						fmt.Sprintf("after %v: %s on %s gives %q panic=%q; a fresh collator gives %q panic=%q", n.path, op.K, pairs[op.P].name, res, o.Value, want.res, want.panic), cs)
					continue
				}
				if c.GetDepth() != 0 {
					r.Violation("the collator's depth is not back to zero after a call", fmt.Sprintf("after %v + %v on %s: depth %d", n.path, op, pairs[op.P].name, c.GetDepth()), cs)
					continue
				}
				k := dump.Dump(c)
				if !seen[k] {
					seen[k] = true
					frontier = append(frontier, node{append(append([]histOp(nil), n.path...), op)})
				}
			}
		}
		// Every pair of calls on one collator, run as a one-thread program under the scheduler: what the first
		// call leaves behind need not show in the collator's fields (a lock it still holds does not), and a second
		// call that waits for it forever is a scheduler fact, not a hang of the harness.
		for _, first := range ops {
			for _, second := range ops {
				if !strings.HasPrefix(pairs[first.P].name, "cyclic") && !strings.HasPrefix(pairs[second.P].name, "cyclic") &&
					!strings.HasPrefix(pairs[first.P].name, "failing") && !strings.HasPrefix(pairs[second.P].name, "failing") {
					continue // histories without a panicking call are covered by the search above
				}
				var res string
				var o rt.Outcome
				started := false
				ex := rt.RunOnce(rt.Config{Elide: true}, nil, []rt.ThreadSpec{{Name: "caller", Body: func() {
					c := age.Collator[any]().Make()
					run(c, first)
					started = true
					res, o = run(c, second)
				}}})
				r.Evals++
				r.Transitions++
				cs := map[string]any{"first": first, "second": second, "pairs": []string{pairs[first.P].name, pairs[second.P].name}}
				want := fresh[second]
				switch {
				case len(ex.Stuck) > 0 && started:
					r.Violation("a call on a collator never returns after an earlier call on it ended with the depth-limit panic", fmt.Sprintf("%sValues on %s, then %sValues on %s: %v", first.K, pairs[first.P].name, second.K, pairs[second.P].name, ex.SortedStuck()), cs)
				case len(ex.Stuck) > 0:
					r.Violation("a call on a fresh collator never returns", fmt.Sprintf("%sValues on %s: %v", first.K, pairs[first.P].name, ex.SortedStuck()), cs)
				case res != want.res || common.PanicClass(o.Value) != common.PanicClass(want.panic):
					r.Violation("the result of "+second.K+"Values depends on earlier calls on the same collator",
						fmt.Sprintf("after %v: %s on %s gives %q panic=%q; a fresh collator gives %q panic=%q", first, second.K, pairs[second.P].name, res, o.Value, want.res, want.panic), cs)
				}
			}
		}
		r.States += int64(len(seen))
		r.Distinct += int64(len(seen))
		r.Sample(map[string]any{"history": "Rank(cyclic list) -> panic; then Rank([1 2],[1 3]) must equal a fresh collator's answer"})
	}
}

func register(id, which, title string) {
	engine.Register(&engine.Check{
		ID:        id,
		Technique: "bounded-exhaustive enumeration on the real collator: the full rank/compare matrices over every per-type boundary universe and a structured mixed `any` universe (all pairs, all triples), reference orders where the statement gives one, rebuilt copies and every single-point mutation generated from a value AST, self-containing values, and an explicit-state search over the collator's private state for call-history independence",
		Rule:      "case = pair or triple of universe values (or value + mutation, or call history); " + title,
		Assume:    []string{"under the any collator only the canonical dynamic types a parse can produce are mixed (int64, uint64, float64, complex128, rune, string, bool, nil, collections of any)", "the relative order of different dynamic types is not specified: only the laws are checked there"},
		Budget:    func(string) time.Duration { return 5 * time.Minute },
		Units: func(string) []engine.Unit {
			us := typedUnits(which)
			us = append(us, engine.Unit{Name: "any-universe", Run: anyUnit(which)},
				engine.Unit{Name: "copies-mutations", Run: copiesAndMutations(which)},
				engine.Unit{Name: "history", Run: history(which)},
				engine.Unit{Name: "nested-nil", Run: nilFirst(which)},
				engine.Unit{Name: "maps-held-through-typed-interfaces", Run: heldMaps(which)})
			return us
		},
	})
}

func init() {
	register("C07", "C07", "ranking laws (reflexive, mirror, transitive, natural order)")
	register("C08", "C08", "comparison laws (equivalence, agreement with ranking, structural equality)")
}
