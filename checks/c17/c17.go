// Package c17: iterators are bidirectional cursors over an immutable snapshot.
package c17

import (
	"fmt"
	"math"
	"reflect"
	"sort"
	"time"

	age "github.com/craterdog/go-collection-framework/v4/agent"
	col "github.com/craterdog/go-collection-framework/v4/collection"
	rt "github.com/craterdog/go-collection-framework/v4/verifrt"
	"verif/checks/common"
	"verif/engine"
	"verif/engine/dump"
)

type Move struct {
	K string `json:"k"`
	A int    `json:"a,omitempty"`
}

func moves(n int) []Move {
	ms := []Move{{K: "GetNext"}, {K: "GetPrevious"}, {K: "HasNext"}, {K: "HasPrevious"}, {K: "ToStart"}, {K: "ToEnd"}, {K: "GetSlot"}, {K: "GetSize"}, {K: "IsEmpty"}}
	for k := -n - 2; k <= n+2; k++ {
		ms = append(ms, Move{K: "ToSlot", A: k})
	}
	// the ends of the int range and of the narrower widths: arithmetic on the argument must not wrap
	for _, k := range []int{math.MinInt, math.MinInt + 1, math.MaxInt, math.MaxInt - 1, math.MinInt32, math.MaxInt32, math.MinInt32 - 1, math.MaxInt32 + 1, math.MinInt / 2, math.MaxInt/2 + 1} {
		ms = append(ms, Move{K: "ToSlot", A: k})
	}
	return ms
}

// model step: returns new slot candidates (set) and expected result
func step(vals []int, slot int, m Move) (slots []int, res any) {
	n := len(vals)
	switch m.K {
	case "GetNext":
		if slot < n {
			return []int{slot + 1}, vals[slot]
		}
		return []int{slot}, 0
	case "GetPrevious":
		if slot > 0 {
			return []int{slot - 1}, vals[slot-1]
		}
		return []int{slot}, 0
	case "HasNext":
		return []int{slot}, slot < n
	case "HasPrevious":
		return []int{slot}, slot > 0
	case "ToStart":
		return []int{0}, nil
	case "ToEnd":
		return []int{n}, nil
	case "GetSlot":
		return []int{slot}, slot
	case "GetSize":
		return []int{slot}, n
	case "IsEmpty":
		return []int{slot}, n == 0
	case "ToSlot":
		k := m.A
		switch {
		case k >= 0 && k <= n:
			return []int{k}, nil
		case k > n:
			return []int{n}, nil
		case k >= -n:
			return []int{k + n + 1}, nil
		default: // k < -n: "clamp": position of -n (1) or the start (0) - the statement does not say which
			if n == 0 {
				return []int{0}, nil
			}
			return []int{0, 1}, nil
		}
	}
	return []int{slot}, nil
}

func do(it age.IteratorLike[int], m Move) (res any, out rt.Outcome) {
	out = rt.Protect(100000, func() {
		switch m.K {
		case "GetNext":
			res = it.GetNext()
		case "GetPrevious":
			res = it.GetPrevious()
		case "HasNext":
			res = it.HasNext()
		case "HasPrevious":
			res = it.HasPrevious()
		case "ToStart":
			it.ToStart()
		case "ToEnd":
			it.ToEnd()
		case "GetSlot":
			res = it.GetSlot()
		case "GetSize":
			res = it.GetSize()
		case "IsEmpty":
			res = it.IsEmpty()
		case "ToSlot":
			it.ToSlot(m.A)
		}
	})
	return
}

func contains(a []int, x int) bool {
	for _, y := range a {
		if x == y {
			return true
		}
	}
	return false
}

type cursorCase struct {
	Source string `json:"source"`
	N      int    `json:"n"`
	Slot   int    `json:"slot"`
	Slot2  int    `json:"slot2"`
	Move   Move   `json:"move"`
	On     int    `json:"on"`
}

func mkIter(source string, vals []int) age.IteratorLike[int] {
	switch source {
	case "agent":
		return age.Iterator[int]().MakeFromArray(append([]int(nil), vals...))
	case "list":
		return col.List[int](common.N()).MakeFromArray(vals).GetIterator()
	default:
		return col.Array[int](common.N()).MakeFromArray(vals).GetIterator()
	}
}

// cursor: every (size, slot, slot2) state x every move on either of two iterators over the same collection.
func cursor(r *engine.Rec) {
	maxN := 4
	if r.Tier == "thorough" {
		maxN = 9
	}
	states := map[string]bool{}
	for _, source := range []string{"agent", "list", "array"} {
		for n := 0; n <= maxN; n++ {
			vals := make([]int, n)
			for i := range vals {
				vals[i] = 10 + i
			}
			for slot := 0; slot <= n; slot++ {
				for slot2 := 0; slot2 <= n; slot2++ {
					for on := 1; on <= 2; on++ {
						for _, mv := range moves(n) {
							c := cursorCase{source, n, slot, slot2, mv, on}
							if !r.Wanted(c) {
								continue
							}
							var its [2]age.IteratorLike[int]
							if source == "agent" {
								its[0], its[1] = mkIter(source, vals), mkIter(source, vals)
							} else {
								// two iterators over ONE collection
								var seq col.Sequential[int]
								if source == "list" {
									seq = col.List[int](common.N()).MakeFromArray(vals)
								} else {
									seq = col.Array[int](common.N()).MakeFromArray(vals)
								}
								its[0], its[1] = seq.GetIterator(), seq.GetIterator()
							}
							its[0].ToSlot(slot)
							its[1].ToSlot(slot2)
							if its[0].GetSlot() != slot || its[1].GetSlot() != slot2 {
								r.Violation("ToSlot(k) with 0<=k<=size does not position at k", fmt.Sprint(c), c)
								continue
							}
							states[fmt.Sprint(source, n, slot, slot2)] = true
							cur, other := its[on-1], its[2-on]
							curSlot, otherSlot := slot, slot2
							if on == 2 {
								curSlot, otherSlot = slot2, slot
							}
							otherBefore := dump.Dump(other)
							want, wres := step(vals, curSlot, mv)
							res, out := do(cur, mv)
							r.Evals++
							r.Transitions++
							if out.Panicked {
								r.Violation("iterator move panics: "+mv.K, out.Value, c)
								continue
							}
							got := cur.GetSlot()
							if got < 0 || got > n {
								r.Violation("slot leaves 0..size after "+mv.K, fmt.Sprint(got, c), c)
								continue
							}
							if !contains(want, got) {
								r.Violation("wrong slot after "+mv.K, fmt.Sprintf("%+v: slot %d, admitted %v", c, got, want), c)
								continue
							}
							if wres != nil && !reflect.DeepEqual(res, wres) {
								r.Violation("wrong result of "+mv.K, fmt.Sprintf("%+v: got %v want %v", c, res, wres), c)
								continue
							}
							if dump.Dump(other) != otherBefore || other.GetSlot() != otherSlot {
								r.Violation("a move of one iterator changes another iterator", fmt.Sprintf("%+v", c), c)
							}
							// GetNext then GetPrevious returns the same value and restores the slot
							if mv.K == "GetNext" && curSlot < n {
								back := cur.GetPrevious()
								if back != res || cur.GetSlot() != curSlot {
									r.Violation("GetNext;GetPrevious is not the identity", fmt.Sprintf("%+v", c), c)
								}
							}
							r.Outcome(mv.K)
						}
					}
				}
			}
		}
	}
	r.States += int64(len(states))
	r.Distinct += int64(len(states))
	r.Sample(map[string]any{"source": "list", "n": 3, "slot": 1, "slot2": 3, "move": "ToSlot(-5) on iterator 1"})
}

// ---- snapshots ----

type snapCase struct {
	Kind string `json:"kind"`
	N    int    `json:"n"`
	Mut  string `json:"mutation"`
}

// walk yields what the iterator enumerates forward and backward
func walk[V any](it age.IteratorLike[V]) (fwd, bwd []V) {
	it.ToStart()
	for it.HasNext() {
		fwd = append(fwd, it.GetNext())
	}
	for it.HasPrevious() {
		bwd = append(bwd, it.GetPrevious())
	}
	return
}

func rev[V any](a []V) []V {
	b := make([]V, len(a))
	for i := range a {
		b[len(a)-1-i] = a[i]
	}
	return b
}

// checkFresh: an iterator obtained AFTER the mutation enumerates the collection as it is now.
func checkFresh[V any](r *engine.Rec, c snapCase, coll col.Sequential[V], same func(a, b V) bool) {
	now := coll.AsArray()
	fwd, _ := walk(coll.GetIterator())
	ok := len(fwd) == len(now) && coll.GetSize() == len(now)
	for i := 0; ok && i < len(now); i++ {
		if !same(fwd[i], now[i]) {
			ok = false
		}
	}
	if !ok {
		r.Violation("an iterator obtained after a mutation of "+c.Kind+" does not enumerate the collection as it is now (mutation "+c.Mut+")",
			fmt.Sprintf("%+v: array view %v, new iterator yields %v", c, now, fwd), c)
	}
}

func checkSnap[V any](r *engine.Rec, c snapCase, before []V, it age.IteratorLike[V], same func(a, b V) bool) {
	fwd, bwd := walk(it)
	ok := len(fwd) == len(before) && len(bwd) == len(before)
	if ok {
		rb := rev(bwd)
		for i := range before {
			if !same(fwd[i], before[i]) || !same(rb[i], before[i]) {
				ok = false
			}
		}
	}
	if !ok || it.GetSize() != len(before) {
		r.Violation("iterator of "+c.Kind+" does not enumerate the collection as it was (mutation "+c.Mut+")",
			fmt.Sprintf("%+v: before %v forward %v backward %v", c, before, fwd, bwd), c)
	}
	r.Outcome(c.Kind)
}

func eqInt(a, b int) bool { return a == b }

func snapshots(r *engine.Rec) {
	maxN := 3
	if r.Tier == "thorough" {
		maxN = 7
	}
	mk := func(n int) []int {
		a := make([]int, n)
		for i := range a {
			a[i] = 10 * (i + 1)
		}
		return a
	}
	run := func(c snapCase, f func()) {
		if !r.Wanted(c) {
			return
		}
		out := rt.Protect(2000000, f)
		r.Evals++
		r.Transitions++
		if out.Panicked && !out.Fuel {
			// a mutation that is invalid in this state (e.g. RemoveValue on an empty list): not a snapshot case
			r.Outcome("invalid-mutation")
		}
		if out.Fuel {
			r.Violation("snapshot scenario does not terminate", fmt.Sprintf("%+v", c), c)
		}
	}
	N := common.N()
	for n := 0; n <= maxN; n++ {
		n := n
		// Array
		for _, mut := range []string{"SetValue(1)", "SetValue(-1)", "SetValues", "SortValues", "ReverseValues", "ShuffleValues", "SortValuesWithRanker"} {
			c := snapCase{"Array", n, mut}
			run(c, func() {
				a := col.Array[int](N).MakeFromArray(rev(mk(n)))
				before := a.AsArray()
				it := a.GetIterator()
				switch mut {
				case "SetValue(1)":
					a.SetValue(1, 99)
				case "SetValue(-1)":
					a.SetValue(-1, 99)
				case "SetValues":
					a.SetValues(1, col.List[int](N).MakeFromArray([]int{7}))
				case "SortValues":
					a.SortValues()
				case "ReverseValues":
					a.ReverseValues()
				case "ShuffleValues":
					rt.RandHook = func(max int64) int64 { return max - 1 }
					a.ShuffleValues()
					rt.RandHook = nil
				case "SortValuesWithRanker":
					a.SortValuesWithRanker(func(x, y int) age.Rank {
						if x < y {
							return age.LesserRank
						} else if x > y {
							return age.GreaterRank
						}
						return age.EqualRank
					})
				}
				checkSnap(r, c, before, it, eqInt)
				checkFresh[int](r, c, a, eqInt)
			})
		}
		// List
		for _, mut := range []string{"AppendValue", "InsertValue(0)", "InsertValues", "RemoveValue(1)", "RemoveValues", "RemoveAll", "SetValue(1)", "SetValues", "SortValues", "ReverseValues", "ShuffleValues", "AppendValues(self)"} {
			c := snapCase{"List", n, mut}
			run(c, func() {
				l := col.List[int](N).MakeFromArray(rev(mk(n)))
				before := l.AsArray()
				it := l.GetIterator()
				switch mut {
				case "AppendValue":
					l.AppendValue(99)
				case "InsertValue(0)":
					l.InsertValue(0, 99)
				case "InsertValues":
					l.InsertValues(0, col.List[int](N).MakeFromArray([]int{7, 8}))
				case "RemoveValue(1)":
					l.RemoveValue(1)
				case "RemoveValues":
					l.RemoveValues(1, -1)
				case "RemoveAll":
					l.RemoveAll()
				case "SetValue(1)":
					l.SetValue(1, 99)
				case "SetValues":
					l.SetValues(1, col.List[int](N).MakeFromArray([]int{7}))
				case "SortValues":
					l.SortValues()
				case "ReverseValues":
					l.ReverseValues()
				case "ShuffleValues":
					rt.RandHook = func(max int64) int64 { return max - 1 }
					l.ShuffleValues()
					rt.RandHook = nil
				case "AppendValues(self)":
					l.AppendValues(l)
				}
				checkSnap(r, c, before, it, eqInt)
				checkFresh[int](r, c, l, eqInt)
			})
		}
		// Set
		for _, mut := range []string{"AddValue(new-min)", "AddValue(new-max)", "AddValue(existing)", "RemoveValue(first)", "RemoveValue(absent)", "RemoveAll", "AddValues", "RemoveValues"} {
			c := snapCase{"Set", n, mut}
			run(c, func() {
				s := col.Set[int](N).MakeFromArray(mk(n))
				before := s.AsArray()
				it := s.GetIterator()
				switch mut {
				case "AddValue(new-min)":
					s.AddValue(1)
				case "AddValue(new-max)":
					s.AddValue(999)
				case "AddValue(existing)":
					s.AddValue(10)
				case "RemoveValue(first)":
					s.RemoveValue(10)
				case "RemoveValue(absent)":
					s.RemoveValue(5)
				case "RemoveAll":
					s.RemoveAll()
				case "AddValues":
					s.AddValues(col.List[int](N).MakeFromArray([]int{15, 5}))
				case "RemoveValues":
					s.RemoveValues(col.List[int](N).MakeFromArray([]int{10, 20}))
				}
				checkSnap(r, c, before, it, eqInt)
				checkFresh[int](r, c, s, eqInt)
			})
		}
		// Stack
		for _, mut := range []string{"AddValue", "RemoveTop", "RemoveAll"} {
			c := snapCase{"Stack", n, mut}
			run(c, func() {
				s := col.Stack[int](N).MakeFromArray(mk(n))
				before := s.AsArray()
				it := s.GetIterator()
				switch mut {
				case "AddValue":
					s.AddValue(99)
				case "RemoveTop":
					s.RemoveTop()
				case "RemoveAll":
					s.RemoveAll()
				}
				checkSnap(r, c, before, it, eqInt)
				checkFresh[int](r, c, s, eqInt)
			})
		}
		// Queue (capacity 16: none of these blocks; RemoveHead only on a non-empty queue)
		for _, mut := range []string{"AddValue", "RemoveHead", "RemoveAll", "CloseQueue"} {
			c := snapCase{"Queue", n, mut}
			if mut == "RemoveHead" && n == 0 {
				continue
			}
			run(c, func() {
				q := col.Queue[int](N).MakeFromArray(mk(n))
				before := q.AsArray()
				it := q.GetIterator()
				switch mut {
				case "AddValue":
					q.AddValue(99)
				case "RemoveHead":
					q.RemoveHead()
				case "RemoveAll":
					q.RemoveAll()
				case "CloseQueue":
					q.CloseQueue()
				}
				checkSnap(r, c, before, it, eqInt)
				if mut != "CloseQueue" {
					checkFresh[int](r, c, q, eqInt)
				}
			})
		}
		// Catalog: the iterator yields the association objects in order; keys and identities must not change
		for _, mut := range []string{"SetValue(new)", "RemoveValue(first)", "RemoveAll", "SortValues", "ReverseValues", "RemoveValues"} {
			c := snapCase{"Catalog", n, mut}
			run(c, func() {
				cat := col.Catalog[int, string](N).Make()
				for _, k := range rev(mk(n)) {
					cat.SetValue(k, fmt.Sprint("v", k))
				}
				before := cat.AsArray()
				it := cat.GetIterator()
				switch mut {
				case "SetValue(new)":
					cat.SetValue(5, "new")
				case "RemoveValue(first)":
					cat.RemoveValue(10 * n)
				case "RemoveAll":
					cat.RemoveAll()
				case "SortValues":
					cat.SortValues()
				case "ReverseValues":
					cat.ReverseValues()
				case "RemoveValues":
					cat.RemoveValues(col.List[int](N).MakeFromArray([]int{10, 20}))
				}
				checkSnap(r, c, before, it, func(a, b col.AssociationLike[int, string]) bool { return a == b })
				checkFresh[col.AssociationLike[int, string]](r, c, cat, func(a, b col.AssociationLike[int, string]) bool { return a == b })
			})
		}
		// Map: the iterator yields copies; compare (key,value) multisets
		for _, mut := range []string{"SetValue(new)", "SetValue(existing)", "RemoveValue", "RemoveAll", "RemoveValues"} {
			c := snapCase{"Map", n, mut}
			run(c, func() {
				m := col.Map[int, string](N).Make()
				for _, k := range mk(n) {
					m.SetValue(k, fmt.Sprint("v", k))
				}
				pairs := func(a []col.AssociationLike[int, string]) []string {
					var s []string
					for _, x := range a {
						s = append(s, fmt.Sprint(x.GetKey(), "=", x.GetValue()))
					}
					sort.Strings(s)
					return s
				}
				before := pairs(m.AsArray())
				it := m.GetIterator()
				switch mut {
				case "SetValue(new)":
					m.SetValue(5, "new")
				case "SetValue(existing)":
					m.SetValue(10, "changed")
				case "RemoveValue":
					m.RemoveValue(10)
				case "RemoveAll":
					m.RemoveAll()
				case "RemoveValues":
					m.RemoveValues(col.List[int](N).MakeFromArray([]int{10, 20}))
				}
				fwd, bwd := walk(it)
				if !reflect.DeepEqual(pairs(fwd), before) || !reflect.DeepEqual(pairs(bwd), before) {
					r.Violation("iterator of Map does not enumerate the collection as it was (mutation "+mut+")",
						fmt.Sprintf("%+v before %v forward %v", c, before, pairs(fwd)), c)
				}
				r.Outcome("Map")
			})
		}
		// Map whose keys include some that Go's == never finds again (not-a-number): such an entry can only be
		// reached by walking the map, and the iterator still lists it with the value stored under it
		for _, mut := range []string{"none", "SetValue(new)", "SetValue(existing)", "RemoveAll"} {
			c := snapCase{"Map with not-a-number keys", n, mut}
			run(c, func() {
				m := col.Map[float64, string](N).Make()
				var before []string
				for i, k := range mk(n) {
					key := float64(k)
					if i%2 == 0 {
						key = math.NaN()
					}
					m.SetValue(key, fmt.Sprint("v", k))
					before = append(before, fmt.Sprint(key, "=", "v", k))
				}
				sort.Strings(before)
				pairs := func(a []col.AssociationLike[float64, string]) []string {
					s := []string{}
					for _, x := range a {
						s = append(s, fmt.Sprint(x.GetKey(), "=", x.GetValue()))
					}
					sort.Strings(s)
					return s
				}
				if len(before) == 0 {
					before = []string{}
				}
				it := m.GetIterator()
				switch mut {
				case "SetValue(new)":
					m.SetValue(5, "new")
				case "SetValue(existing)":
					m.SetValue(20, "changed")
				case "RemoveAll":
					m.RemoveAll()
				}
				fwd, bwd := walk(it)
				if !reflect.DeepEqual(pairs(fwd), before) || !reflect.DeepEqual(pairs(bwd), before) {
					r.Violation("iterator of Map with not-a-number keys does not enumerate the collection as it was (mutation "+mut+")",
						fmt.Sprintf("%+v before %v forward %v backward %v", c, before, pairs(fwd), pairs(bwd)), c)
				}
				r.Outcome("Map/NaN")
			})
		}
		r.States++
	}
	r.Distinct += int64(len(r.Outcomes))
	r.Sample(map[string]any{"kind": "Set", "n": 2, "mutation": "AddValue(new-min)", "then": "walk the earlier iterator both ways"})
}

func init() {
	engine.Register(&engine.Check{
		ID:        "C17",
		Technique: "explicit-state enumeration of the real iterator: every (size, slot, second-iterator slot) state x every move incl. ToSlot(k) for k in -n-2..n+2 and at the ends of the int range on either iterator (covers move sequences of any length), plus snapshot scenarios for all seven collection kinds x every mutating operation",
		Rule:      "state = (source, size, slot, slot of a second iterator over the same collection); transition = one move on the real iterator compared with a (slice, slot) model",
		Assume:    []string{"sizes 0..4 (quick) / 0..9 (thorough)", "ToSlot(k<-size) admits slot 0 or 1 (the statement only says clamp)", "Catalog iterators yield live association handles by design (compared by identity)"},
		Budget:    func(string) time.Duration { return 2 * time.Minute },
		Units: func(string) []engine.Unit {
			return []engine.Unit{{Name: "cursor", Run: cursor}, {Name: "snapshots", Run: snapshots}, {Name: "move-histories", Run: histories}}
		},
	})
}
