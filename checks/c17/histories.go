package c17

import (
	"fmt"
	"reflect"

	"verif/engine"
	"verif/engine/dump"
)

// histories: explicit-state search over the iterator's private state. The
// cursor unit positions a fresh iterator with ToSlot and makes one move; an
// iterator that remembers something from an earlier move (the last value it
// returned, a direction) reaches states that positioning alone never does.
// Every move is applied in every state reachable by moves.

type histCase struct {
	Source string `json:"source"`
	N      int    `json:"n"`
	Path   []Move `json:"path"`
	Move   Move   `json:"move"`
}

func histories(r *engine.Rec) {
	maxN := 3
	if r.Tier == "thorough" {
		maxN = 7
	}
	total := 0
	for _, source := range []string{"agent", "list", "array"} {
		for n := 0; n <= maxN; n++ {
			vals := make([]int, n)
			for i := range vals {
				vals[i] = 10 + i
			}
			ms := moves(n)
			seen := map[string]bool{dump.Dump(mkIter(source, vals)): true}
			frontier := [][]Move{nil}
			for len(frontier) > 0 {
				if r.TimeUp() {
					r.Incomplete("time budget")
					return
				}
				path := frontier[0]
				frontier = frontier[1:]
				for _, mv := range ms {
					c := histCase{source, n, path, mv}
					if !r.Wanted(c) {
						continue
					}
					it := mkIter(source, vals)
					bad := false
					for _, p := range path {
						if _, out := do(it, p); out.Panicked {
							bad = true
						}
					}
					if bad {
						continue
					}
					slot := it.GetSlot()
					want, wres := step(vals, slot, mv)
					res, out := do(it, mv)
					r.Evals++
					r.Transitions++
					switch {
					case out.Panicked:
						r.Violation("iterator move panics after a history of moves: "+mv.K, fmt.Sprintf("%+v: %s", c, out.Value), c)
						continue
					case !contains(want, it.GetSlot()):
						r.Violation("wrong slot after "+mv.K+" (after a history of moves)", fmt.Sprintf("%+v: slot %d, admitted %v", c, it.GetSlot(), want), c)
						continue
					case wres != nil && !reflect.DeepEqual(res, wres):
						r.Violation("wrong result of "+mv.K+" (after a history of moves)", fmt.Sprintf("%+v: got %v want %v", c, res, wres), c)
						continue
					case it.HasNext() != (it.GetSlot() < n) || it.HasPrevious() != (it.GetSlot() > 0) || it.GetSize() != n || it.IsEmpty() != (n == 0):
						r.Violation("HasNext/HasPrevious/GetSize/IsEmpty disagree with the slot (after a history of moves)", fmt.Sprintf("%+v: slot %d", c, it.GetSlot()), c)
						continue
					}
					k := dump.Dump(it)
					if !seen[k] {
						seen[k] = true
						frontier = append(frontier, append(append([]Move(nil), path...), mv))
					}
				}
			}
			total += len(seen)
		}
	}
	r.States += int64(total)
	r.Distinct += int64(total)
	r.Sample(histCase{"agent", 1, []Move{{K: "GetNext"}}, Move{K: "GetNext"}})
}
