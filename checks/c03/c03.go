// Package c03: Catalog is an insertion-ordered map whose key index and order
// never diverge.
package c03

import (
	"fmt"
	"reflect"
	"strings"
	"time"

	age "github.com/craterdog/go-collection-framework/v4/agent"
	col "github.com/craterdog/go-collection-framework/v4/collection"
	rt "github.com/craterdog/go-collection-framework/v4/verifrt"
	"verif/checks/common"
	"verif/engine"
	"verif/engine/dump"
	"verif/engine/seqx"
)

type Op struct {
	K  string `json:"k"`
	Ki int    `json:"key,omitempty"`
	Vi int    `json:"val,omitempty"`
	Ks []int  `json:"keys,omitempty"`
	R  []int  `json:"r,omitempty"`
}

const fuel = 2000000

type pair[K comparable] struct {
	k K
	v string
}

type cfg[K comparable] struct {
	name    string
	keys    []K // universe; the last one is never inserted by SetValue
	less    func(a, b K) bool
	maxSize int
	bad     []K // keys on which a lookup fails (an interface key holding a value that cannot be hashed)
}

var vals = []string{"x", ""} // repeated across keys; the zero value is storable

func keySeqs(nkeys, maxLen int) [][]int {
	out := [][]int{{}}
	var rec func(cur []int)
	rec = func(cur []int) {
		if len(cur) == maxLen {
			return
		}
		for k := 0; k < nkeys; k++ {
			n := append(append([]int(nil), cur...), k)
			out = append(out, n)
			rec(n)
		}
	}
	rec(nil)
	return out
}

func find[K comparable](m []pair[K], k K) int {
	for i, p := range m {
		if p.k == k {
			return i
		}
	}
	return -1
}

func run[K comparable](r *engine.Rec, c *cfg[K]) {
	name := c.name
	seqLen := 2
	if r.Tier == "thorough" {
		seqLen = 3
	}
	seqs := keySeqs(len(c.keys), seqLen)
	C := func() col.CatalogClassLike[K, string] { return col.Catalog[K, string](common.N()) }
	A := func(k K, v string) col.AssociationLike[K, string] {
		return col.Association[K, string](common.N()).Make(k, v)
	}
	s := &seqx.Search[Op]{Name: name, MaxSize: c.maxSize}
	// guards: what was handed to a constructor must stay independent of the catalog
	var guardAssocs []col.AssociationLike[K, string]
	var guardVals []string
	var guardSrc any
	var guardDump string
	gk := func() string {
		if guardAssocs != nil || guardSrc != nil {
			return "guarded:"
		}
		return ""
	}
	guardBroken := func() string {
		for i, a := range guardAssocs {
			if a.GetValue() != guardVals[i] {
				return fmt.Sprintf("the caller's association %v now has value %q (was %q)", a.GetKey(), a.GetValue(), guardVals[i])
			}
		}
		if guardSrc != nil && common.View(guardSrc) != guardDump {
			return "the source catalog changed"
		}
		return ""
	}
	s.Inits = []Op{{K: "Make"}, {K: "MakeFromCatalog", Ks: []int{1, 0}}, {K: "MakeFromCatalog", Ks: []int{2}}, {K: "MakeFromArray", Ks: []int{1, 0, 1}}, {K: "MakeFromSequence", Ks: []int{2, 2, 0}}, {K: "MakeFromArray"},
		{K: "MakeFromMap", Ks: []int{1}}, {K: "MakeFromMap"}, {K: "MakeFromMapLeaf", Ks: []int{0, 1, 2}}}
	s.Ops = func(n int) []Op {
		var ops []Op
		for k := range c.keys {
			if k < len(c.keys)-1 {
				for v := range vals {
					ops = append(ops, Op{K: "SetValue", Ki: k, Vi: v})
				}
			}
			ops = append(ops, Op{K: "GetValue", Ki: k}, Op{K: "RemoveValue", Ki: k})
		}
		for _, ks := range seqs {
			ops = append(ops, Op{K: "GetValues", Ks: ks}, Op{K: "RemoveValues", Ks: ks})
		}
		if len(c.bad) > 0 {
			// a key sequence with an unusable key in the middle: the call fails, and whatever it leaves behind must
			// still be a catalog (index and order agreeing) in a state that a prefix of the call explains
			for _, ks := range [][]int{{0, -1, 1}, {-1, 0}, {1, 0, -1}} {
				ops = append(ops, Op{K: "RemoveValuesBad", Ks: ks}, Op{K: "GetValuesBad", Ks: ks})
			}
			ops = append(ops, Op{K: "SetValueBad"}, Op{K: "GetValueBad"}, Op{K: "RemoveValueBad"})
		}
		ops = append(ops, Op{K: "GetKeys"}, Op{K: "RemoveAll"}, Op{K: "SortValues"}, Op{K: "SortByValueDesc"}, Op{K: "ReverseValues"}, Op{K: "Observe"})
		total := 1
		for i := 0; i < n; i++ {
			total *= n
		}
		if n > 4 {
			total = 1
		}
		for code := 0; code < total; code++ {
			rr := make([]int, n)
			x := code
			for i := range rr {
				rr[i] = x % n
				x /= n
			}
			ops = append(ops, Op{K: "ShuffleValues", R: rr})
		}
		return ops
	}
	build := func(op Op) (cat col.CatalogLike[K, string], m []pair[K], out rt.Outcome) {
		set := func(k K, v string) {
			if i := find(m, k); i >= 0 {
				m[i].v = v
			} else {
				m = append(m, pair[K]{k, v})
			}
		}
		guardAssocs, guardVals, guardSrc, guardDump = nil, nil, nil, ""
		out = rt.Protect(fuel, func() {
			switch op.K {
			case "Make":
				cat = C().Make()
			case "MakeFromCatalog":
				src := C().Make()
				for i, ki := range op.Ks {
					v := vals[i%len(vals)]
					src.SetValue(c.keys[ki], v)
					set(c.keys[ki], v)
				}
				cat = C().MakeFromSequence(src)
				guardSrc, guardDump = src, common.View(src)
			case "MakeFromArray", "MakeFromSequence":
				var as []col.AssociationLike[K, string]
				for i, ki := range op.Ks {
					v := vals[i%len(vals)]
					as = append(as, A(c.keys[ki], v))
					set(c.keys[ki], v)
				}
				for _, a := range as {
					guardAssocs = append(guardAssocs, a)
					guardVals = append(guardVals, a.GetValue())
				}
				if op.K == "MakeFromArray" {
					cat = C().MakeFromArray(as)
				} else {
					cat = C().MakeFromSequence(col.List[col.AssociationLike[K, string]](common.N()).MakeFromArray(as))
				}
			case "MakeFromMap", "MakeFromMapLeaf":
				gm := map[K]string{}
				for i, ki := range op.Ks {
					gm[c.keys[ki]] = vals[i%len(vals)]
				}
				cat = C().MakeFromMap(gm)
				// order unconstrained: adopt the implementation's order after checking the mapping
				for _, a := range cat.AsArray() {
					m = append(m, pair[K]{a.GetKey(), gm[a.GetKey()]})
				}
				if len(m) != len(gm) {
					m = append(m, pair[K]{}) // forces a mismatch below
				}
			}
		})
		return
	}
	type exp struct {
		m    []pair[K]
		res  any
		perm bool
	}
	model := func(op Op, m []pair[K]) exp {
		cp := append([]pair[K](nil), m...)
		switch op.K {
		case "SetValue":
			k, v := c.keys[op.Ki], vals[op.Vi]
			if i := find(cp, k); i >= 0 {
				cp[i].v = v
			} else {
				cp = append(cp, pair[K]{k, v})
			}
			return exp{m: cp}
		case "GetValue":
			if i := find(m, c.keys[op.Ki]); i >= 0 {
				return exp{m: cp, res: m[i].v}
			}
			return exp{m: cp, res: ""}
		case "RemoveValue":
			if i := find(m, c.keys[op.Ki]); i >= 0 {
				return exp{m: append(cp[:i:i], cp[i+1:]...), res: m[i].v}
			}
			return exp{m: cp, res: ""}
		case "GetValues":
			out := []string{}
			for _, ki := range op.Ks {
				if i := find(m, c.keys[ki]); i >= 0 {
					out = append(out, m[i].v)
				} else {
					out = append(out, "")
				}
			}
			return exp{m: cp, res: out}
		case "RemoveValues":
			out := []string{}
			for _, ki := range op.Ks {
				if i := find(cp, c.keys[ki]); i >= 0 {
					out = append(out, cp[i].v)
					cp = append(cp[:i:i], cp[i+1:]...)
				} else {
					out = append(out, "")
				}
			}
			return exp{m: cp, res: out}
		case "GetKeys":
			out := []K{}
			for _, p := range m {
				out = append(out, p.k)
			}
			return exp{m: cp, res: out}
		case "RemoveAll":
			return exp{m: nil}
		case "ReverseValues":
			for i, j := 0, len(cp)-1; i < j; i, j = i+1, j-1 {
				cp[i], cp[j] = cp[j], cp[i]
			}
			return exp{m: cp}
		case "SortValues", "SortByValueDesc", "ShuffleValues":
			return exp{m: cp, perm: true}
		}
		return exp{m: cp}
	}
	apply := func(op Op, cat col.CatalogLike[K, string]) (res any, out rt.Outcome) {
		ri := 0
		rt.RandHook = func(max int64) int64 {
			if ri < len(op.R) {
				ri++
				return int64(op.R[ri-1]) % max
			}
			return 0
		}
		defer func() { rt.RandHook = nil }()
		keyseq := func() col.Sequential[K] {
			var ks []K
			for _, ki := range op.Ks {
				if ki < 0 {
					ks = append(ks, c.bad[0])
					continue
				}
				ks = append(ks, c.keys[ki])
			}
			return col.List[K](common.N()).MakeFromArray(ks)
		}
		out = rt.Protect(fuel, func() {
			switch op.K {
			case "SetValue":
				cat.SetValue(c.keys[op.Ki], vals[op.Vi])
			case "GetValue":
				res = cat.GetValue(c.keys[op.Ki])
			case "RemoveValue":
				res = cat.RemoveValue(c.keys[op.Ki])
			case "GetValues":
				res = append([]string{}, cat.GetValues(keyseq()).AsArray()...)
			case "RemoveValues", "RemoveValuesBad":
				res = append([]string{}, cat.RemoveValues(keyseq()).AsArray()...)
			case "GetValuesBad":
				res = append([]string{}, cat.GetValues(keyseq()).AsArray()...)
			case "SetValueBad":
				cat.SetValue(c.bad[0], vals[0])
			case "GetValueBad":
				res = cat.GetValue(c.bad[0])
			case "RemoveValueBad":
				res = cat.RemoveValue(c.bad[0])
			case "GetKeys":
				res = append([]K{}, cat.GetKeys().AsArray()...)
			case "RemoveAll":
				cat.RemoveAll()
			case "SortValues":
				cat.SortValues()
			case "SortByValueDesc":
				cat.SortValuesWithRanker(func(a, b col.AssociationLike[K, string]) age.Rank {
					switch {
					case a.GetValue() > b.GetValue():
						return age.LesserRank
					case a.GetValue() < b.GetValue():
						return age.GreaterRank
					}
					return age.EqualRank
				})
			case "ReverseValues":
				cat.ReverseValues()
			case "ShuffleValues":
				cat.ShuffleValues()
			}
		})
		return
	}
	// contents through the API
	contents := func(cat col.CatalogLike[K, string]) []pair[K] {
		var out []pair[K]
		for _, a := range cat.AsArray() {
			out = append(out, pair[K]{a.GetKey(), a.GetValue()})
		}
		return out
	}
	samePairs := func(a, b []pair[K]) bool {
		if len(a) != len(b) {
			return false
		}
		for i := range a {
			if a[i] != b[i] {
				return false
			}
		}
		return true
	}
	permPairs := func(a, b []pair[K]) bool {
		if len(a) != len(b) {
			return false
		}
		for _, p := range a {
			i := find(b, p.k)
			if i < 0 || b[i].v != p.v {
				return false
			}
		}
		return true
	}
	// coherence of the private index and the private order
	coherent := func(cat col.CatalogLike[K, string]) (why string) {
		// The private index is inspected only while it has the layout the property is
		// anchored in (a Go map from key to association or to value); with any other
		// layout - or if reflection on it fails - the API-level checks below decide alone.
		defer func() {
			if recover() != nil {
				why = ""
			}
		}()
		km := dump.Field(cat, "keys_")
		if !km.IsValid() || km.Kind() != reflect.Map || km.Type().Key() != reflect.TypeOf((*K)(nil)).Elem() {
			return ""
		}
		arr := cat.AsArray()
		if km.Len() != len(arr) {
			return fmt.Sprintf("index has %d entries, order has %d", km.Len(), len(arr))
		}
		for _, a := range arr {
			v := km.MapIndex(reflect.ValueOf(a.GetKey()))
			if !v.IsValid() {
				return fmt.Sprintf("key %v is in the order but not in the index", a.GetKey())
			}
			if !v.CanInterface() {
				continue
			}
			switch x := v.Interface().(type) {
			case col.AssociationLike[K, string]:
				if x == nil || x.GetKey() != a.GetKey() || x.GetValue() != a.GetValue() {
					return fmt.Sprintf("index and order hold different associations for key %v", a.GetKey())
				}
			case string:
				if x != a.GetValue() {
					return fmt.Sprintf("index and order hold different values for key %v", a.GetKey())
				}
			}
		}
		return ""
	}
	s.Exec = func(path []Op, op Op) seqx.Step {
		cs := seqx.Case[Op]{Search: name, Path: path, Op: op}
		viol := func(sig, detail string) seqx.Step {
			r.Violation(sig, fmt.Sprintf("[%s] %s\npath: %+v\nop: %+v", name, detail, path, op), cs)
			return seqx.Step{}
		}
		if len(path) == 0 {
			cat, m, out := build(op)
			if out.Panicked {
				return viol("constructor "+op.K+" fails", out.Value)
			}
			if !samePairs(contents(cat), m) {
				return viol("constructor "+op.K+" wrong contents", fmt.Sprint(contents(cat), m))
			}
			if why := coherent(cat); why != "" {
				return viol("constructor "+op.K+": key index and order diverge", why)
			}
			if why := guardBroken(); why != "" {
				return viol("constructor "+op.K+" writes into what it was given", why)
			}
			return seqx.Step{Key: gk() + dump.Dump(cat), Size: len(m), Expand: op.K != "MakeFromMapLeaf"}
		}
		cat, m, out := build(path[0])
		if out.Panicked {
			return seqx.Step{}
		}
		for _, p := range path[1:] {
			e := model(p, m)
			_, o := apply(p, cat)
			rt.Protect(fuel, func() { // observe after every replayed step (populates anything the catalog caches)
				cat.AsArray()
				cat.GetKeys()
				cat.GetSize()
				it := cat.GetIterator()
				for it.HasNext() {
					it.GetNext()
				}
			})
			if strings.HasSuffix(p.K, "Bad") {
				m = contents(cat) // was checked to be an admissible state when this transition was first executed
				continue
			}
			if o.Panicked {
				continue
			}
			if e.perm {
				m = contents(cat)
			} else {
				m = e.m
			}
		}
		e := model(op, m)
		res, o := apply(op, cat)
		after := dump.Dump(cat)
		r.Max("fuel_ticks", o.Ticks)
		if o.Fuel {
			return viol(op.K+" does not terminate", "fuel")
		}
		if strings.HasSuffix(op.K, "Bad") {
			if !o.Panicked {
				return seqx.Step{} // a library that copes with such a key: nothing to compare with
			}
			// admissible: the catalog as it was, or with the keys in front of the unusable one removed
			got := contents(cat)
			adm := [][]pair[K]{m}
			if op.K == "RemoveValuesBad" {
				cur := m
				for _, ki := range op.Ks {
					if ki < 0 {
						break
					}
					var nm []pair[K]
					for _, p := range cur {
						if p.k != c.keys[ki] {
							nm = append(nm, p)
						}
					}
					cur = nm
					adm = append(adm, cur)
				}
			}
			okState := false
			for _, a := range adm {
				if samePairs(got, a) {
					okState = true
					e = exp{m: a}
				}
			}
			if !okState {
				return viol(op.K+": a call that fails on a key it cannot use leaves associations that no prefix of the call explains", fmt.Sprintf("before %v after %v", m, got))
			}
			res, e.res = nil, nil
		} else if o.Panicked {
			return viol(op.K+" panics", o.Value)
		}
		r.Outcome(op.K)
		got := contents(cat)
		if e.perm {
			if !permPairs(got, m) {
				return viol(op.K+" changes the key-to-value mapping", fmt.Sprintf("before %v after %v", m, got))
			}
			switch op.K {
			case "SortValues":
				for i := 0; i+1 < len(got); i++ {
					if c.less != nil && c.less(got[i+1].k, got[i].k) {
						return viol("SortValues result not ascending by key", fmt.Sprint(got))
					}
				}
			case "SortByValueDesc":
				for i := 0; i+1 < len(got); i++ {
					if got[i].v < got[i+1].v {
						return viol("SortValuesWithRanker result not ordered by the ranker", fmt.Sprint(got))
					}
				}
			}
			e.m = got
		} else if !samePairs(got, e.m) {
			return viol(op.K+" wrong resulting catalog", fmt.Sprintf("before %v: got %v want %v", m, got, e.m))
		}
		if e.res != nil && !reflect.DeepEqual(res, e.res) {
			return viol(op.K+" wrong result", fmt.Sprintf("catalog %v: got %v want %v", m, res, e.res))
		}
		if why := coherent(cat); why != "" {
			return viol("key index and order diverge after "+op.K, why+fmt.Sprintf("\nbefore %v after %v", m, got))
		}
		if why := seqx.Interference(func() (func() string, func(), bool) {
			cc, _, out := build(path[0])
			if out.Panicked {
				return nil, nil, false
			}
			for _, p := range path[1:] {
				apply(p, cc)
			}
			return func() string { return common.View(cc) }, func() { apply(op, cc) }, true
		}, []func() func() string{
			func() func() string {
				b := C().Make()
				b.SetValue(c.keys[0], "bystander")
				b.SetValue(c.keys[1], "bystander")
				return func() string { return common.View(b) }
			},
			func() func() string {
				b := C().Make()
				b.SetValue(c.keys[1], "p")
				b.SetValue(c.keys[0], "q")
				x := C().Extract(b, col.List[K](common.N()).MakeFromArray([]K{c.keys[0], c.keys[2]}))
				y := C().Merge(b, x)
				b.RemoveValue(c.keys[1])
				return func() string { return common.View(b) + common.View(x) + common.View(y) }
			},
			func() func() string {
				b := C().Make()
				b.SetValue(c.keys[2], "r")
				b.RemoveAll()
				b.SetValue(c.keys[0], "s")
				b.SortValues()
				return func() string { return common.View(b) }
			},
		}); why != "" {
			return viol("catalogs of one type are not independent of each other", why)
		}
		// API-level coherence
		{
			type AL = col.AssociationLike[K, string]
			if why := common.TwoLiveIterators[AL](func() age.IteratorLike[AL] { return cat.GetIterator() }, cat.AsArray(), true); why != "" {
				return viol("two iterators over one catalog influence each other", why)
			}
		}
		keys := cat.GetKeys().AsArray()
		if len(keys) != len(e.m) || cat.GetSize() != len(e.m) || cat.IsEmpty() != (len(e.m) == 0) {
			return viol("GetKeys/size disagree with the array view after "+op.K, fmt.Sprint(keys, e.m))
		}
		it := cat.GetIterator()
		for i, p := range e.m {
			if keys[i] != p.k {
				return viol("GetKeys order disagrees with the array view after "+op.K, fmt.Sprint(keys, e.m))
			}
			a := it.GetNext()
			if a == nil || a.GetKey() != p.k || a.GetValue() != p.v {
				return viol("iterator disagrees with the array view after "+op.K, fmt.Sprint(e.m))
			}
		}
		for _, k := range c.keys {
			want := ""
			if i := find(e.m, k); i >= 0 {
				want = e.m[i].v
			}
			if cat.GetValue(k) != want {
				return viol("GetValue disagrees with the array view after "+op.K, fmt.Sprintf("key %v: %q want %q; %v", k, cat.GetValue(k), want, e.m))
			}
		}
		if why := guardBroken(); why != "" {
			return viol(op.K+" on a catalog changes what its constructor was given (shared association objects)", why)
		}
		if len(r.Samples) < 2 && len(path) >= 3 {
			r.Sample(map[string]any{"search": name, "path": fmt.Sprintf("%+v", path), "op": fmt.Sprintf("%+v", op), "after": fmt.Sprint(e.m)})
		}
		return seqx.Step{Key: gk() + after, Size: len(e.m), Expand: true}
	}
	s.Run(r)
}

func units(tier string) []engine.Unit {
	var us []engine.Unit
	add := func(name string, f func(r *engine.Rec)) { us = append(us, engine.Unit{Name: name, Run: f}) }
	add("string", func(r *engine.Rec) {
		run(r, &cfg[string]{name: "Catalog[string]", keys: []string{"b", "a", "", "zz"}, less: func(a, b string) bool { return a < b }, maxSize: 9})
	})
	if tier == "thorough" {
		add("string-5-keys", func(r *engine.Rec) {
			run(r, &cfg[string]{name: "Catalog[string] five keys", keys: []string{"b", "a", "", "m", "zz"}, less: func(a, b string) bool { return a < b }, maxSize: 9})
		})
	}
	add("int", func(r *engine.Rec) {
		run(r, &cfg[int]{name: "Catalog[int]", keys: []int{2, -1, 0, 9}, less: func(a, b int) bool { return a < b }, maxSize: 9})
	})
	add("rune", func(r *engine.Rec) {
		run(r, &cfg[rune]{name: "Catalog[rune]", keys: []rune{'b', 'a', 0x10ffff, 'z'}, less: func(a, b rune) bool { return a < b }, maxSize: 9})
	})
	add("float64", func(r *engine.Rec) {
		negZero := 0.0
		negZero = -negZero
		_ = negZero
		run(r, &cfg[float64]{name: "Catalog[float64]", keys: []float64{1.5, -2, 0, 7}, less: func(a, b float64) bool { return a < b }, maxSize: 9})
	})
	add("any", func(r *engine.Rec) {
		run(r, &cfg[any]{name: "Catalog[any]", keys: []any{1, int64(1), "1", 2.5}, maxSize: 9, bad: []any{[]int{1}}})
	})
	add("pointer", func(r *engine.Rec) {
		x, y, z, w := 5, 5, 5, 6
		run(r, &cfg[*int]{name: "Catalog[*int] (distinct keys, structurally equal content)", keys: []*int{&x, &y, &z, &w}, maxSize: 9})
	})
	add("any-pointer", func(r *engine.Rec) {
		x, y := 5, 5
		run(r, &cfg[any]{name: "Catalog[any] holding pointer keys", keys: []any{&x, &y, "k", 1}, maxSize: 9})
	})
	add("size-ladder", catalogLadder)
	add("keys-not-equal-to-themselves", nanKeys)
	return us
}

func init() {
	engine.Register(&engine.Check{
		ID:        "C03",
		Technique: "explicit-state search over the real Catalog: every reachable ordered content over 3 insertable keys x every operation (all key sequences up to length 2/3 for the bulk operations, every random answer sequence for ShuffleValues), for seven key types incl. pointer keys; ordered-slice model; the private key index and the private order are compared on every state",
		Rule:      "state = dump of private fields (index map and association list); transition = (state, op)",
		Assume:    []string{"4-key universes (one key never inserted), 2 values repeated across keys", "MakeFromMap order is unconstrained (multi-entry maps are checked as leaves only)"},
		Budget: func(tier string) time.Duration {
			// the quick search finishes in seconds; the budget only bounds a search whose state space a change of
			// the library has made unbounded (a private modification counter): reported as not exhaustive
			if tier == "thorough" {
				return 15 * time.Minute
			}
			return 90 * time.Second
		},
		Units: units,
	})
}
