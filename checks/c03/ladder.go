package c03

import (
	"fmt"

	age "github.com/craterdog/go-collection-framework/v4/agent"
	col "github.com/craterdog/go-collection-framework/v4/collection"
	rt "github.com/craterdog/go-collection-framework/v4/verifrt"
	"verif/checks/common"
	"verif/engine"
)

// The explicit-state search covers every history over four keys. Code that
// depends on the size of the catalog (index rebuilds, growth and shrink
// thresholds) is reached by chains that pass through every size up to maxN and
// back, with every view compared with an ordered-map model after every step.

type ladderCase struct {
	Chain string `json:"chain"`
	Step  int    `json:"step"`
}

type lkv struct {
	k string
	v int
}

func catalogLadder(r *engine.Rec) {
	maxN := 72
	if r.Tier == "thorough" {
		maxN = 260
	}
	key := func(i int) string { return fmt.Sprintf("k%03d", i) }
	check := func(c ladderCase, cat col.CatalogLike[string, int], m []lkv, universe int) bool {
		arr := cat.AsArray()
		bad := len(arr) != len(m) || cat.GetSize() != len(m) || cat.IsEmpty() != (len(m) == 0)
		for i := 0; !bad && i < len(m); i++ {
			bad = arr[i].GetKey() != m[i].k || arr[i].GetValue() != m[i].v
		}
		if bad {
			r.Violation("array view or size disagree with the associations set and not removed (size ladder)", fmt.Sprintf("%+v: %d associations, want %d", c, len(arr), len(m)), c)
			return false
		}
		keys := cat.GetKeys().AsArray()
		for i := range m {
			if i >= len(keys) || keys[i] != m[i].k {
				r.Violation("GetKeys disagrees with the array view (size ladder)", fmt.Sprintf("%+v", c), c)
				return false
			}
		}
		in := map[string]int{}
		for _, p := range m {
			in[p.k] = p.v
		}
		for i := 0; i < universe; i++ {
			k := key(i)
			if got := cat.GetValue(k); got != in[k] {
				r.Violation("GetValue disagrees with the array view (size ladder)", fmt.Sprintf("%+v: GetValue(%s) = %d, the listed association holds %d", c, k, got, in[k]), c)
				return false
			}
		}
		type AL = col.AssociationLike[string, int]
		if why := common.TwoLiveIterators[AL](func() age.IteratorLike[AL] { return cat.GetIterator() }, arr, true); why != "" {
			r.Violation("two iterators over one catalog influence each other (size ladder)", fmt.Sprintf("%+v: %s", c, why), c)
			return false
		}
		// an iterator taken before an in-place reordering keeps enumerating the catalog as it was
		if len(m) >= 2 {
			it := cat.GetIterator()
			var seen []string
			seen = append(seen, it.GetNext().GetKey())
			cat.ReverseValues()
			for n := 0; it.HasNext() && n <= len(m); n++ {
				seen = append(seen, it.GetNext().GetKey())
			}
			cat.ReverseValues() // back to the order the chain expects
			for i := range m {
				if i >= len(seen) || seen[i] != m[i].k {
					r.Violation("an iterator does not enumerate the catalog as it was when ReverseValues is called during the iteration (size ladder)", fmt.Sprintf("%+v: position %d", c, i+1), c)
					return false
				}
			}
		}
		return true
	}
	chain := func(name string, steps int, step func(cat col.CatalogLike[string, int], m []lkv, i int) []lkv) {
		cat := col.Catalog[string, int](common.N()).Make()
		var m []lkv
		for i := 0; i < steps; i++ {
			c := ladderCase{name, i}
			if !r.Wanted(c) && r.ReplayCase != nil {
				// replays re-run the whole chain: the case names the chain
			}
			var nm []lkv
			out := rt.Protect(40000000, func() { nm = step(cat, m, i) })
			r.Evals++
			r.Transitions++
			if out.Panicked || out.Fuel {
				r.Violation("a valid call fails (size ladder)", fmt.Sprintf("%+v: %s", c, out.Value), c)
				return
			}
			m = nm
			if !check(c, cat, m, maxN+2) {
				return
			}
		}
	}
	without := func(m []lkv, k string) []lkv {
		var out []lkv
		for _, p := range m {
			if p.k != k {
				out = append(out, p)
			}
		}
		return out
	}
	// up by SetValue, down by RemoveValue from the front, then re-add
	chain("grow, remove from the front, use what is left", 2*maxN+10, func(cat col.CatalogLike[string, int], m []lkv, i int) []lkv {
		switch {
		case i < maxN:
			cat.SetValue(key(i), i+1)
			return append(append([]lkv(nil), m...), lkv{key(i), i + 1})
		case i < 2*maxN-3:
			k := m[0].k
			if got := cat.RemoveValue(k); got != m[0].v {
				panic(fmt.Sprintf("RemoveValue(%s) returned %d, want %d", k, got, m[0].v))
			}
			return without(m, k)
		}
		// the last few survivors: update the last one in place, then add a new key
		if i%2 == 0 && len(m) > 0 {
			last := m[len(m)-1]
			cat.SetValue(last.k, -i)
			nm := append([]lkv(nil), m...)
			nm[len(nm)-1].v = -i
			return nm
		}
		cat.SetValue(key(maxN+1), i)
		nm := without(m, key(maxN+1))
		for _, p := range m {
			if p.k == key(maxN+1) {
				nm2 := append([]lkv(nil), m...)
				for j := range nm2 {
					if nm2[j].k == key(maxN+1) {
						nm2[j].v = i
					}
				}
				return nm2
			}
		}
		return append(nm, lkv{key(maxN + 1), i})
	})
	// up, down from the back
	chain("grow, remove from the back", 2*maxN, func(cat col.CatalogLike[string, int], m []lkv, i int) []lkv {
		if i < maxN {
			cat.SetValue(key(i), i+1)
			return append(append([]lkv(nil), m...), lkv{key(i), i + 1})
		}
		k := m[len(m)-1].k
		cat.RemoveValue(k)
		return without(m, k)
	})
	// up, reverse, down in batches by RemoveValues (every third key, then the rest in halves)
	chain("grow, reverse, remove in batches", maxN+12, func(cat col.CatalogLike[string, int], m []lkv, i int) []lkv {
		switch {
		case i < maxN:
			cat.SetValue(key(i), i+1)
			return append(append([]lkv(nil), m...), lkv{key(i), i + 1})
		case i == maxN:
			cat.ReverseValues()
			nm := append([]lkv(nil), m...)
			for a, b := 0, len(nm)-1; a < b; a, b = a+1, b-1 {
				nm[a], nm[b] = nm[b], nm[a]
			}
			return nm
		}
		var batch []string
		nm := m
		for j, p := range m {
			if (i == maxN+1 && j%3 == 0) || (i > maxN+1 && j%2 == 0) {
				batch = append(batch, p.k)
				nm = without(nm, p.k)
			}
		}
		cat.RemoveValues(col.List[string](common.N()).MakeFromArray(batch))
		return nm
	})
	r.States += 3
	r.Distinct += 3
	r.Sample(ladderCase{"grow, remove from the front, use what is left", 2 * maxN})
}
