package c03

import (
	"fmt"
	"math"
	"sort"

	col "github.com/craterdog/go-collection-framework/v4/collection"
	rt "github.com/craterdog/go-collection-framework/v4/verifrt"
	"verif/checks/common"
	"verif/engine"
)

// Keys that are not equal to themselves (not-a-number): such a key can be
// stored and listed but never looked up - exactly as in a Go map. A catalog
// built from a Go map, from associations or by SetValue lists every such
// association with the value stored under it; all views agree; a lookup finds
// nothing.

type nanCase struct {
	Build string `json:"built_by"`
	N     int    `json:"nan_keys"`
	Then  string `json:"then,omitempty"`
}

func nanKeys(r *engine.Rec) {
	N := common.N
	C := col.Catalog[float64, int](N())
	A := col.Association[float64, int](N())
	pairs := func(c col.CatalogLike[float64, int]) []string {
		out := []string{}
		for _, a := range c.AsArray() {
			out = append(out, fmt.Sprint(a.GetKey(), "=", a.GetValue()))
		}
		return out
	}
	sorted := func(s []string) []string { t := append([]string{}, s...); sort.Strings(t); return t }
	cases := 0
	for n := 0; n <= 3; n++ {
		for _, build := range []string{"MakeFromMap", "MakeFromArray", "MakeFromSequence", "SetValue", "Merge second operand", "MakeFromSequence of a catalog"} {
			for _, then := range []string{"", "SetValue(2, 22)", "SetValue(NaN, 99)", "SortValues", "ReverseValues", "RemoveValue(1)"} {
				c := nanCase{build, n, then}
				if !r.Wanted(c) {
					continue
				}
				cases++
				// the source: 1=11, then n NaN keys with values 71, 72, ..., then 2=12
				want := []string{"1=11"}
				for i := 1; i <= n; i++ {
					want = append(want, fmt.Sprint("NaN=", 70+i))
				}
				want = append(want, "2=12")
				var cat col.CatalogLike[float64, int]
				var views [3][]string
				var size int
				var found int
				o := rt.Protect(4000000, func() {
					var assocs []col.AssociationLike[float64, int]
					m := map[float64]int{1: 11, 2: 12}
					assocs = append(assocs, A.Make(1, 11))
					for i := 1; i <= n; i++ {
						assocs = append(assocs, A.Make(math.NaN(), 70+i))
						m[math.NaN()] = 70 + i
					}
					assocs = append(assocs, A.Make(2, 12))
					switch build {
					case "MakeFromMap":
						cat = C.MakeFromMap(m)
					case "MakeFromArray":
						cat = C.MakeFromArray(assocs)
					case "MakeFromSequence":
						cat = C.MakeFromSequence(col.List[col.AssociationLike[float64, int]](N()).MakeFromArray(assocs))
					case "MakeFromSequence of a catalog":
						cat = C.MakeFromSequence(C.MakeFromArray(assocs))
					case "SetValue":
						cat = C.Make()
						for _, a := range assocs {
							cat.SetValue(a.GetKey(), a.GetValue())
						}
					case "Merge second operand":
						cat = C.Merge(C.Make(), C.MakeFromArray(assocs))
					}
					switch then {
					case "SetValue(2, 22)":
						cat.SetValue(2, 22)
					case "SetValue(NaN, 99)":
						cat.SetValue(math.NaN(), 99)
					case "SortValues":
						cat.SortValues()
					case "ReverseValues":
						cat.ReverseValues()
					case "RemoveValue(1)":
						cat.RemoveValue(1)
					}
					views[0] = pairs(cat)
					it := cat.GetIterator()
					for it.HasNext() {
						a := it.GetNext()
						views[1] = append(views[1], fmt.Sprint(a.GetKey(), "=", a.GetValue()))
					}
					keys := cat.GetKeys().AsArray()
					for i, k := range keys {
						if i < len(views[0]) {
							views[2] = append(views[2], fmt.Sprint(k))
						}
					}
					size = cat.GetSize()
					found = cat.GetValue(math.NaN())
				})
				r.Evals++
				switch then {
				case "SetValue(2, 22)":
					want[len(want)-1] = "2=22"
				case "SetValue(NaN, 99)":
					want = append(want, "NaN=99")
				case "RemoveValue(1)":
					want = want[1:]
				}
				ordered := build != "MakeFromMap" && then != "SortValues" && then != "ReverseValues"
				got := views[0]
				if !ordered {
					got, want = sorted(got), sorted(want)
				}
				switch {
				case o.Panicked || o.Fuel:
					r.Violation("a catalog with keys that are not equal to themselves fails", fmt.Sprintf("%+v: %s", c, o.Value), c)
				case fmt.Sprint(got) != fmt.Sprint(want):
					r.Violation("a catalog with keys that are not equal to themselves does not list the associations it was given with their values", fmt.Sprintf("%+v: got %v want %v", c, got, want), c)
				case fmt.Sprint(views[0]) != fmt.Sprint(views[1]) || size != len(views[0]) || len(views[2]) != size:
					r.Violation("the views of a catalog with keys that are not equal to themselves disagree", fmt.Sprintf("%+v: AsArray %v iterator %v keys %v size %d", c, views[0], views[1], views[2], size), c)
				case found != 0:
					r.Violation("a lookup finds a key that is not equal to itself", fmt.Sprintf("%+v: %d", c, found), c)
				}
			}
		}
	}
	r.States += int64(cases)
	r.Distinct += int64(cases)
	r.Transitions += r.Evals
	r.Sample(nanCase{"MakeFromMap", 2, ""})
}
