package c11

import (
	"fmt"

	"verif/checks/cdcnx"
	"verif/checks/common"
	"verif/engine"
)

// What ParseSource returns is the meaning of the sentence and nothing else: a
// value the caller got from an earlier call - and has changed since, at every
// level - is not part of a later result. Every ordered pair of a family of
// sentences (empty forms of every context alone, twice in one sentence and
// nested; small non-empty ones): parse the first, change everything reachable
// in the result, parse the second; the second result equals what a parse of
// the same sentence gave before anything had been changed. And the same
// sentence parsed twice, both results changed in the same way, gives equal
// results (two positions of one result holding one object are changed twice).

type ownedCase struct {
	First  string `json:"first"`
	Second string `json:"then"`
}

func ownedResults(r *engine.Rec) {
	sources := []string{
		"[ ](List)", "[ ](Set)", "[ ](Stack)", "[ ](Queue)", "[ ](Array)", "[:](Catalog)", "[:](Map)",
		"[\n    [ ](List)\n    [ ](List)\n](List)\n",
		"[\n    [ ](Set)\n    [:](Catalog)\n    [ ](Stack)\n](List)\n",
		"[\n    \"a\": [ ](List)\n    \"b\": [:](Catalog)\n](Catalog)\n",
		"[\n    \"a\": [ ](List)\n    \"b\": [:](Map)\n](Map)\n",
		"[1, 2](List)", "[\n    [1](List)\n    [1](List)\n](List)\n", "[\n    \"k\": [1](Set)\n](Catalog)\n", "[1, 2](Stack)", "[1, 2](Array)",
	}
	fresh := map[string]string{}
	for _, s := range sources {
		res := cdcnx.Parse(s)
		r.Evals++
		if res.Out.Panicked || res.Out.Fuel {
			r.Violation("a sentence of the grammar is rejected", fmt.Sprintf("%q: %s", s, firstLine(res.Out.Value)), ownedCase{First: s})
			continue
		}
		fresh[s] = common.View(res.Value)
	}
	n := 0
	for _, a := range sources {
		for _, b := range sources {
			c := ownedCase{a, b}
			if _, ok := fresh[a]; !ok || !r.Wanted(c) {
				continue
			}
			if _, ok := fresh[b]; !ok {
				continue
			}
			n++
			first := cdcnx.Parse(a)
			common.Scribble(first.Value, 0)
			second := cdcnx.Parse(b)
			r.Evals += 2
			if second.Out.Panicked || second.Out.Fuel {
				r.Violation("a sentence is rejected after the result of an earlier call was changed", fmt.Sprintf("%+v: %s", c, firstLine(second.Out.Value)), c)
				continue
			}
			if got := common.View(second.Value); got != fresh[b] {
				r.Violation("the result of ParseSource contains what the caller did to the result of an earlier call", fmt.Sprintf("%+v:\n got  %s\n want %s", c, got, fresh[b]), c)
				continue
			}
			if a == b {
				common.Scribble(second.Value, 0)
				if x, y := common.View(first.Value), common.View(second.Value); x != y {
					r.Violation("two results for one sentence, changed in the same way, differ (two positions hold one object, or the results share one)", fmt.Sprintf("%+v:\n first  %s\n second %s", c, x, y), c)
				}
			}
		}
	}
	// two positions of one result are two objects: after every collection was changed once, the result reads like
	// the sentence in which every collection has one more item
	for src, changed := range map[string]string{
		"[\n    [ ](List)\n    [ ](List)\n](List)\n":                         "[\n    [9901](List)\n    [9901](List)\n    9900\n](List)\n",
		"[\n    [1](List)\n    [1](List)\n](List)\n":                         "[\n    [1, 9901](List)\n    [1, 9901](List)\n    9900\n](List)\n",
		"[\n    [ ](List)\n    [\n        [ ](List)\n    ](List)\n](List)\n": "[\n    [9901](List)\n    [\n        [9902](List)\n        9901\n    ](List)\n    9900\n](List)\n",
	} {
		c := ownedCase{src, "(every collection of the result changed once) = " + changed}
		if !r.Wanted(c) {
			continue
		}
		n++
		got, want := cdcnx.Parse(src), cdcnx.Parse(changed)
		r.Evals += 2
		if got.Out.Panicked || want.Out.Panicked {
			r.Violation("a sentence of the grammar is rejected", fmt.Sprintf("%+v: %s %s", c, firstLine(got.Out.Value), firstLine(want.Out.Value)), c)
			continue
		}
		common.Scribble(got.Value, 0)
		if x, y := common.View(got.Value), common.View(want.Value); x != y {
			r.Violation("two positions of one result hold one object", fmt.Sprintf("%+v:\n got  %s\n want %s", c, x, y), c)
		}
	}
	r.States += int64(n)
	r.Distinct += int64(n)
	r.Transitions += r.Evals
	r.Sample(ownedCase{"[ ](List)", "[\n    [ ](List)\n    [ ](List)\n](List)\n"})
}
