// Package c11: every sentence of the CDCN grammar is accepted with its
// intended meaning, on every schedule of the scanner and parser goroutines.
package c11

import (
	"fmt"
	"math"
	"reflect"
	"sort"
	"strconv"
	"strings"
	"sync"
	"time"

	cdc "github.com/craterdog/go-collection-framework/v4/cdcn"
	rt "github.com/craterdog/go-collection-framework/v4/verifrt"
	"verif/checks/cdcnx"
	"verif/checks/common"
	"verif/engine"
	"verif/engine/dump"
	"verif/engine/schedx"
)

// Exp is the expected meaning of a document, produced together with its text.
type Exp struct {
	Kind  string // "" = leaf
	Leaf  any
	Items []*Exp
	Keys  []*Exp // for Catalog / Map
}

func (e *Exp) String() string {
	if e.Kind == "" {
		return fmt.Sprintf("%T(%#v)", e.Leaf, e.Leaf)
	}
	s := e.Kind + "["
	for i, it := range e.Items {
		if e.Keys != nil {
			s += e.Keys[i].String() + ":"
		}
		s += it.String() + " "
	}
	return s + "]"
}

func leafEq(a, b any) bool {
	if a == nil || b == nil {
		return a == b
	}
	if reflect.TypeOf(a) != reflect.TypeOf(b) {
		return false
	}
	if fa, ok := a.(float64); ok {
		fb := b.(float64)
		return fa == fb && math.Signbit(fa) == math.Signbit(fb)
	}
	return a == b
}

// match compares a parsed value with the expected meaning.
func match(e *Exp, v any, path string) string {
	k := cdcnx.KindOf(v)
	if e.Kind != k {
		return fmt.Sprintf("%s: expected kind %q, parsed %q (%T)", path, e.Kind, k, v)
	}
	if e.Kind == "" {
		if !leafEq(e.Leaf, v) {
			return fmt.Sprintf("%s: expected %T(%#v), parsed %T(%#v)", path, e.Leaf, e.Leaf, v, v)
		}
		return ""
	}
	items, assoc := cdcnx.Items(v)
	if len(items) != len(e.Items) {
		return fmt.Sprintf("%s(%s): expected %d items, parsed %d", path, e.Kind, len(e.Items), len(items))
	}
	if len(items) > 0 && assoc != (e.Keys != nil) {
		return fmt.Sprintf("%s(%s): associations/values confusion", path, e.Kind)
	}
	if e.Kind == "Map" {
		used := make([]bool, len(items))
		for i := range e.Items {
			found := false
			for j, it := range items {
				p := it.([2]any)
				if !used[j] && match(e.Keys[i], p[0], path) == "" {
					if d := match(e.Items[i], p[1], path+"["+e.Keys[i].String()+"]"); d != "" {
						return d
					}
					used[j], found = true, true
					break
				}
			}
			if !found {
				return fmt.Sprintf("%s(Map): key %s missing", path, e.Keys[i])
			}
		}
		return ""
	}
	for i := range e.Items {
		if e.Keys != nil {
			p := items[i].([2]any)
			if d := match(e.Keys[i], p[0], fmt.Sprintf("%s.key%d", path, i+1)); d != "" {
				return d
			}
			if d := match(e.Items[i], p[1], fmt.Sprintf("%s[%s]", path, e.Keys[i])); d != "" {
				return d
			}
			continue
		}
		if d := match(e.Items[i], items[i], fmt.Sprintf("%s.%d", path, i+1)); d != "" {
			return d
		}
	}
	return ""
}

// lessLeaf orders same-type leaves naturally (used for expected Set contents).
func lessLeaf(a, b any) bool {
	switch x := a.(type) {
	case int64:
		return x < b.(int64)
	case string:
		return x < b.(string)
	case float64:
		return x < b.(float64)
	case uint64:
		return x < b.(uint64)
	case rune:
		return x < b.(rune)
	case bool:
		return !x && b.(bool)
	}
	return false
}

// mkExp builds the expected collection from items in source order according to the context.
func mkExp(kind string, keys, items []*Exp) *Exp {
	switch kind {
	case "Set":
		var out []*Exp
		for _, it := range items {
			dup := false
			for _, o := range out {
				if leafEq(o.Leaf, it.Leaf) {
					dup = true
				}
			}
			if !dup {
				out = append(out, it)
			}
		}
		sort.SliceStable(out, func(i, j int) bool { return lessLeaf(out[i].Leaf, out[j].Leaf) })
		return &Exp{Kind: kind, Items: out}
	case "Catalog", "Map":
		var ks, vs []*Exp
		for i, k := range keys {
			found := -1
			for j, o := range ks {
				if leafEq(o.Leaf, k.Leaf) {
					found = j
				}
			}
			if found >= 0 {
				vs[found] = items[i] // a repeated key keeps its first position and its last value
			} else {
				ks = append(ks, k)
				vs = append(vs, items[i])
			}
		}
		if ks == nil {
			ks = []*Exp{}
		}
		return &Exp{Kind: kind, Items: vs, Keys: ks}
	}
	return &Exp{Kind: kind, Items: items}
}

// ---- literals ----

type Lit struct {
	Text       string
	Vals       []any // admissible meanings when accepted
	MayReject  bool
	MustReject bool
	Class      string
}

func exact(text string, v any) Lit { return Lit{Text: text, Vals: []any{v}} }

func floatLit(text string) Lit {
	f, err := strconv.ParseFloat(text, 64)
	if err != nil { // out of range: strconv gives +-Inf or 0; rejecting is equally fine
		return Lit{Text: text, Vals: []any{f}, MayReject: true, Class: "float out of range"}
	}
	return exact(text, f)
}

func Literals() []Lit {
	var ls []Lit
	ls = append(ls, exact("true", true), exact("false", false), exact("nil", nil))
	for _, t := range []string{"0", "1", "-1", "+1", "9", "10", "-10", "1234567890", "9223372036854775807", "-9223372036854775808", "+9223372036854775807"} {
		v, _ := strconv.ParseInt(t, 10, 64)
		ls = append(ls, exact(t, v))
	}
	for _, t := range []string{"9223372036854775808", "-9223372036854775809", "99999999999999999999"} {
		ls = append(ls, Lit{Text: t, MustReject: true, Class: "integer out of range"})
	}
	for _, t := range []string{"0x0", "0x1", "0xff", "0xdeadbeef", "0xffffffffffffffff", "0x0000000000000001"} {
		v, _ := strconv.ParseUint(t[2:], 16, 64)
		ls = append(ls, exact(t, v))
	}
	ls = append(ls, Lit{Text: "0x10000000000000000", MustReject: true, Class: "hexadecimal out of range"}, Lit{Text: "0xfffffffffffffffffff", MustReject: true, Class: "hexadecimal out of range"})
	for _, t := range []string{"0.0", "1.5", "-1.5", "+1.5", "10.25", "0.1", "123.456", "0.000001", "1.5e+1", "1.5E-1", "1.5e+10", "-2.5E+100", "1.0e+308", "1.5e-300", "4.9e-324", "1.5e+309", "-1.5e+999", "1.5e-400", "0.0e+1", "9.999999999999999e+22"} {
		ls = append(ls, floatLit(t))
	}
	for _, c := range []struct {
		t string
		v complex128
	}{{"(1.0+2.0i)", complex(1, 2)}, {"(1.0-2.0i)", complex(1, -2)}, {"(-1.0+2.0i)", complex(-1, 2)}, {"(+1.5-0.5i)", complex(1.5, -0.5)},
		{"(-1.5e+2-2.5E-1i)", complex(-150, -0.25)}, {"(0.0+0.0i)", 0}} {
		ls = append(ls, exact(c.t, c.v))
	}
	ls = append(ls,
		Lit{Text: "(1.0-+2.0i)", Vals: []any{complex(1, -2)}, MayReject: true, Class: "complex with two signs"},
		Lit{Text: "(1.0+-2.0i)", Vals: []any{complex(1, -2)}, MayReject: true, Class: "complex with two signs"},
		Lit{Text: "(1.0++2.0i)", Vals: []any{complex(1, 2)}, MayReject: true, Class: "complex with two signs"},
		Lit{Text: "(1.0--2.0i)", Vals: []any{complex(1, 2)}, MayReject: true, Class: "complex with two signs"})
	// runes
	for _, r := range []rune{'a', 'Z', '0', ' ', 'é', '😀', '"', '[', '\\'} {
		if r == '\\' {
			continue
		}
		ls = append(ls, exact("'"+string(r)+"'", r))
	}
	esc := map[string]rune{`\a`: '\a', `\b`: '\b', `\f`: '\f', `\n`: '\n', `\r`: '\r', `\t`: '\t', `\v`: '\v', `\\`: '\\', `\'`: '\'', `\x41`: 'A', `\xff`: 0xff, `é`: 'é', `￿`: 0xffff, `\U0001f600`: '😀', `\U0010ffff`: 0x10ffff, `\x00`: 0}
	var eks []string
	for k := range esc {
		eks = append(eks, k)
	}
	sort.Strings(eks)
	for _, k := range eks {
		ls = append(ls, exact("'"+k+"'", esc[k]))
	}
	ls = append(ls, Lit{Text: `'\"'`, Vals: []any{'"'}, MayReject: true, Class: `\" inside a rune`},
		Lit{Text: `'\ud800'`, MustReject: true, Class: "escape that cannot be decoded"}, Lit{Text: `'\U00110000'`, MustReject: true, Class: "escape that cannot be decoded"})
	// strings
	for _, s := range []string{"", "a", "ab c", "é😀", "it's", "[1](List)", "  "} {
		ls = append(ls, exact(strconv.Quote(s), s))
	}
	for _, k := range eks {
		if k == `\'` || k == `\xff` {
			continue
		}
		ls = append(ls, exact(`"x`+k+`y"`, "x"+string(esc[k])+"y"))
	}
	ls = append(ls, exact(`"\xff"`, "\xff"), exact(`"\""`, `"`), exact(`"\x41é\U0001f600"`, "Aé😀"),
		Lit{Text: `"a\'b"`, Vals: []any{"a'b"}, MayReject: true, Class: `\' inside a string`},
		Lit{Text: `"\ud800"`, MustReject: true, Class: "escape that cannot be decoded"}, Lit{Text: `"\U00110000"`, MustReject: true, Class: "escape that cannot be decoded"})
	return ls
}

type docCase struct {
	Part string `json:"part"`
	Src  string `json:"source"`
}

// checkDoc parses one grammar sentence and compares it with its meaning.
// alts: admissible meanings (any one); mayReject/mustReject per the literal rules.
func checkDoc(r *engine.Rec, part, src, class string, alts []*Exp, mayReject, mustReject bool) {
	c := docCase{part, src}
	if !r.Wanted(c) {
		return
	}
	res := cdcnx.Parse(src)
	r.Evals++
	r.Max("fuel_ticks", res.Out.Ticks)
	cl := ""
	if class != "" {
		cl = " (" + class + ")"
	}
	switch {
	case res.ParserHung || res.Out.Fuel:
		r.Violation("a grammar sentence is never finished parsing"+cl, fmt.Sprintf("%q", src), c)
		return
	case res.Out.Panicked:
		r.Outcome("rejected")
		if res.Out.Runtime {
			r.Violation("a grammar sentence ends in a Go runtime error"+cl, fmt.Sprintf("%q: %s", src, res.Out.Value), c)
		} else if !mayReject && !mustReject {
			r.Violation("a sentence of the grammar is rejected"+cl, fmt.Sprintf("%q\n%s", src, firstLine(res.Out.Value)), c)
		}
		return
	}
	r.Outcome("accepted")
	if mustReject {
		r.Violation("a literal that cannot be represented is silently replaced by a different value"+cl, fmt.Sprintf("%q parsed as %s", src, show(res.Value)), c)
		return
	}
	why := ""
	for _, e := range alts {
		if why = match(e, res.Value, "$"); why == "" {
			break
		}
	}
	if why != "" {
		r.Violation("a sentence is accepted with another meaning than intended"+cl, fmt.Sprintf("%q\n%s\nparsed %s", src, why, show(res.Value)), c)
	}
	if res.Leaked {
		r.Violation("scanner goroutine left behind after an accepted sentence", fmt.Sprintf("%q", src), c)
	}
}

func show(v any) string {
	s, o := cdcnx.Format(v, 1000000)
	if o.Panicked {
		return fmt.Sprintf("%#v", v)
	}
	return strings.TrimSpace(s)
}

func firstLine(s string) string {
	if i := strings.IndexByte(s, '\n'); i >= 0 {
		return s[:i]
	}
	return s
}

// render: text of a collection given its items' texts
func inline(items []string, sep string) string { return "[" + strings.Join(items, sep) + "]" }
func multiline(items []string, indent string) string {
	return "[\n" + indent + strings.Join(items, "\n"+indent) + "\n]"
}

var valueKinds = []string{"Array", "List", "Queue", "Set", "Stack"}
var assocKinds = []string{"Catalog", "Map"}

// literalPositions: every literal alternative in every syntactic position.
func literalPositions(r *engine.Rec) {
	lits := Literals()
	one := &Exp{Leaf: int64(1)}
	two := &Exp{Leaf: int64(2)}
	n := 0
	for _, l := range lits {
		n++
		alts := func(f func(v *Exp) *Exp) []*Exp {
			var out []*Exp
			for _, v := range l.Vals {
				out = append(out, f(&Exp{Leaf: v}))
			}
			return out
		}
		t := l.Text
		checkDoc(r, "literal-only-inline", "["+t+"](List)\n", l.Class, alts(func(v *Exp) *Exp { return mkExp("List", nil, []*Exp{v}) }), l.MayReject, l.MustReject)
		checkDoc(r, "literal-first", "["+t+", 1, 2](Array)", l.Class, alts(func(v *Exp) *Exp { return mkExp("Array", nil, []*Exp{v, one, two}) }), l.MayReject, l.MustReject)
		checkDoc(r, "literal-middle", "[1,"+t+",2](Stack)\n", l.Class, alts(func(v *Exp) *Exp { return mkExp("Stack", nil, []*Exp{one, v, two}) }), l.MayReject, l.MustReject)
		checkDoc(r, "literal-last", "[1, 2, "+t+"](Queue)\n\n", l.Class, alts(func(v *Exp) *Exp { return mkExp("Queue", nil, []*Exp{one, two, v}) }), l.MayReject, l.MustReject)
		checkDoc(r, "literal-multiline", "[\n    1\n    "+t+"\n    2\n](List)\n", l.Class, alts(func(v *Exp) *Exp { return mkExp("List", nil, []*Exp{one, v, two}) }), l.MayReject, l.MustReject)
		checkDoc(r, "literal-multiline-only", "[\n"+t+"\n](Array)\n", l.Class, alts(func(v *Exp) *Exp { return mkExp("Array", nil, []*Exp{v}) }), l.MayReject, l.MustReject)
		checkDoc(r, "literal-key", "["+t+": 1](Catalog)\n", l.Class, alts(func(v *Exp) *Exp { return mkExp("Catalog", []*Exp{v}, []*Exp{one}) }), l.MayReject, l.MustReject)
		checkDoc(r, "literal-value", "[\n    1: "+t+"\n    2: "+t+"\n](Catalog)\n", l.Class, alts(func(v *Exp) *Exp { return mkExp("Catalog", []*Exp{one, two}, []*Exp{v, v}) }), l.MayReject, l.MustReject)
		checkDoc(r, "literal-map-value", "[\"k\": "+t+"](Map)\n", l.Class, alts(func(v *Exp) *Exp { return mkExp("Map", []*Exp{{Leaf: "k"}}, []*Exp{v}) }), l.MayReject, l.MustReject)
	}
	r.States += int64(n)
	r.Distinct += int64(n * 9)
	r.Transitions += r.Evals
	r.Sample(docCase{"literal-middle", `[1,'é',2](Stack)`})
}

// item is a (text, meaning) pair
type item struct {
	text string
	exp  *Exp
}

func reprLits() []item {
	return []item{{"1", &Exp{Leaf: int64(1)}}, {"-2", &Exp{Leaf: int64(-2)}}, {"0x1f", &Exp{Leaf: uint64(0x1f)}}, {"1.5", &Exp{Leaf: 1.5}}, {"true", &Exp{Leaf: true}},
		{"nil", &Exp{Leaf: nil}}, {`"a"`, &Exp{Leaf: "a"}}, {`'b'`, &Exp{Leaf: 'b'}}, {"(1.0+2.0i)", &Exp{Leaf: complex(1, 2)}}, {"1", &Exp{Leaf: int64(1)}}}
}

// collections generates all collections of the given depth whose items are drawn from `pool`.
func collections(pool []item, maxItems int, indent string) []item {
	var out []item
	// empty forms: both the empty-values form and the empty-associations form, with each of the seven contexts
	for _, k := range append(append([]string{}, valueKinds...), assocKinds...) {
		out = append(out, item{"[ ](" + k + ")", mkExp(k, nil, nil)})
		out = append(out, item{"[:](" + k + ")", mkExp(k, nil, nil)})
	}
	var tuples [][]item
	var rec func(cur []item)
	rec = func(cur []item) {
		if len(cur) > 0 {
			tuples = append(tuples, append([]item(nil), cur...))
		}
		if len(cur) == maxItems {
			return
		}
		for _, p := range pool {
			rec(append(cur, p))
		}
	}
	rec(nil)
	keyPool := []item{{`"k"`, &Exp{Leaf: "k"}}, {"7", &Exp{Leaf: int64(7)}}, {"'c'", &Exp{Leaf: 'c'}}}
	for ti, tp := range tuples {
		var texts []string
		var exps []*Exp
		sameType := true
		for _, it := range tp {
			texts = append(texts, it.text)
			exps = append(exps, it.exp)
			if it.exp.Kind != "" || it.exp.Leaf == nil || reflect.TypeOf(it.exp.Leaf) != reflect.TypeOf(tp[0].exp.Leaf) {
				sameType = false
			}
			if _, isC := it.exp.Leaf.(complex128); isC {
				sameType = false
			}
		}
		for ki, k := range valueKinds {
			if k == "Set" && !sameType {
				continue
			}
			e := mkExp(k, nil, exps)
			switch (ti + ki) % 3 {
			case 0:
				out = append(out, item{inline(texts, ", ") + "(" + k + ")", e})
			case 1:
				out = append(out, item{inline(texts, ",") + "(" + k + ")", e})
			}
			out = append(out, item{multiline(texts, indent) + "(" + k + ")", e})
		}
		for ki, k := range assocKinds {
			var ats []string
			var keys []*Exp
			for i, it := range tp {
				kp := keyPool[(i*2+ti)%len(keyPool)]
				if ti%3 == 1 && i == len(tp)-1 && len(tp) > 1 {
					kp = keyPool[ti%len(keyPool)] // the last association repeats the first key: first position, last value
				}
				if ti%7 == 3 && len(tp) == 3 && i == 1 {
					kp = keyPool[ti%len(keyPool)] // the middle association repeats the first key
				}
				ats = append(ats, kp.text+": "+it.text)
				keys = append(keys, kp.exp)
			}
			e := mkExp(k, keys, exps)
			if (ti+ki)%2 == 0 {
				out = append(out, item{inline(ats, ", ") + "(" + k + ")", e})
			}
			out = append(out, item{multiline(ats, indent) + "(" + k + ")", e})
		}
	}
	return out
}

func structure(r *engine.Rec) {
	lits := reprLits()
	depth1 := collections(lits[:6], 2, "    ")
	if r.Tier == "thorough" {
		depth1 = collections(lits, 3, "  ")
	}
	n := 0
	emit := func(part string, it item) {
		n++
		for _, tail := range []string{"", "\n", "\n\n"} {
			if tail != "\n" && n%5 != 0 {
				continue
			}
			checkDoc(r, part, it.text+tail, "", []*Exp{it.exp}, false, false)
		}
	}
	for _, it := range depth1 {
		emit("depth-1", it)
	}
	// depth 2: items are a literal and nested collections (a selection of depth-1 documents: one per distinct shape)
	var pool []item
	seenShape := map[string]bool{}
	for _, it := range depth1 {
		shape := it.exp.Kind + fmt.Sprint(len(it.exp.Items), strings.Contains(it.text, "\n"))
		if !seenShape[shape] {
			seenShape[shape] = true
			pool = append(pool, it)
		}
	}
	pool = append(pool, lits[0], lits[6])
	depth2 := collections(pool, 2, "    ")
	for i, it := range depth2 {
		if i%64 == 0 && r.TimeUp() {
			r.Incomplete("time budget")
			break
		}
		emit("depth-2", it)
	}
	if r.Tier == "thorough" {
		var pool3 []item
		for i, it := range depth2 {
			if i%97 == 0 {
				pool3 = append(pool3, it)
			}
		}
		pool3 = append(pool3, lits[0])
		for i, it := range collections(pool3, 2, "\t"[:0]+"  ") {
			if i%64 == 0 && r.TimeUp() {
				r.Incomplete("time budget")
				break
			}
			emit("depth-3", it)
		}
	}
	r.States += int64(n)
	r.Distinct += int64(n)
	r.Transitions += r.Evals
	r.Sample(docCase{"depth-2", "[\n    [1, -2](Set)\n    \"a\"\n](List)\n"})
}

// ---- schedules ----

func scheduleDocs() []string {
	long := func(n int) string {
		var it []string
		for i := 1; i <= n; i++ {
			it = append(it, fmt.Sprint(i))
		}
		return "[" + strings.Join(it, ",") + "](List)"
	}
	return []string{
		"[1](List)", // few tokens
		long(5),     // 15 tokens incl. EOF
		long(6),     // around the queue capacity
		long(7),
		long(15),                              // 34+ tokens: the scanner blocks on a full queue
		"[\n    1: 2\n    3: 4\n](Catalog)\n", // push-back: a multi-line list whose first item starts like an association
		"[\n    1\n    [\n        2\n    ](Set)\n](List)\n",
	}
}

func scheduleUnit(doc string) func(r *engine.Rec) {
	return func(r *engine.Rec) {
		var first string
		prog := func() ([]rt.ThreadSpec, func(*rt.Exec) []string) {
			var val any
			var out rt.Outcome
			body := func() {
				out = rt.Protect(0, func() { val = cdc.Notation().Make().ParseSource(doc) })
			}
			return []rt.ThreadSpec{{Name: "parser", Body: body}}, func(ex *rt.Exec) []string {
				var what []string
				d := "panic: " + out.Value
				if !out.Panicked {
					d = dump.Dump(val)
				}
				if first == "" {
					first = d
				}
				if d != first {
					what = append(what, "the result of ParseSource depends on the schedule\x00"+fmt.Sprintf("%q: %s vs %s", doc, d, first))
				}
				if len(ex.Stuck) > 0 {
					what = append(what, "deadlock or leaked goroutine between scanner and parser\x00"+fmt.Sprint(ex.SortedStuck()))
				}
				for _, rc := range ex.Races {
					what = append(what, common.RaceSig(rc)+"\x00"+rc.String())
				}
				for _, p := range ex.Panics {
					if p.Library {
						what = append(what, "scanner goroutine panics\x00"+p.Value)
					}
				}
				return what
			}
		}
		// scanner and parser operate on one queue: nearly all their operations are mutually dependent, so the
		// sleep-set mode does not reduce anything; preemption bounding is the deciding mode here
		long := strings.Count(doc, ",") > 8
		o := schedx.Opts{Name: doc, Desc: doc, SigPrefix: "schedules: ", SkipA: true, Bounds: []int{1, 2}, CapB: 60000}
		if long {
			o.Bounds = []int{1}
		}
		if r.Tier == "thorough" {
			o.Bounds, o.CapB = []int{1, 2, 3}, 1500000
			if long {
				o.Bounds = []int{1, 2}
			}
		}
		schedx.Explore(r, prog, o)
	}
}

// twoParses: two parses running at the same time (each with its own notation, scanner and parser) must both
// give the result they give alone, on every schedule up to the bound.
func twoParses(name string, docs [2]string) func(r *engine.Rec) {
	return func(r *engine.Rec) { twoParsesOf(r, name, docs) }
}

var twoParseDocs = map[string][2]string{
	"two-parses": {"[1, \"a\", [true](Set)](List)", "[\n    'x': 2.5\n    'y': nil\n](Catalog)\n"},
	// both parses order nested collections as Set items (whatever ranks them is used by both at the same time)
	"two-parses-of-sets": {"[[2](List), [1](List)](Set)", "[[4](List), [3](List)](Set)"},
	// a sentence parsed while another parse is being rejected (with tokens still unread behind the error)
	"a-rejected-and-a-valid-parse": {"[1 2, 3, 4](List)", "[5, 6](List)"},
}

// reuseAfterRejection: one parser instance rejects a source and is then given a valid sentence; whatever the
// first call left running (its scanner, a cleaner) must not touch the second parse, on any schedule.
func reuseAfterRejection(r *engine.Rec) {
	bad, good := "[1 2, 3, 4](List)", "[5, 6](List)"
	want := dump.Dump(cdcnx.Parse(good).Value)
	prog := func() ([]rt.ThreadSpec, func(*rt.Exec) []string) {
		var val any
		var first, second rt.Outcome
		body := func() {
			p := cdc.Parser().Make()
			first = rt.Protect(0, func() { p.ParseSource(bad) })
			second = rt.Protect(0, func() { val = p.ParseSource(good) })
		}
		return []rt.ThreadSpec{{Name: "caller", Body: body}}, func(ex *rt.Exec) []string {
			var what []string
			switch {
			case !first.Panicked:
				what = append(what, "an ill-formed source is accepted\x00"+bad)
			case second.Panicked:
				what = append(what, "a sentence is rejected by a parser that rejected another source before\x00"+fmt.Sprintf("%q after %q: %s", good, bad, firstLine(second.Value)))
			case dump.Dump(val) != want:
				what = append(what, "the result of ParseSource changes on a parser that rejected another source before\x00"+fmt.Sprintf("%q after %q: %s vs %s", good, bad, dump.Dump(val), want))
			}
			if len(ex.Stuck) > 0 {
				what = append(what, "deadlock or leaked goroutine when a parser is used again after a rejection\x00"+fmt.Sprint(ex.SortedStuck()))
			}
			for _, rc := range ex.Races {
				what = append(what, common.RaceSig(rc)+"\x00"+rc.String())
			}
			for _, p := range ex.Panics {
				if p.Library {
					what = append(what, "scanner goroutine panics\x00"+p.Value)
				}
			}
			return what
		}
	}
	o := schedx.Opts{Name: "reuse-after-rejection", Desc: bad + " ; then " + good + " on the same parser", SigPrefix: "parser reuse: ", SkipA: true, Bounds: []int{0, 1, 2}, CapB: 60000, ColdStart: []int{0, 1}, ColdCap: 30000}
	if r.Tier == "thorough" {
		o.Bounds, o.CapB = []int{0, 1, 2, 3}, 1500000
	}
	schedx.Explore(r, prog, o)
}

func twoParsesOf(r *engine.Rec, name string, docs [2]string) {
	var want [2]string
	var rejected [2]bool
	for i, d := range docs {
		res := cdcnx.Parse(d)
		want[i] = dump.Dump(res.Value)
		if res.Out.Panicked {
			rejected[i] = true
			want[i] = firstLine(res.Out.Value)
		}
	}
	prog := func() ([]rt.ThreadSpec, func(*rt.Exec) []string) {
		var vals [2]any
		var outs [2]rt.Outcome
		mk := func(i int) rt.ThreadSpec {
			return rt.ThreadSpec{Name: fmt.Sprint("parser", i), Body: func() {
				outs[i] = rt.Protect(0, func() { vals[i] = cdc.Notation().Make().ParseSource(docs[i]) })
			}}
		}
		return []rt.ThreadSpec{mk(0), mk(1)}, func(ex *rt.Exec) []string {
			var what []string
			for i := range docs {
				if rejected[i] {
					if !outs[i].Panicked || firstLine(outs[i].Value) != want[i] {
						what = append(what, "the diagnostic for an ill-formed source changes when another parse runs at the same time\x00"+fmt.Sprintf("%q: %q, alone %q", docs[i], firstLine(outs[i].Value), want[i]))
					}
					continue
				}
				if outs[i].Panicked {
					what = append(what, "a sentence is rejected when another parse runs at the same time\x00"+fmt.Sprintf("%q: %s", docs[i], firstLine(outs[i].Value)))
				} else if d := dump.Dump(vals[i]); d != want[i] {
					what = append(what, "the result of ParseSource changes when another parse runs at the same time\x00"+fmt.Sprintf("%q: %s vs %s", docs[i], d, want[i]))
				}
			}
			if len(ex.Stuck) > 0 {
				what = append(what, "deadlock or leaked goroutine with two parses at the same time\x00"+fmt.Sprint(ex.SortedStuck()))
			}
			for _, rc := range ex.Races {
				what = append(what, common.RaceSig(rc)+"\x00"+rc.String())
			}
			for _, p := range ex.Panics {
				if p.Library {
					what = append(what, "scanner goroutine panics\x00"+p.Value)
				}
			}
			return what
		}
	}
	o := schedx.Opts{Name: name, Desc: docs[0] + " || " + docs[1], SigPrefix: "two parses: ", SkipA: true, Bounds: []int{0, 1}, CapB: 60000, ColdStart: []int{0, 1}, ColdCap: 30000}
	if name == "two-parses-of-sets" {
		// four threads that block on each other all the time: bound 1 does not complete in the quick tier; the cap
		// keeps the unit short (the evidence reports the bound completed)
		o.CapB, o.ColdCap = 15000, 8000
	}
	if r.Tier == "thorough" {
		o.Bounds, o.CapB = []int{0, 1, 2}, 1500000
	}
	schedx.Explore(r, prog, o)
}

func init() {
	engine.RegisterRacePrograms("C11", racePrograms)
	engine.Register(&engine.Check{
		ID:        "C11",
		Technique: "bounded-exhaustive enumeration of grammar derivations produced together with their meaning (no second parser as oracle): every literal alternative and boundary literal in nine syntactic positions, all collections over representative literals (7 contexts, empty/inline/multi-line forms, values and associations, repeated keys, nesting depth 2, 3 thorough) parsed on the real scanner+parser under the scheduler; plus stateless model checking of the scanner/parser goroutine pair on documents shorter and longer than the token queue (all schedules up to a preemption bound, race detection)",
		Rule:      "case = one derivation (text + expected value tree) or one schedule of one document; literals with no exact representation admit a set of outcomes (DESIGN §3/C11)",
		Assume:    []string{"Set items are same-type literals (the order of different dynamic types is the collator's business, C07)", "random derivations beyond the bound (sampling) are not generated"},
		Budget:    func(string) time.Duration { return 5 * time.Minute },
		Units: func(string) []engine.Unit {
			us := []engine.Unit{{Name: "literals", Run: literalPositions}, {Name: "structure", Run: structure}}
			for _, n := range []string{"two-parses", "two-parses-of-sets", "a-rejected-and-a-valid-parse"} {
				us = append(us, engine.Unit{Name: "schedules-" + n, Run: twoParses(n, twoParseDocs[n])})
			}
			us = append(us, engine.Unit{Name: "schedules-reuse-after-rejection", Early: true, Run: reuseAfterRejection})
			us = append(us, engine.Unit{Name: "results-belong-to-the-caller", Early: true, Run: ownedResults})
			us = append(us, engine.RacePassUnit("C11"))
			for i, d := range scheduleDocs() {
				us = append(us, engine.Unit{Name: fmt.Sprintf("schedules-%d", i), Run: scheduleUnit(d)})
			}
			return us
		},
	})
}

// racePrograms: the simultaneous parses of the schedule units, run free for the
// auxiliary pass under Go's race detector (two and four parsers at once).
func racePrograms() []engine.RaceProgram {
	var ps []engine.RaceProgram
	mk := func(name string, docs []string) {
		ps = append(ps, engine.RaceProgram{Name: name, Run: func() {
			var start, done sync.WaitGroup
			start.Add(1)
			for _, d := range docs {
				d := d
				done.Add(1)
				go func() {
					defer done.Done()
					defer func() { recover() }()
					start.Wait()
					cdc.Notation().Make().ParseSource(d)
				}()
			}
			start.Done()
			done.Wait()
		}})
	}
	for n, d := range twoParseDocs {
		mk(n, d[:])
		mk(n+" twice", []string{d[0], d[1], d[0], d[1]})
	}
	deep := "[[[[3](List), [2](List)](Set), [[1](List)](Set)](Set), [[[0](List)](Set)](Set)](Set)"
	mk("nested sets", []string{deep, deep, "[[2](List), [1](List)](Set)", deep})
	return ps
}
