package engine

import (
	"bytes"
	"encoding/json"
	"fmt"
	"os"
	"os/exec"
	"path/filepath"
	"regexp"
	"sort"
	"strings"
	"syscall"
	"time"
)

// The schedule explorations decide races with their own vector-clock detector
// over the accesses that the instrumenter can log (struct fields, package
// variables, maps, captured locals, slice elements). Memory that is touched
// only inside the standard library, and whole-slice operations, are not logged.
// This auxiliary pass closes that gap the way the model-checking literature
// recommends: the same program bodies are run free (no controlled scheduler, so
// no artificial happens-before edges) in a binary built with Go's own race
// detector, which instruments the standard library too. It is a sampling step:
// it can only add reports, it decides nothing by staying silent, and the
// evidence says so.

// RaceProgram is one free-running program: Run starts its goroutines, waits
// for them and returns.
type RaceProgram struct {
	Name string
	Run  func()
}

// RacePrograms are registered per check id.
var racePrograms = map[string]func() []RaceProgram{}

func RegisterRacePrograms(id string, f func() []RaceProgram) { racePrograms[id] = f }

// RacePassMain is `vcheck racepass <id> [program]` in the -race binary.
func RacePassMain(id, only string, reps int) {
	f := racePrograms[id]
	if f == nil {
		fmt.Fprintln(os.Stderr, "no race programs for", id)
		os.Exit(2)
	}
	n := 0
	for _, p := range f() {
		if only != "" && p.Name != only {
			continue
		}
		fmt.Fprintf(os.Stderr, "##PROG %s\n", p.Name)
		for i := 0; i < reps; i++ {
			func() {
				defer func() {
					if e := recover(); e != nil {
						fmt.Fprintf(os.Stderr, "##PANIC %s: %v\n", p.Name, e)
					}
				}()
				p.Run()
			}()
		}
		n++
	}
	fmt.Fprintf(os.Stderr, "##DONE %d\n", n)
}

var frameRe = regexp.MustCompile(`^  ([^\s].*)\(\)$`)

// raceSignature renders one report without addresses, goroutine numbers, paths or lines.
func raceSignature(block string) string {
	var parts []string
	lines := strings.Split(block, "\n")
	for i := 0; i < len(lines); i++ {
		l := lines[i]
		kind := ""
		switch {
		case strings.HasPrefix(l, "Write at"), strings.HasPrefix(l, "Previous write at"):
			kind = "W"
		case strings.HasPrefix(l, "Read at"), strings.HasPrefix(l, "Previous read at"):
			kind = "R"
		case strings.HasPrefix(l, "Atomic"), strings.HasPrefix(l, "Previous atomic"):
			kind = "A"
		}
		if kind == "" {
			continue
		}
		// the innermost frame and the innermost frame that belongs to the library under test
		inner, lib := "", ""
		for j := i + 1; j < len(lines) && lines[j] != ""; j++ {
			m := frameRe.FindStringSubmatch(lines[j])
			if m == nil {
				continue
			}
			fn := m[1]
			if inner == "" {
				inner = fn
			}
			if lib == "" && strings.Contains(fn, "go-collection-framework/v4") && !strings.Contains(fn, "verifrt") {
				lib = fn
			}
		}
		s := kind + " " + short(inner)
		if lib != "" && lib != inner {
			s += " (called from " + short(lib) + ")"
		}
		parts = append(parts, s)
	}
	sort.Strings(parts)
	return "Go race detector (free-running pass): " + strings.Join(parts, " <-> ")
}

func short(fn string) string {
	fn = strings.ReplaceAll(fn, "github.com/craterdog/go-collection-framework/v4/", "")
	// drop type arguments (brackets nest: sorter_[[]int])
	var b strings.Builder
	depth := 0
	for _, c := range fn {
		switch {
		case c == '[':
			depth++
		case c == ']':
			if depth > 0 {
				depth--
			}
		case depth == 0:
			b.WriteRune(c)
		}
	}
	fn = b.String()
	fn = regexp.MustCompile(`\.func\d+(\.\d+)*`).ReplaceAllString(fn, ".func")
	return fn
}

type raceCase struct {
	Program string `json:"program"`
}

// RacePassUnit is the unit that builds the -race binary (once per run, from the
// same instrumented tree) and runs the registered programs in it.
func RacePassUnit(id string) Unit {
	return Unit{Name: "go-race-detector-pass", Run: func(r *Rec) {
		work, overlay := os.Getenv("VERIF_WORKDIR"), os.Getenv("VERIF_OVERLAY")
		root := os.Getenv("VERIF_ROOT")
		if work == "" || overlay == "" || root == "" {
			r.Note("go_race_detector_pass", "not run: no build environment (run through run.sh)")
			return
		}
		bin := filepath.Join(work, "vcheck-race")
		lock, err := os.OpenFile(filepath.Join(work, "race.lock"), os.O_CREATE|os.O_RDWR, 0o644)
		if err == nil {
			syscall.Flock(int(lock.Fd()), syscall.LOCK_EX)
			defer func() { syscall.Flock(int(lock.Fd()), syscall.LOCK_UN); lock.Close() }()
		}
		if _, err := os.Stat(bin); err != nil {
			args := []string{"build", "-race"}
			if mf := os.Getenv("VERIF_MODFILE"); mf != "" {
				args = append(args, "-modfile="+mf)
			}
			args = append(args, "-overlay", overlay, "-o", bin, "./cmd/vcheck")
			cmd := exec.Command("go", args...)
			cmd.Dir = root
			if out, err := cmd.CombinedOutput(); err != nil {
				r.Note("go_race_detector_pass", "not run: the -race build failed: "+firstLine(string(out)))
				return
			}
		}
		only := ""
		if r.ReplayCase != nil {
			var c raceCase
			if json.Unmarshal(r.ReplayCase, &c) == nil {
				only = c.Program
			}
		}
		reps := "25"
		if r.Tier == "thorough" {
			reps = "200"
		}
		cmd := exec.Command(bin, "racepass", id, only, reps)
		cmd.Env = append(os.Environ(), "GORACE=halt_on_error=0", "GOMAXPROCS=8")
		var errBuf bytes.Buffer
		cmd.Stderr = &errBuf
		done := make(chan error, 1)
		if err := cmd.Start(); err != nil {
			r.Note("go_race_detector_pass", "not run: "+err.Error())
			return
		}
		go func() { done <- cmd.Wait() }()
		select {
		case <-done:
		case <-time.After(10 * time.Minute):
			cmd.Process.Kill()
			r.Note("go_race_detector_pass", "stopped after 10 minutes (no verdict from this pass)")
		}
		text := errBuf.String()
		prog, progs, reports := "", 0, 0
		seen := map[string]bool{}
		for _, chunk := range strings.Split(text, "==================\n") {
			for _, l := range strings.Split(chunk, "\n") {
				if strings.HasPrefix(l, "##PROG ") {
					prog = strings.TrimPrefix(l, "##PROG ")
					progs++
				}
			}
			if !strings.Contains(chunk, "WARNING: DATA RACE") {
				continue
			}
			reports++
			sig := raceSignature(chunk)
			if !seen[sig] {
				seen[sig] = true
				r.Violation(sig, "program: "+prog+"\n"+chunk, raceCase{prog})
			}
		}
		r.Evals += int64(progs)
		r.Transitions += int64(progs)
		r.Add("free_running_race_pass_programs", int64(progs))
		r.Add("free_running_race_pass_reports", int64(reports))
		r.Note("go_race_detector_pass", fmt.Sprintf("%d programs x %s repetitions run free under Go's race detector (sampling; complements the vector-clock detector of the explored executions for memory the instrumenter does not log)", progs, reps))
		if !strings.Contains(text, "##DONE") {
			r.Note("go_race_detector_pass_incomplete", "the pass did not run to its end: "+lastLines(text, 3))
		}
	}}
}

func firstLine(s string) string {
	s = strings.TrimSpace(s)
	if i := strings.IndexByte(s, '\n'); i >= 0 {
		return s[:i]
	}
	return s
}

func lastLines(s string, n int) string {
	ls := strings.Split(strings.TrimSpace(s), "\n")
	if len(ls) > n {
		ls = ls[len(ls)-n:]
	}
	return strings.Join(ls, " | ")
}
