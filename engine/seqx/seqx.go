// Package seqx is the explicit-state search over real objects: breadth-first
// from every constructor, every operation of an alphabet applied in every
// reachable state, states de-duplicated by a canonical key (the dump of the
// object's private fields). A state is identified by the shortest operation
// path that builds it; successors are computed by replaying that path on a
// fresh object and applying one more operation (live objects cannot be cloned).
package seqx

import (
	"encoding/json"
	"fmt"

	"verif/engine"
)

// Case is the replayable description of one transition.
type Case[O any] struct {
	Search string `json:"search"`
	Path   []O    `json:"path"`
	Op     O      `json:"op"`
}

// Step is what executing one operation after a path reports back.
type Step struct {
	Key    string // canonical key of the resulting state ("" = do not expand, e.g. after a violation)
	Size   int    // size of the resulting state (for the bound)
	Expand bool
	// Rejected: the operation failed by design (a documented panic) and left the state as it was. The search
	// then applies every operation once more AFTER the rejected one (the path ends with it), without expanding:
	// a call that fails must not leave anything behind for the next one (a lock, a half-done update, a scratch value).
	Rejected bool
}

// Search describes one explicit-state search.
type Search[O any] struct {
	Name    string
	Inits   []O
	Ops     func(size int) []O
	MaxSize int
	// Exec rebuilds the state reached by path on a fresh object (and a fresh
	// reference model) and then applies op with all checks enabled.
	Exec func(path []O, op O) Step
}

// Run performs the search and records states and transitions.
func (s *Search[O]) Run(r *engine.Rec) {
	type node struct {
		path []O
		size int
	}
	if r.ReplayCase != nil {
		var c Case[O]
		if json.Unmarshal(r.ReplayCase, &c) == nil && c.Search == s.Name {
			s.Exec(c.Path, c.Op)
			r.Evals++
		}
		return
	}
	seen := map[string]bool{}
	var frontier []node
	for _, in := range s.Inits {
		st := s.Exec(nil, in)
		r.Transitions++
		r.Evals++
		if st.Key == "" || !st.Expand {
			continue
		}
		if !seen[st.Key] {
			seen[st.Key] = true
			frontier = append(frontier, node{[]O{in}, st.Size})
		}
	}
	maxDepth := 1
	for len(frontier) > 0 {
		if r.TimeUp() {
			r.Incomplete("time budget reached during the breadth-first search")
			break
		}
		n := frontier[0]
		frontier = frontier[1:]
		for _, op := range s.Ops(n.size) {
			st := s.Exec(n.path, op)
			r.Transitions++
			r.Evals++
			if st.Rejected {
				after := append(append([]O(nil), n.path...), op)
				for _, op2 := range s.Ops(n.size) {
					s.Exec(after, op2)
					r.Transitions++
					r.Evals++
				}
			}
			if st.Key == "" || !st.Expand || st.Size > s.MaxSize {
				continue
			}
			if !seen[st.Key] {
				seen[st.Key] = true
				np := append(append([]O(nil), n.path...), op)
				if len(np) > maxDepth {
					maxDepth = len(np)
				}
				frontier = append(frontier, node{np, st.Size})
			}
		}
	}
	r.States += int64(len(seen))
	r.Distinct += int64(len(seen))
	r.Max("depth", int64(maxDepth))
}

// Interference looks for state that a class keeps for all its instances: the
// object under test is rebuilt, a bystander of the same class is built, the
// operation is applied, another bystander is built - and at every point the
// one that was not touched must still show what it showed before. rebuild
// returns the object's view function and a function applying the operation;
// each bystander constructor returns the view function of a fresh bystander.
// The result is "" or a description of the first disturbance.
func Interference(rebuild func() (view func() string, apply func(), ok bool), bystanders []func() (view func() string)) string {
	for bi, mk := range bystanders {
		view, apply, ok := rebuild()
		if !ok {
			return ""
		}
		v0 := view()
		by := mk()
		b0 := by()
		if v := view(); v != v0 {
			return fmt.Sprintf("building another collection of the same class (bystander %d) changes this one: %s, was %s", bi, v, v0)
		}
		apply()
		v1 := view()
		if b := by(); b != b0 {
			return fmt.Sprintf("the operation changes another collection of the same class (bystander %d): %s, was %s", bi, b, b0)
		}
		by2 := mk()
		if v := view(); v != v1 {
			return fmt.Sprintf("building another collection of the same class after the operation (bystander %d) changes this one: %s, was %s", bi, v, v1)
		}
		if b := by2(); b != b0 {
			return fmt.Sprintf("a collection built after the operation on another one (bystander %d) differs from the same collection built before: %s, was %s", bi, b, b0)
		}
	}
	return ""
}
