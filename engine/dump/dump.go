// Package dump renders the complete private state of an object as a canonical
// string: unexported fields are read by reflection, pointers are numbered in
// traversal order (addresses never appear), map entries are visited in the
// order of their dumped keys, cycles print a back-reference. Two objects with
// the same dump have the same futures (the code under test is deterministic
// once the random source and map order are controlled), which is the
// correctness argument for using the dump as the state key of the
// explicit-state searches.
package dump

import (
	"fmt"
	"reflect"
	"sort"
	"strings"
	"unsafe"
)

type dumper struct {
	b    strings.Builder
	seen map[unsafe.Pointer]int
	next int
}

// Dump returns the canonical dump of v.
func Dump(v any) string {
	d := &dumper{seen: map[unsafe.Pointer]int{}}
	d.val(reflect.ValueOf(v), 0)
	return d.b.String()
}

func (d *dumper) seenID(v reflect.Value) int {
	for v.IsValid() && v.Kind() == reflect.Interface && !v.IsNil() {
		v = v.Elem()
	}
	if v.IsValid() && v.Kind() == reflect.Pointer && !v.IsNil() {
		return d.seen[v.UnsafePointer()]
	}
	return 0
}

func accessible(v reflect.Value) reflect.Value {
	if v.CanInterface() || !v.CanAddr() {
		return v
	}
	return reflect.NewAt(v.Type(), unsafe.Pointer(v.UnsafeAddr())).Elem()
}

func (d *dumper) val(v reflect.Value, depth int) {
	if depth > 200 {
		d.b.WriteString("<deep>")
		return
	}
	if !v.IsValid() {
		d.b.WriteString("nil")
		return
	}
	t := v.Type()
	name := t.String()
	switch v.Kind() {
	case reflect.Bool:
		fmt.Fprintf(&d.b, "%v", v.Bool())
	case reflect.Int, reflect.Int8, reflect.Int16, reflect.Int32, reflect.Int64:
		fmt.Fprintf(&d.b, "%s(%d)", name, v.Int())
	case reflect.Uint, reflect.Uint8, reflect.Uint16, reflect.Uint32, reflect.Uint64, reflect.Uintptr:
		fmt.Fprintf(&d.b, "%s(%d)", name, v.Uint())
	case reflect.Float32, reflect.Float64:
		fmt.Fprintf(&d.b, "%s(%x)", name, v.Float())
	case reflect.Complex64, reflect.Complex128:
		c := v.Complex()
		fmt.Fprintf(&d.b, "%s(%x,%x)", name, real(c), imag(c))
	case reflect.String:
		fmt.Fprintf(&d.b, "%q", v.String())
	case reflect.Func:
		if v.IsNil() {
			d.b.WriteString("func(nil)")
		} else {
			d.b.WriteString("func")
		}
	case reflect.Chan:
		if v.IsNil() {
			d.b.WriteString("chan(nil)")
		} else {
			fmt.Fprintf(&d.b, "chan(len=%d,cap=%d)", v.Len(), v.Cap())
		}
	case reflect.Interface:
		if v.IsNil() {
			d.b.WriteString("iface(nil)")
			return
		}
		d.val(v.Elem(), depth+1)
	case reflect.Pointer:
		if v.IsNil() {
			d.b.WriteString(name + "(nil)")
			return
		}
		if strings.Contains(name, "Class_") || strings.Contains(name, "notation_") {
			d.b.WriteString("&" + name)
			return
		}
		p := v.UnsafePointer()
		if id, ok := d.seen[p]; ok {
			fmt.Fprintf(&d.b, "^%d", id)
			return
		}
		d.next++
		d.seen[p] = d.next
		fmt.Fprintf(&d.b, "&%d:", d.next)
		d.val(v.Elem(), depth+1)
	case reflect.Struct:
		if strings.HasPrefix(name, "verifrt.") || strings.HasPrefix(name, "sync.") {
			d.b.WriteString(name)
			return
		}
		if name == "strings.Builder" {
			av := accessible(v)
			if av.CanAddr() {
				sb := (*strings.Builder)(unsafe.Pointer(av.UnsafeAddr()))
				fmt.Fprintf(&d.b, "Builder(%q)", sb.String())
				return
			}
		}
		d.b.WriteString(name + "{")
		for i := 0; i < v.NumField(); i++ {
			if i > 0 {
				d.b.WriteString(",")
			}
			d.b.WriteString(t.Field(i).Name + ":")
			d.val(accessible(v.Field(i)), depth+1)
		}
		d.b.WriteString("}")
	case reflect.Slice:
		if v.IsNil() {
			d.b.WriteString(name + "(nil)")
			return
		}
		fallthrough
	case reflect.Array:
		d.b.WriteString(name + "[")
		for i := 0; i < v.Len(); i++ {
			if i > 0 {
				d.b.WriteString(",")
			}
			d.val(accessible(v.Index(i)), depth+1)
		}
		d.b.WriteString("]")
	case reflect.Map:
		if v.IsNil() {
			d.b.WriteString(name + "(nil)")
			return
		}
		// entries in the order of their dumped keys; keys are dumped with a
		// private dumper so that pointer numbering inside keys is by content
		type ent struct {
			k  string // key dump + value dump (sort key)
			ko string // key dump only
			v  reflect.Value
			id int
		}
		var ents []ent
		it := v.MapRange()
		for it.Next() {
			kd := &dumper{seen: map[unsafe.Pointer]int{}}
			kd.val(it.Key(), 0)
			ko := kd.b.String()
			kd.b.WriteString("=>")
			kd.val(it.Value(), 0) // ties between equal-content keys are broken by the value's content ...
			id := d.seenID(it.Key())
			if id == 0 {
				id = d.seenID(it.Value()) // ... and then by identities already numbered by this traversal
			}
			ents = append(ents, ent{kd.b.String(), ko, it.Value(), id})
		}
		sort.SliceStable(ents, func(i, j int) bool {
			if ents[i].k != ents[j].k {
				return ents[i].k < ents[j].k
			}
			return ents[i].id < ents[j].id
		})
		d.b.WriteString(name + "{")
		for i, e := range ents {
			if i > 0 {
				d.b.WriteString(",")
			}
			d.b.WriteString(e.ko + "=>")
			d.val(e.v, depth+1)
		}
		d.b.WriteString("}")
	case reflect.UnsafePointer:
		d.b.WriteString("unsafe")
	default:
		d.b.WriteString("?" + name)
	}
}

// Field returns the (unexported) field name of the struct that obj points to,
// made readable.
func Field(obj any, name string) reflect.Value {
	v := reflect.ValueOf(obj)
	for v.Kind() == reflect.Pointer || v.Kind() == reflect.Interface {
		v = v.Elem()
	}
	if v.Kind() != reflect.Struct {
		return reflect.Value{}
	}
	f := v.FieldByName(name)
	if !f.IsValid() {
		return f
	}
	return accessible(f)
}
