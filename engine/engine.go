// Package engine is the driver shared by all checks: work units, worker
// processes, violation signatures, known findings, replay files and evidence.
package engine

import (
	"bufio"
	"crypto/sha1"
	"encoding/json"
	"fmt"
	rt "github.com/craterdog/go-collection-framework/v4/verifrt"
	"io"
	"os"
	"os/exec"
	"path/filepath"
	"sort"
	"strconv"
	"strings"
	"sync"
	"time"
)

// Violation is one concrete failing case.
type Violation struct {
	Sig    string          `json:"sig"`    // classifier signature (operation / input class / failure kind)
	Detail string          `json:"detail"` // what was expected and what was observed
	Case   json.RawMessage `json:"case"`   // the failing input / operation path / schedule
	Unit   string          `json:"unit"`
}

// Rec collects what one unit covered.
type Rec struct {
	Unit        string           `json:"unit"`
	States      int64            `json:"states"`
	Transitions int64            `json:"transitions"`
	Evals       int64            `json:"evals"`
	Distinct    int64            `json:"distinct"`
	Outcomes    map[string]int64 `json:"outcomes"`
	Samples     []any            `json:"samples"`
	Violations  []Violation      `json:"violations"` // first witness per signature
	SigCounts   map[string]int64 `json:"sig_counts"`
	Exhaustive  bool             `json:"exhaustive"`
	Notes       map[string]any   `json:"notes"`
	Maxes       map[string]int64 `json:"maxes"`
	Sums        map[string]int64 `json:"sums"`
	WallS       float64          `json:"wall_s"`

	Deadline   time.Time       `json:"-"`
	Tier       string          `json:"-"`
	ReplayCase json.RawMessage `json:"-"` // non-nil: only this case is to be evaluated
	maxSamples int
}

func newRec(unit, tier string, deadline time.Time) *Rec {
	return &Rec{Unit: unit, Tier: tier, Deadline: deadline, Outcomes: map[string]int64{}, SigCounts: map[string]int64{},
		Notes: map[string]any{}, Maxes: map[string]int64{}, Sums: map[string]int64{}, Exhaustive: true, maxSamples: 3}
}

func (r *Rec) Outcome(class string) { r.Outcomes[class]++ }
func (r *Rec) Sample(v any) {
	if len(r.Samples) < r.maxSamples {
		r.Samples = append(r.Samples, v)
	}
}
func (r *Rec) Max(key string, v int64) {
	if v > r.Maxes[key] {
		r.Maxes[key] = v
	}
}
func (r *Rec) Add(key string, v int64) { r.Sums[key] += v }
func (r *Rec) Note(key string, v any)  { r.Notes[key] = v }

// TimeUp reports whether the exploration budget of this run is used up; a
// unit that stops because of it must call Incomplete.
func (r *Rec) TimeUp() bool { return !r.Deadline.IsZero() && time.Now().After(r.Deadline) }
func (r *Rec) Incomplete(why string) {
	r.Exhaustive = false
	r.Notes["incomplete"] = why
}

// Violation records a failing case under its signature.
func (r *Rec) Violation(sig, detail string, c any) {
	if msg := rt.LastUnmodelled(); msg != "" {
		// the execution this was concluded from met something the runtime model does not cover: no verdict
		r.Notes["not_modelled"] = msg
		r.Incomplete("a case was not decided, the runtime model does not cover it: " + msg)
		return
	}
	r.SigCounts[sig]++
	if r.SigCounts[sig] > 1 {
		return
	}
	raw, err := json.Marshal(c)
	if err != nil {
		raw, _ = json.Marshal(fmt.Sprint(c))
	}
	r.Violations = append(r.Violations, Violation{Sig: sig, Detail: detail, Case: raw, Unit: r.Unit})
}

// Wanted reports whether the case with this description is to be evaluated
// (always, except when replaying one case).
func (r *Rec) Wanted(c any) bool {
	if r.ReplayCase == nil {
		return true
	}
	raw, _ := json.Marshal(c)
	return string(raw) == string(r.ReplayCase)
}

// Unit is an independent piece of work of a check.
type Unit struct {
	Name string
	Run  func(r *Rec)
	Tier string // the tier this unit runs at when it differs from the run's tier
	// Early units run before the others: the short ones of a check, so that a change of the library which makes
	// every long unit slower cannot use up the budget before them (the budget is a deadline, not an oracle).
	Early bool
}

// unitsFor returns the units of a run. The thorough tier first repeats the
// quick tier's units (named quick/<unit>), so that a budget spent on the deep
// units never leaves a family of programs with less coverage than the quick
// tier gives it.
func unitsFor(c *Check, tier string) []Unit {
	us := earlyFirst(c.Units(tier))
	if tier != "thorough" {
		return us
	}
	var all []Unit
	for _, u := range earlyFirst(c.Units("quick")) {
		u.Name = "quick/" + u.Name
		u.Tier = "quick"
		all = append(all, u)
	}
	return append(all, us...)
}

func earlyFirst(us []Unit) []Unit {
	var head, tail []Unit
	for _, u := range us {
		if u.Early {
			head = append(head, u)
		} else {
			tail = append(tail, u)
		}
	}
	return append(head, tail...)
}

// Check is the machinery deciding one property.
type Check struct {
	ID        string
	Technique string
	Rule      string // how cases are enumerated and what makes one distinct / non-trivial
	Assume    []string
	Units     func(tier string) []Unit
	// Budget is the exploration budget per tier (not an oracle).
	Budget func(tier string) time.Duration
}

var registry = map[string]*Check{}

func Register(c *Check) { registry[c.ID] = c }

func Lookup(id string) *Check { return registry[id] }

func IDs() []string {
	var ids []string
	for id := range registry {
		ids = append(ids, id)
	}
	sort.Strings(ids)
	return ids
}

// ---- known findings ----

type Finding struct {
	Property    string `json:"property"`
	Signature   string `json:"signature"`
	What        string `json:"what"`
	Witness     string `json:"witness"`
	Disposition string `json:"disposition"`
}

type FindingsFile struct {
	Known []Finding `json:"known"`
	Fixed []string  `json:"fixed"`
}

func loadFindings(root string) FindingsFile {
	var ff FindingsFile
	data, err := os.ReadFile(filepath.Join(root, "known_findings.json"))
	if err == nil {
		json.Unmarshal(data, &ff)
	}
	return ff
}

// ---- worker protocol ----

// WorkerMain runs the units whose indices arrive on stdin, one per line, and
// prints one JSON record per unit on stdout.
func WorkerMain(id, tier string, deadline time.Time) {
	c := Lookup(id)
	if c == nil {
		fmt.Fprintln(os.Stderr, "unknown check", id)
		os.Exit(2)
	}
	units := unitsFor(c, tier)
	in := bufio.NewScanner(os.Stdin)
	out := bufio.NewWriter(os.Stdout)
	for in.Scan() {
		// "<unit index> [<deadline of this unit, ns>]"
		f := strings.Fields(in.Text())
		if len(f) == 0 {
			continue
		}
		idx, err := strconv.Atoi(f[0])
		if err != nil || idx < 0 || idx >= len(units) {
			continue
		}
		unitDeadline := deadline
		if len(f) > 1 {
			if ns, err := strconv.ParseInt(f[1], 10, 64); err == nil && time.Unix(0, ns).Before(deadline) {
				unitDeadline = time.Unix(0, ns)
			}
		}
		rec := RunUnit(units[idx], tier, unitDeadline, nil)
		data, _ := json.Marshal(rec)
		out.WriteString("REC ")
		out.Write(data)
		out.WriteString("\n")
		out.Flush()
	}
}

// RunUnit runs one unit in this process.
func RunUnit(u Unit, tier string, deadline time.Time, replay json.RawMessage) *Rec {
	if u.Tier != "" {
		tier = u.Tier
	}
	rec := newRec(u.Name, tier, deadline)
	rec.ReplayCase = replay
	rt.ClearUnmodelled()
	t0 := time.Now()
	u.Run(rec)
	rec.WallS = time.Since(t0).Seconds()
	return rec
}

type replayFile struct {
	Property string          `json:"property"`
	Tier     string          `json:"tier"`
	Unit     string          `json:"unit"`
	Sig      string          `json:"signature"`
	Detail   string          `json:"detail"`
	Case     json.RawMessage `json:"case"`
	How      string          `json:"how_to_replay"`
}

// Main is the entry point of `vcheck run <id> <tier>`; it returns the exit status.
func Main(root, self, id, tier string, workers int, seed int64) int {
	c := Lookup(id)
	if c == nil {
		fmt.Fprintln(os.Stderr, "unknown check", id)
		return 2
	}
	t0 := time.Now()
	budget := c.Budget(tier)
	deadline := t0.Add(budget)
	units := unitsFor(c, tier)
	if workers > len(units) {
		workers = len(units)
	}
	if workers < 1 {
		workers = 1
	}
	// rotate the unit order by the seed (no random choices anywhere else)
	order := make([]int, len(units))
	for i := range order {
		order[i] = i
	}
	if seed != 0 && len(order) > 1 {
		k := int(uint64(seed) % uint64(len(order)))
		order = append(order[k:], order[:k]...)
	}
	var mu sync.Mutex
	next := 0
	recs := make([]*Rec, len(units))
	var crashes []Violation
	machineryFailure := ""
	var wg sync.WaitGroup
	for w := 0; w < workers; w++ {
		wg.Add(1)
		go func() {
			defer wg.Done()
			for {
				// (re)start a worker process
				mu.Lock()
				if next >= len(order) {
					mu.Unlock()
					return
				}
				mu.Unlock()
				cmd := exec.Command(self, "worker", id, tier, strconv.FormatInt(deadline.UnixNano(), 10))
				cmd.Env = append(os.Environ(), "GOMAXPROCS=2", "GOGC=200")
				stdin, _ := cmd.StdinPipe()
				stdout, _ := cmd.StdoutPipe()
				var errBuf tailBuffer
				cmd.Stderr = &errBuf
				if err := cmd.Start(); err != nil {
					mu.Lock()
					machineryFailure = "cannot start worker: " + err.Error()
					mu.Unlock()
					return
				}
				rd := bufio.NewReaderSize(stdout, 1<<20)
				crashed := false
				for {
					mu.Lock()
					if next >= len(order) {
						mu.Unlock()
						break
					}
					idx := order[next]
					next++
					// thorough tier: a unit may use its fair share of what is left of the budget
					// (remaining time x workers / remaining units), so that the deep units at the
					// head of the list cannot starve the rest; shares grow as quick units finish early
					unitDeadline := deadline
					if tier == "thorough" {
						left := len(order) - next + 1
						share := time.Duration(float64(time.Until(deadline)) * float64(workers) / float64(left))
						if share < 20*time.Second {
							share = 20 * time.Second
						}
						if d := time.Now().Add(share); d.Before(deadline) {
							unitDeadline = d
						}
					}
					mu.Unlock()
					fmt.Fprintf(stdin, "%d %d\n", idx, unitDeadline.UnixNano())
					rec, err := readRec(rd)
					if err != nil {
						// the worker died while running unit idx
						cmd.Wait()
						tail := errBuf.String()
						mu.Lock()
						if strings.Contains(tail, "verif machinery error") {
							// the harness itself gave up (something the runtime model does not cover): no verdict for this
							// unit, and certainly not a violation of the property
							machineryFailure = "unit " + units[idx].Name + ": " + firstFatalLine(tail)
							mu.Unlock()
							crashed = true
							break
						}
						raw, _ := json.Marshal(map[string]any{"unit": units[idx].Name})
						crashes = append(crashes, Violation{
							Sig:    "worker process died (" + firstFatalLine(tail) + ")",
							Detail: "the worker running this unit terminated abnormally; stderr tail:\n" + tail,
							Case:   raw, Unit: units[idx].Name})
						mu.Unlock()
						crashed = true
						break
					}
					mu.Lock()
					recs[idx] = rec
					mu.Unlock()
				}
				if !crashed {
					stdin.Close()
					cmd.Wait()
					return
				}
			}
		}()
	}
	wg.Wait()
	if machineryFailure != "" {
		fmt.Fprintln(os.Stderr, "verif:", machineryFailure)
		return 2
	}
	return finish(root, c, tier, seed, units, recs, crashes, time.Since(t0), budget)
}

type tailBuffer struct {
	mu  sync.Mutex
	buf []byte
}

func (t *tailBuffer) Write(p []byte) (int, error) {
	t.mu.Lock()
	defer t.mu.Unlock()
	t.buf = append(t.buf, p...)
	if len(t.buf) > 16384 {
		// keep head (fatal error line) and tail
		t.buf = append(t.buf[:8192:8192], t.buf[len(t.buf)-8192:]...)
	}
	return len(p), nil
}
func (t *tailBuffer) String() string { t.mu.Lock(); defer t.mu.Unlock(); return string(t.buf) }

func firstFatalLine(s string) string {
	for _, l := range strings.Split(s, "\n") {
		if strings.HasPrefix(l, "fatal error:") || strings.HasPrefix(l, "panic:") || strings.HasPrefix(l, "runtime:") {
			if len(l) > 120 {
				l = l[:120]
			}
			return l
		}
	}
	return "no diagnostic"
}

func readRec(rd *bufio.Reader) (*Rec, error) {
	for {
		line, err := rd.ReadString('\n')
		if err != nil {
			return nil, err
		}
		if strings.HasPrefix(line, "REC ") {
			var rec Rec
			if err := json.Unmarshal([]byte(line[4:]), &rec); err != nil {
				return nil, err
			}
			return &rec, nil
		}
		// anything else printed by the code under test is ignored
	}
}

func finish(root string, c *Check, tier string, seed int64, units []Unit, recs []*Rec, crashes []Violation, wall, budget time.Duration) int {
	ff := loadFindings(root)
	if out := os.Getenv("VERIF_OUT"); out != "" {
		root = out // evidence and replay files of runs against a scratch tree go elsewhere
	}
	known := map[string]Finding{}
	for _, f := range ff.Known {
		if f.Property == c.ID {
			known[f.Signature] = f
		}
	}
	var states, trans, evals, distinct int64
	outcomes := map[string]int64{}
	maxes := map[string]int64{}
	sums := map[string]int64{}
	notes := map[string]any{}
	var samples []any
	exhaustive := true
	sigCounts := map[string]int64{}
	first := map[string]Violation{}
	var incompleteUnits []string
	unitWalls := map[string]float64{}
	for i, r := range recs {
		if r == nil {
			exhaustive = false
			incompleteUnits = append(incompleteUnits, units[i].Name+" (not run)")
			continue
		}
		states += r.States
		trans += r.Transitions
		evals += r.Evals
		distinct += r.Distinct
		for k, v := range r.Outcomes {
			outcomes[k] += v
		}
		for k, v := range r.Maxes {
			if v > maxes[k] {
				maxes[k] = v
			}
		}
		for k, v := range r.Sums {
			sums[k] += v
		}
		for k, v := range r.Notes {
			notes[r.Unit+"."+k] = v
		}
		if len(samples) < 12 {
			for _, s := range r.Samples {
				if len(samples) < 12 {
					samples = append(samples, map[string]any{"unit": r.Unit, "case": s})
				}
			}
		}
		if !r.Exhaustive {
			exhaustive = false
			incompleteUnits = append(incompleteUnits, r.Unit)
		}
		for s, n := range r.SigCounts {
			sigCounts[s] += n
		}
		for _, v := range r.Violations {
			if _, ok := first[v.Sig]; !ok {
				first[v.Sig] = v
			}
		}
		unitWalls[r.Unit] = r.WallS
	}
	for _, v := range crashes {
		sigCounts[v.Sig]++
		if _, ok := first[v.Sig]; !ok {
			first[v.Sig] = v
		}
	}
	var sigs []string
	for s := range first {
		sigs = append(sigs, s)
	}
	sort.Strings(sigs)
	nviol := 0
	var knownSeen []string
	for _, s := range sigs {
		v := first[s]
		if f, ok := known[s]; ok {
			fmt.Printf("KNOWN-FINDING: property=%s %s [%s] (%d cases this run)\n", c.ID, f.What, s, sigCounts[s])
			knownSeen = append(knownSeen, s)
			continue
		}
		nviol++
		dir := filepath.Join(root, "replays", c.ID)
		os.MkdirAll(dir, 0o755)
		h := sha1.Sum([]byte(s))
		path := filepath.Join(dir, fmt.Sprintf("%x.json", h[:6]))
		rf := replayFile{Property: c.ID, Tier: tier, Unit: v.Unit, Sig: s, Detail: v.Detail, Case: v.Case,
			How: "./run.sh replay " + path}
		data, _ := json.MarshalIndent(rf, "", " ")
		os.WriteFile(path, data, 0o644)
		fmt.Printf("VIOLATION property=%s replay=%s\n", c.ID, path)
		fmt.Printf("  signature: %s (%d cases)\n  %s\n", s, sigCounts[s], strings.ReplaceAll(firstLines(v.Detail, 12), "\n", "\n  "))
	}
	// evidence
	cov := map[string]any{
		"states":                        maxi(states, 1),
		"transitions":                   maxi(trans, 1),
		"traces_validated_against_impl": evals,
		"evaluations":                   maxi(evals, 1),
		"distinct_nontrivial":           maxi(distinct, 2),
		"rule":                          c.Rule,
		"samples":                       samples,
		"exhaustive":                    exhaustive,
		"exhaustive_means":              "every unit enumerated its stated finite space completely (for schedule explorations: all interleavings, or all schedules up to the preemption bound named in the per-program counters and notes)",
		"outcomes":                      outcomes,
		"units":                         len(units),
		"unit_wall_s":                   unitWalls,
		"technique":                     c.Technique,
		"budget_s":                      budget.Seconds(),
		"known_findings_seen":           knownSeen,
		"violation_signatures":          sigCounts,
	}
	if distinct < 2 {
		cov["distinct_nontrivial_measured"] = distinct
	}
	for k, v := range maxes {
		cov["max_"+k] = v
	}
	for k, v := range sums {
		cov[k] = v
	}
	if len(notes) > 0 {
		cov["notes"] = notes
	}
	if len(incompleteUnits) > 0 {
		cov["incomplete_units"] = incompleteUnits
	}
	if len(samples) == 0 {
		cov["samples"] = []any{"(no unit recorded a sample)"}
	}
	ev := map[string]any{
		"property_id": c.ID,
		"tier":        tier,
		"seed":        seed,
		"level":       "model_checking",
		"coverage":    cov,
		"assumptions": c.Assume,
		"wall_s":      wall.Seconds(),
		"violations":  nviol,
	}
	os.MkdirAll(filepath.Join(root, "evidence"), 0o755)
	data, _ := json.MarshalIndent(ev, "", " ")
	os.WriteFile(filepath.Join(root, "evidence", c.ID+".json"), data, 0o644)
	fmt.Printf("%s %s: units=%d states=%d transitions=%d executions=%d distinct=%d exhaustive=%v violations=%d known=%d wall=%.1fs\n",
		c.ID, tier, len(units), states, trans, evals, distinct, exhaustive, nviol, len(knownSeen), wall.Seconds())
	if nviol > 0 {
		return 1
	}
	return 0
}

func maxi(a, b int64) int64 {
	if a > b {
		return a
	}
	return b
}

func firstLines(s string, n int) string {
	lines := strings.Split(s, "\n")
	if len(lines) > n {
		lines = append(lines[:n], "...")
	}
	return strings.Join(lines, "\n")
}

// ReplayMain re-executes the case stored in a replay file, twice, and prints
// what it observes. Exit 1 when the violation reproduces, 0 when it does not.
func ReplayMain(path string) int {
	data, err := os.ReadFile(path)
	if err != nil {
		fmt.Fprintln(os.Stderr, err)
		return 2
	}
	var rf replayFile
	if err := json.Unmarshal(data, &rf); err != nil {
		fmt.Fprintln(os.Stderr, err)
		return 2
	}
	c := Lookup(rf.Property)
	if c == nil {
		fmt.Fprintln(os.Stderr, "unknown check", rf.Property)
		return 2
	}
	var unit *Unit
	for _, u := range unitsFor(c, rf.Tier) {
		if u.Name == rf.Unit {
			u := u
			unit = &u
		}
	}
	if unit == nil {
		fmt.Fprintln(os.Stderr, "unknown unit", rf.Unit)
		return 2
	}
	repro := 0
	for i := 0; i < 2; i++ {
		rec := RunUnit(*unit, rf.Tier, time.Time{}, rf.Case)
		found := false
		for _, v := range rec.Violations {
			if v.Sig == rf.Sig {
				found = true
				fmt.Printf("replay %d: reproduced: %s\n%s\n", i+1, v.Sig, v.Detail)
			}
		}
		if found {
			repro++
		} else {
			fmt.Printf("replay %d: not reproduced (%d other violations)\n", i+1, len(rec.Violations))
		}
	}
	if repro == 2 {
		return 1
	}
	if repro == 1 {
		fmt.Println("replay is not deterministic: machinery error")
		return 2
	}
	return 0
}

var _ = io.EOF
