// Package schedx is the exploration strategy shared by the concurrent checks:
// mode A (all interleavings, reduced by sleep sets) where it completes within
// the execution cap, otherwise mode B (iterative preemption bounding).
package schedx

import (
	"encoding/json"
	"fmt"
	"os"
	"strings"

	rt "github.com/craterdog/go-collection-framework/v4/verifrt"
	"verif/engine"
)

// Case is the replayable description of one schedule.
type Case struct {
	Prog     string        `json:"prog"`
	Desc     string        `json:"program"`
	Choices  []int         `json:"schedule"`
	Elide    bool          `json:"elide"`
	Sleep    bool          `json:"mode_a"`
	Installs map[int][]int `json:"sleep_installs,omitempty"`
	Reset    bool          `json:"globals_reset,omitempty"` // package-level state is put back into its initial state before the execution
}

// Opts tunes the strategy per tier.
type Opts struct {
	Name, Desc string
	SigPrefix  string
	CapA       int   // execution cap of mode A
	Bounds     []int // preemption bounds to try in order when mode A does not complete (first that completes within CapB wins; later ones are attempted while they fit)
	CapB       int   // execution cap per bound
	NoElide    bool
	SkipA      bool // do not attempt mode A (programs whose operations are nearly all mutually dependent)
	// ColdStart adds a second exploration in which every execution starts from the initial package-level
	// state of the library (as the first use in a fresh process: empty pools, caches and registries), up to
	// the given preemption bounds. The main exploration runs on warm state, which is what a long-lived
	// process sees; a defect that needs an empty pool or a first use shows only from a cold start.
	ColdStart []int
	ColdCap   int
}

// Judges return "kind\x00detail" strings.
func split(w string) (string, string) {
	parts := strings.SplitN(w, "\x00", 2)
	if len(parts) == 1 {
		return parts[0], ""
	}
	return parts[0], parts[1]
}

// Explore runs the strategy and records coverage and violations in r.
func Explore(r *engine.Rec, prog rt.Program, o Opts) {
	if r.ReplayCase != nil {
		var sc Case
		if json.Unmarshal(r.ReplayCase, &sc) != nil || sc.Prog != o.Name {
			return
		}
		if sc.Reset {
			rt.ResetAllGlobals()
			defer rt.ResetAllGlobals()
		}
		threads, judge := prog()
		ex := rt.RunOnce(rt.Config{Elide: sc.Elide, Race: true, Trace: true, Sleep: sc.Sleep, Installs: sc.Installs}, sc.Choices, threads)
		r.Evals++
		if ex.Unmodelled != "" {
			return
		}
		for _, w := range judge(ex) {
			k, d := split(w)
			r.Violation(o.SigPrefix+k, d+"\ntrace:\n"+strings.Join(ex.Events, "\n"), sc)
		}
		return
	}
	// warm the class registries (first use registers the generic classes)
	warm, _ := prog()
	rt.RunOnce(rt.Config{}, nil, warm)
	outcomes := map[string]bool{}
	onExec := func(ex *rt.Exec) { outcomes[fmt.Sprint(ex.SortedStuck(), len(ex.Panics))] = true }
	diverged, globalsReset := false, false
	unmodelled := ""
	record := func(st rt.ExploreStats, elide, sleep bool) {
		if st.Unmodelled != "" {
			unmodelled = st.Unmodelled
		}
		if st.Diverged {
			diverged = true
		}
		if st.GlobalsReset {
			globalsReset = true
			diverged = st.Diverged // what counts is the exploration that was redone from a reset state
		}
		r.Evals += int64(st.Executions)
		r.States += int64(st.Points)
		r.Transitions += int64(st.Points + st.Executions)
		r.Add("schedules", int64(st.Executions))
		r.Add("deadlocked_executions", int64(st.Deadlocks))
		r.Max("threads", int64(st.MaxThreads))
		r.Max("choice_points_per_execution", int64(st.MaxPoints))
		r.Max("preemptions_in_one_execution", int64(st.MaxPreempt))
		for _, f := range st.Violations {
			for _, w := range f.What {
				k, d := split(w)
				sc := Case{Prog: o.Name, Desc: o.Desc, Choices: f.Choices, Elide: elide, Sleep: sleep, Reset: st.GlobalsReset}
				r.Violation(o.SigPrefix+k, d, sc)
			}
		}
	}
	elide := !o.NoElide
	// mode A
	var stA rt.ExploreStats
	if !o.SkipA {
		stA = rt.Explore(prog, rt.ExploreOpts{Bound: -1, Sleep: true, DPOR: os.Getenv("VERIF_NO_DPOR") == "", Race: true, Elide: elide, Deadline: r.Deadline, MaxExecs: o.CapA, OnExec: onExec})
		if stA.ElisionOff {
			elide = false
		}
		record(stA, elide, true)
		r.Add("sleep_blocked_executions", int64(stA.SleepBlocked))
	}
	allInterleavings := stA.Complete && !o.SkipA
	bound := -1
	if allInterleavings {
		r.Add("programs_with_all_interleavings_covered", 1)
	} else if len(stA.Violations) == 0 {
		// mode B
		for _, b := range o.Bounds {
			st := rt.Explore(prog, rt.ExploreOpts{Bound: b, Race: true, Elide: elide, Deadline: r.Deadline, MaxExecs: o.CapB, OnExec: onExec})
			record(st, elide && !st.ElisionOff, false)
			if !st.Complete {
				break
			}
			bound = b
			if len(st.Violations) > 0 {
				break
			}
		}
		if bound < 0 {
			r.Incomplete(fmt.Sprintf("%s: neither all interleavings nor the smallest preemption bound completed within the caps", o.Name))
		}
	}
	if len(o.ColdStart) > 0 && rt.CanResetGlobals() {
		cold := -1
		for _, b := range o.ColdStart {
			st := rt.Explore(prog, rt.ExploreOpts{Bound: b, Race: true, Elide: elide, Deadline: r.Deadline, MaxExecs: o.ColdCap, OnExec: onExec, ResetGlobals: true})
			st.GlobalsReset = true
			gr, dv := globalsReset, diverged
			record(st, elide && !st.ElisionOff, false)
			globalsReset, diverged = gr, dv
			if !st.Complete {
				break
			}
			cold = b
			if len(st.Violations) > 0 {
				break
			}
		}
		rt.ResetAllGlobals()
		r.Note("cold_start_preemption_bound_completed", cold)
		if cold >= 0 {
			r.Add("programs_also_explored_from_a_cold_start", 1)
		}
	}
	if unmodelled != "" {
		// no verdict for this program: the code under test uses something in a way the runtime model does not cover
		r.Note("not_modelled", unmodelled)
		r.Incomplete(fmt.Sprintf("%s: not explored, the runtime model does not cover it: %s", o.Name, unmodelled))
	}
	if globalsReset {
		r.Note("globals_reset", "executions of this program were not reproducible (package-level state survives between executions): the exploration was redone with every package-level variable of the library put back to its initial value before each execution")
	}
	if diverged {
		r.Note("not_reproducible", "a recorded schedule prefix could not be followed again: state outside the per-execution objects survives between executions; coverage of this program is incomplete")
		r.Exhaustive = false
	}
	r.Distinct += int64(len(outcomes))
	r.Note("all_interleavings", allInterleavings)
	if !allInterleavings {
		if bound >= 0 {
			r.Add(fmt.Sprintf("programs_covered_up_to_preemption_bound_%d_only", bound), 1)
		}
		r.Note("preemption_bound_completed", bound)
		r.Exhaustive = r.Exhaustive && bound >= 0
	}
	r.Note("elision", elide)
	r.Sample(map[string]any{"program": o.Desc, "all_interleavings(sleep sets)": allInterleavings, "traces": stA.Executions - stA.SleepBlocked, "preemption_bound_completed": bound})
}
